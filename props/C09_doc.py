"""C09 wave 4 (engineer a_c09): document-derived oracles and the dimensions the first streams did not vary.

text_doc_skip   documents WITH parameter blocks, '?'-words and clean @[..] expressions, rendered by this file (token
                offsets known), EVERY Open, small buffers (1..17, legal for a skip as soon as the tokens read before it
                fit), random schedules.  Oracles: position() after the skip = byte offset after the DOCUMENT's matching
                close; tokens after the skip = tokens the slice reader reads after that offset (token counting).
text_skip_comp  short inputs x ALL compositions of the reads x caps 1,2,3,8.
text_dense      8 and more braces in one SWAR word at every alignment, quotes / comments several buffers long, escapes
                at every offset of a refill, immediate close.
text_uv         skip_unquoted_value: header + gap variants (LF TAB TAB TAB, comments across refills, nothing) followed by
                a container / another token / the end of the input.
swar_leaf       count_chunk / contains_zero_byte / repeat_byte on words made of the skipper's special bytes and their
                near misses, against a per-lane oracle.
"""
from vlib import hexs
from props import textdoc as td, textgen as tg
from props.C07 import sched_str

WORDS = [b"a", b"b4", b"foo", b"bar_baz", b"1444.11.11", b"yes", b"x" * 7, b"y" * 8, b"z" * 9, b"w" * 17, b"caf\xe9",
         b"?w", b"?x1", b"@[1+2]", b"@[a b]", b"@[x=y]", b"@var", b"tag:ENG", b"x'y", b"k[0]", b"p%", b"\xfb\xfd", b"a\\b"]
HEADERS = [b"rgb", b"hsv", b"LIST"]
QBYTES = b'{}#=[] \n\tab\\cdefg0123'


def g_quoted(rng):
    n = rng.choice([0, 1, 2, 3, 6, 7, 8, 9, 15, 16, 17, rng.randrange(0, 40)])
    out = bytearray()
    for _ in range(n):
        r = rng.random()
        if r < 0.15:
            out += b'\\"'
        elif r < 0.25:
            out += b"\\\\"
        elif r < 0.3:
            out += b"\\}"
        else:
            c = rng.choice(QBYTES)
            out += bytes([c]) if c != 0x5c else b"\\\\"
    return ("s", "Q", bytes(out))


def g_scalar(rng):
    return g_quoted(rng) if rng.random() < 0.35 else ("s", "U", rng.choice(WORDS))


def g_value(rng, depth):
    r = rng.random()
    if depth <= 0 or r < 0.4:
        return g_scalar(rng)
    if r < 0.65:
        fs = g_fields(rng, depth - 1, rng.randrange(0, 4))
        return ("o", fs, [g_scalar(rng) for _ in range(rng.randrange(0, 2))]) if fs else ("a", [])
    if r < 0.9:
        return ("a", [g_value(rng, depth - 1) for _ in range(rng.randrange(0, 4))])
    return ("h", rng.choice(HEADERS), ("a", [("s", "U", rng.choice([b"1", b"0.5", b"255"])) for _ in range(rng.randrange(1, 4))]))


def g_fields(rng, depth, n):
    out = []
    for _ in range(n):
        r = rng.random()
        if r < 0.18:
            name = rng.choice([b"p", b"param_1", b"x" * 9])
            if rng.random() < 0.5:
                out.append(("p", name, rng.random() < 0.4, ("v", rng.choice([b"1", b"foo", b"?w", b"y" * 9]))))
            else:
                out.append(("p", name, rng.random() < 0.4, ("o", g_fields(rng, max(depth - 1, 0), rng.randrange(1, 3)))))
            continue
        val = g_value(rng, depth)
        op = rng.choice(td.OPL) if rng.random() < 0.3 else "="
        if val[0] in ("o", "a") and rng.random() < 0.3:
            op = None
        out.append(("f", g_scalar(rng), op, val))
    return out


def doc_tokens(doc):
    """the document's own token list: (bytes, kind) kind in u (bare) q (quoted) b (brace) k (bracket) op"""
    toks = []

    def sc(s):
        toks.append((b'"' + s[2] + b'"', "q") if s[1] == "Q" else (s[2], "u"))

    def fields(fs):
        for f in fs:
            if f[0] == "p":
                _, name, undefined, pv = f
                toks.append((b"[[" + (b"!" if undefined else b"") + name + b"]", "k"))
                if pv[0] == "v":
                    toks.append((pv[1], "u"))
                else:
                    fields(pv[1])
                toks.append((b"]", "k"))
                continue
            _, key, op, val = f
            sc(key)
            if op is not None:
                toks.append((op.encode(), "op"))
            value(val)

    def value(v):
        k = v[0]
        if k == "s":
            sc(v)
        elif k == "o":
            toks.append((b"{", "b")); fields(v[1]); [value(x) for x in v[2]]; toks.append((b"}", "b"))
        elif k == "a":
            toks.append((b"{", "b")); [value(x) for x in v[1]]; toks.append((b"}", "b"))
        elif k == "h":
            toks.append((v[1], "u")); value(v[2])

    fields(doc)
    return toks


BOUNDARY_START = set(b"\t\n\x0b\x0c\r !#<=>[]}{")


def render_offsets(toks, rng, style):
    """bytes of the rendering and, per token, the offset just after it"""
    lay = td.Layout(rng, style)
    out = bytearray()
    after = []
    for i, (b, kind) in enumerate(toks):
        out += b
        after.append(len(out))
        if i + 1 < len(toks):
            nb = toks[i + 1][0]
            # a bare word needs a separator from a following non-boundary start; so does an operator-like
            # ending ('?') before '=' ; '[[p]' and ']' before a word glue for the reader but that only changes its
            # token list, not where braces are
            # brackets too: the reader would read  ]"k}"  as one bare word holding a quote (the refuted class)
            must = (kind in ("u", "k") and nb[:1] and nb[0] not in BOUNDARY_START) or (kind in ("u", "op") and nb[:1] in (b"=",))
            out += lay.gap(must)
    out += lay.gap(False)
    return bytes(out), after


def doc_close(toks, i):
    depth = 0
    for j in range(i, len(toks)):
        if toks[j] == (b"{", "b"):
            depth += 1
        elif toks[j] == (b"}", "b"):
            depth -= 1
            if depth == 0:
                return j
    return None


def ref_skip(d, start):
    """naive byte-level walk (the code's own algorithm without windows): landing offset or None, and whether it ever
    stands on a backslash inside a quote (then the streaming skipper needs 3 bytes of buffer)"""
    depth, st, i, esc = 1, 0, start, False
    n = len(d)
    while i < n:
        c = d[i]
        if st == 0:
            if c == 0x7b:
                depth += 1
            elif c == 0x7d:
                depth -= 1
                if depth == 0:
                    return i + 1, esc
            elif c == 0x22:
                st = 1
            elif c == 0x23:
                st = 2
            i += 1
        elif st == 1:
            if c == 0x5c:
                esc = True
                i += 2
            else:
                if c == 0x22:
                    st = 0
                i += 1
        else:
            if c == 0x0a:
                st = 0
            i += 1
    return None, esc


def toks_pos(out):
    """tr.slicepos output -> [(tok, pos)]"""
    r = []
    for x in out.split(" "):
        t, p = x.rsplit("@", 1)
        r.append((t, int(p)))
    return r


def count_close_pos(tp, i):
    """tp = [(tok,pos)], token i is an Open: index of the matching Close by token counting"""
    depth = 0
    for j in range(i, len(tp)):
        if tp[j][0] == "O":
            depth += 1
        elif tp[j][0] == "C":
            depth -= 1
            if depth == 0:
                return j
    return None


def judge_skip(ctx, case, out, exp_pos, exp_rest, cap, need3, what):
    """out = tr.skip output; exp_pos = where the skip must land; exp_rest = [tok..] expected after it"""
    parts = out.split(" ")
    if parts[0] == "ERR:101" and cap is not None and cap < 3 and need3:
        return   # BufferFull with a buffer below skip_need: C09_text_stream_full
    if not parts[0].startswith("SKIP@"):
        ctx.fail("text-skip-smallcap" if (cap is not None and cap < 8) else "text-skip-err",
                 "%s: %s, expected to land at %d" % (what, out[:80], exp_pos), [case], [out[:400]], "SKIP@%d" % exp_pos)
        return
    if int(parts[0][5:]) != exp_pos:
        ctx.fail("text-skip-position", "%s: position() after the skip is %s, the matching close ends at %d" % (what, parts[0][5:], exp_pos),
                 [case], [out[:400]], "SKIP@%d" % exp_pos)
        return
    got = parts[1:-2]
    if exp_rest is not None and (got != exp_rest or parts[-2] != "END"):
        ctx.fail("text-skip-lands", "%s: continues with %s, expected %s" % (what, " ".join(got[:6]), " ".join(exp_rest[:6])),
                 [case], [out[:400]], " ".join(exp_rest[:40]))


def run_doc(ctx):
    rng = ctx.rng
    # ------------------------------------------------------------- documents, every Open
    docs = []
    for _ in range(ctx.scale(220, 2500)):
        doc = g_fields(rng, rng.choice([2, 3, 4]), rng.randrange(1, 4))
        toks = doc_tokens(doc)
        d, after = render_offsets(toks, rng, rng.choice(td.STYLES))
        docs.append((toks, d, after))
    sp = ["tr.slicepos\t%s" % hexs(d) for _, d, _ in docs]
    sp_impl, _ = ctx.correspond("text_doc_tokens", sp, model=False, nontrivial=lambda c, i: " O@" in i)
    sb = len(sp_impl) - len(sp)
    cases, meta = [], []
    n_param = 0
    for k, (toks, d, after) in enumerate(docs):
        tp = toks_pos(sp_impl[sb + k])
        if tp[-1][0] != "END":
            ctx.fail("text-doc-tokens", "slice reader does not reach the end of a generated document %r: %s" % (d, tp[-1][0]), [sp[k]], [sp_impl[sb + k][:300]])
            continue
        real_opens = [i for i, (t, _) in enumerate(tp) if t == "O"]
        doc_opens = [i for i, t in enumerate(toks) if t == (b"{", "b")]
        if len(real_opens) != len(doc_opens):
            ctx.fail("text-doc-tokens", "the reader sees %d Open tokens in %r, the document has %d" % (len(real_opens), d, len(doc_opens)), [sp[k]], [sp_impl[sb + k][:300]])
            continue
        n_param += any(t[0].startswith(b"[[") for t in toks)
        n = len(d)
        for oi, (ri, di) in enumerate(zip(real_opens, doc_opens)):
            dj = doc_close(toks, di)
            rj = count_close_pos(tp, ri)
            exp_pos = after[dj]
            open_end = after[di]
            _, need3 = ref_skip(d, open_end)
            if rj is None or tp[rj][1] != exp_pos:
                ctx.fail("text-doc-count", "token counting on the slice reader ends at %s, the document's matching close at %d in %r" %
                         (None if rj is None else tp[rj][1], exp_pos, d), [sp[k]], [sp_impl[sb + k][:300]])
                continue
            exp_rest = [t for t, _ in tp[rj + 1:-1]]
            pre_need = max(tg.atoms(d[:open_end]), tg.atoms(d[exp_pos:]))   # the tokens read before / after the skip must fit
            variants = [("slice", "-", None)]
            caps = sorted(set(max(pre_need, c) for c in rng.sample([1, 2, 3, 4, 5, 7, 8, 9, 16, 17], ctx.scale(2, 5))))
            for cap in caps:
                sc = rng.choice(tg.schedules(rng, n, 2))
                variants.append((str(cap), sched_str(sc), cap))
            for cap_s, sc, cap in variants:
                cases.append("tr.skip\t%s\t%s\t%s\t%d" % (cap_s, sc, hexs(d), ri + 1))
                meta.append((exp_pos, exp_rest, cap, need3, "skip_container at Open %d of %r (cap %s)" % (oi, d, cap_s)))
    impl, _ = ctx.correspond("text_doc_skip", cases, nontrivial=lambda c, i: i.startswith("SKIP"))
    base = len(impl) - len(cases)
    for j, m in enumerate(meta):
        judge_skip(ctx, cases[j], impl[base + j], m[0], m[1], m[2], m[3], m[4])
    ctx.count("text_doc_skip_cases", len(cases))
    ctx.count("text_doc_with_params", n_param)

    # ------------------------------------------------------------- short inputs, all compositions
    shorts = [b'{"}\\"{"}x', b"{#}\n{}}y", b"{}{}", b"{{{}}{}}z", b'{"\\\\"}}', b'{a="#"}b}', b'{"a\\"}"}c', b'{"\\"\\"}"}']
    rng.shuffle(shorts)
    cases, meta = [], []
    for d in shorts[:ctx.scale(5, 8)]:
        exp_pos, need3 = ref_skip(d, 1)
        for comp in tg.compositions(len(d)):
            for cap in (1, 2, 3, 8):
                cases.append("tr.skip\t%d\t%s\t%s\t1" % (cap, sched_str(comp), hexs(d)))
                meta.append((d, exp_pos, cap, need3))
    impl, _ = ctx.correspond("text_skip_comp", cases, nontrivial=lambda c, i: i.startswith("SKIP"))
    base = len(impl) - len(cases)
    rest_cases = ["tr.slice\t%s" % hexs(d[ref_skip(d, 1)[0]:]) for d in shorts]
    r_impl, _ = ctx.correspond("text_skip_comp_rest", rest_cases)
    rb = len(r_impl) - len(rest_cases)
    rest_of = {d: r_impl[rb + i].split(" ")[:-2] for i, d in enumerate(shorts)}
    for j, (d, exp_pos, cap, need3) in enumerate(meta):
        judge_skip(ctx, cases[j], impl[base + j], exp_pos, rest_of[d] if cap >= 8 else None, cap, need3,
                   "skip_container of %r cap %d reads %s" % (d, cap, cases[j].split("\t")[2]))
    ctx.count("text_skip_comp_cases", len(cases))

    # ------------------------------------------------------------- dense braces, long quotes / comments
    dense = []
    for pad in range(0, 9):
        for k in (7, 8, 9, 16, 17):
            dense.append(b"a={" + b" " * pad + b"{" * k + b"}" * k + b" } q=1 {x} tail=2")
            dense.append(b"a={" + b" " * pad + b"{" * k + b" " * (pad % 3) + b"}" * (k + 1) + b"{}}} q")
        dense.append(b"a={" + b" " * pad + b'"' + b"x" * 20 + b'\\"' + b"}" * 9 + b'\\\\" ' + b"}" + b" b={}")
        dense.append(b"a={" + b" " * pad + b"#" + b"}{\"" * 9 + b"\n" + b"}" + b"}}}}}}}} b=1")
        dense.append(b"a={" + b" " * pad + b"}" + b"}" * 8 + b" b")
        dense.append(b"a={" + b" " * pad + b"# c\r} {\x0b}\x0c}\n" + b" x=\"\r\n}\" } q=1")      # CR / VT / FF do not end a comment
        dense.append(b"a={" + b"}" + b" " * pad + b"{" * 8 + b"}" * 8)
    for off in range(0, 20):
        dense.append(b'a={ "' + b"y" * off + b'\\"' + b"z" * 11 + b'\\\\\\"}" } k={"}"} e=1')
    dp = ["tr.slicepos\t%s" % hexs(d) for d in dense]
    dp_impl, _ = ctx.correspond("text_dense_tokens", dp, model=False)
    db = len(dp_impl) - len(dp)
    cases, meta = [], []
    for k, d in enumerate(dense):
        tp = toks_pos(dp_impl[db + k])
        if tp[2][0] != "O":
            continue
        rj = count_close_pos(tp, 2)
        if rj is None:
            continue
        exp_pos = tp[rj][1]
        exp_rest = [t for t, _ in tp[rj + 1:-1]] if tp[-1][0] == "END" else None
        rp, need3 = ref_skip(d, 3)
        n = len(d)
        cmin = max(tg.atoms(d[:3]), tg.atoms(d[exp_pos:]))
        variants = [("slice", "-", None), (str(cmin), sched_str([1] * n), cmin)]
        for cap in rng.sample([4, 5, 8, 9, 10, 11, 12, 13, 15, 16, 17, 24, 64], ctx.scale(3, 8)):
            cap = max(cap, cmin)
            variants.append((str(cap), sched_str(rng.choice(tg.schedules(rng, n, 2))), cap))
        for cap_s, sc, cap in variants:
            cases.append("tr.skip\t%s\t%s\t%s\t3" % (cap_s, sc, hexs(d)))
            meta.append((exp_pos, exp_rest, cap, need3, "skip_container of %r (cap %s)" % (d, cap_s)))
    impl, _ = ctx.correspond("text_dense", cases, nontrivial=lambda c, i: i.startswith("SKIP"))
    base = len(impl) - len(cases)
    for j, m in enumerate(meta):
        judge_skip(ctx, cases[j], impl[base + j], m[0], m[1], m[2], m[3], m[4])
    ctx.count("text_dense_cases", len(cases))

    # ------------------------------------------------------------- skip_unquoted_value
    gaps = [b"", b" ", b"\n\t\t\t", b"\n\t\t\t ", b"\n\t\t\t\n\t\t\t", b"\n\t\t", b" # c } {\n", b"#x\n#y \"\n  ", b" ; ", b"\r\n", b" " * 9,
            b"\n\t\t\t# {\n\n\t\t\t", b"#c\n\t\t\t", b" #c\n\t\t\t", b"  #c\n\t\t\t", b"   #c\n\t\t\t", b"#{\n\t\t\t\n\t\t\t", b" # a\r{\n"]
    follows = [(b"{ 1 2 3 } f=2", "c"), (b"{} f=2", "c"), (b'{ "}" # }\n { 4 } } f=2', "c"), (b"x=1", "t"), (b'"q" y', "t"), (b"}", "t"), (b"", "e")]
    cases, meta = [], []
    uv_inputs = []
    for g in gaps:
        for fo, kind in follows:
            if kind == "t" and g == b"" and fo[:1] != b"}":
                continue
            d = b"c=rgb" + g + fo
            if kind == "c":
                exp_pos, _ = ref_skip(d, 5 + len(g) + 1)
            elif kind == "t":
                exp_pos = 5 + len(g)
            else:
                exp_pos = len(d)
            uv_inputs.append((d, exp_pos))
    # the input ends inside a comment that follows the header value: everything is consumed, no error
    for tail in (b" # end", b"#", b"\n\t\t\t#x {", b" # a\n # b }", b"#\r"):
        uv_inputs.append((b"c=rgb" + tail, 5 + len(tail)))
    rest_cases = ["tr.slice\t%s" % hexs(d[p:]) for d, p in uv_inputs]
    r_impl, _ = ctx.correspond("text_uv_rest", rest_cases)
    rb = len(r_impl) - len(rest_cases)
    for i, (d, exp_pos) in enumerate(uv_inputs):
        exp_rest = r_impl[rb + i].split(" ")
        n = len(d)
        variants = [("slice", "-"), ("5", sched_str([1] * n)), ("5", sched_str([4] * (n // 4 + 1))), ("8", sched_str([3] * (n // 3 + 1))),
                    (str(n + 9), sched_str([6, 1, 1, 1, 1, n])), ("6", sched_str(rng.choice(tg.schedules(rng, n, 2)))),
                    ("8", sched_str([5] + [4] * (n // 4 + 1))), ("9", sched_str([6] + [4] * (n // 4 + 1))), ("16", sched_str([7] + [4] * (n // 4 + 1))), ("16", sched_str([8] + [4] * (n // 4 + 1)))]
        for cap_s, sc in variants:
            cases.append("tr.skipuv\t%s\t%s\t%s\t3" % (cap_s, sc, hexs(d)))
            meta.append((d, exp_pos, exp_rest, cap_s))
    impl, _ = ctx.correspond("text_uv", cases, nontrivial=lambda c, i: i.startswith("SKIP"))
    base = len(impl) - len(cases)
    for j, (d, exp_pos, exp_rest, cap_s) in enumerate(meta):
        o = impl[base + j]
        parts = o.split(" ")
        if not parts[0].startswith("SKIP@"):
            ctx.fail("text-uv-err", "skip_unquoted_value after rgb in %r (cap %s): %s" % (d, cap_s, o[:80]), [cases[j]], [o[:300]], "SKIP@%d" % exp_pos)
        elif int(parts[0][5:]) != exp_pos:
            ctx.fail("text-uv-position", "skip_unquoted_value after rgb in %r (cap %s) stops at %s, expected %d" % (d, cap_s, parts[0][5:], exp_pos),
                     [cases[j]], [o[:300]], "SKIP@%d" % exp_pos)
        elif parts[1:-1] != exp_rest[:-1]:
            ctx.fail("text-uv-lands", "skip_unquoted_value after rgb in %r (cap %s) continues with %s, expected %s" %
                     (d, cap_s, " ".join(parts[1:7]), " ".join(exp_rest[:6])), [cases[j]], [o[:300]], " ".join(exp_rest[:40]))
    ctx.count("text_uv_cases", len(cases))

    # ------------------------------------------------------------- SWAR helpers
    lanes = [0x7b, 0x7d, 0x22, 0x23, 0xfb, 0xfd, 0xa2, 0xa3, 0x7c, 0x7e, 0x7a, 0x21, 0x24, 0x00, 0x01, 0x80, 0xff, 0x20]
    words = [[b] * 8 for b in (0x7b, 0x7d, 0x22, 0x23, 0x00, 0xff, 0x80)]
    for b in (0x7b, 0x7d, 0x22, 0x23):
        for i in range(8):
            w = [0x20] * 8; w[i] = b; words.append(w)
            w = [b] * 8; w[i] = b ^ 0x80; words.append(w)
            w = [b ^ 1] * 8; w[i] = b; words.append(w)
    for _ in range(ctx.scale(300, 3000)):
        words.append([rng.choice(lanes) for _ in range(8)])
    cases, exp = [], []
    for b in range(256):
        cases.append("util.rep\t%d" % b); exp.append(str(b * 0x0101010101010101))
    for w in words:
        x = int.from_bytes(bytes(w), "little")
        for b in (0x7b, 0x7d, 0x22, 0x23, rng.choice(lanes)):
            cases.append("util.cc\t%d\t%d" % (x, b)); exp.append(str(sum(1 for l in w if l == b)))
            cases.append("util.czb\t%d" % (x ^ (b * 0x0101010101010101))); exp.append("true" if b in w else "false")
    impl, _ = ctx.correspond("swar_leaf", cases)
    base = len(impl) - len(cases)
    for j, e in enumerate(exp):
        if impl[base + j] != e:
            ctx.fail("swar-lane", "%s answers %s, per-lane meaning is %s" % (cases[j].replace("\t", " "), impl[base + j], e), [cases[j]], [impl[base + j]], e)
    ctx.count("swar_leaf_cases", len(cases))
