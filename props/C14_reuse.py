"""C14 wave 4 (a_wr): reused writers -- write_tape is a method of a stateful object.

The property's anchor state (WriteState / DepthMode stack / MixedMode) survives write_tape, so a writer that has
already written something must continue correctly:

  A  write_tape(t1); write_tape(t2) on ONE writer      = write_tape(tape of the concatenated document)   byte for byte
  B  k x (key; write_object_start); f=1; write_tape(t); k x write_end; z=2   re-parses to the wrapped document
     (write_tape at a non-zero depth: keys, `[[p]` blocks and closing braces indent from the writer's depth; with
     k up to 12 and factor up to 9 this crosses the 16-byte indent cache at a depth the tape alone never reaches)
  C  write_tape(t1); raw bytes through inner(); write_tape(t2)   re-parses to the concatenated document
  D  key; value (direct calls); write_tape(t)                    re-parses to the document with that field in front

Every session is also run through the model (Writer.run_from / Writer.wt threaded over one state) and compared
byte for byte + state queries after every segment (stream `reuse`); the oracles below only use the real parser and
the real writer (metamorphic: no model involved).  Sessions use an owned Vec<u8> and end with into_inner(); some
use the builder's defaults (no indent_char / indent_factor call)."""
import random
from vlib import hexs, unhex
from props import docgen
from props.docgen import S, Field, Obj, Doc

CRASH = ("PANIC", "ABORT", "HANG")


def clean(d):
    """none of the known-finding classes of C14 (each is judged by the main round-trip stream)"""
    from props.C14 import has_param_value, has_glued_bang, has_mixed_nested_op, has_mixed_container_then_more
    return not (has_param_value(d) or has_glued_bang(d) or has_mixed_nested_op(d, any_op=True) or has_mixed_container_then_more(d))


def rcfg(rng):
    r = rng.random()
    if r < 0.12:
        return "d,d,r"
    if r < 0.18:
        return "d,%d,r" % rng.randrange(0, 10)
    if r < 0.24:
        return "%d,d,r" % rng.choice([32, 9])
    return "%d,%d,r" % (rng.choice([32, 9]), rng.randrange(0, 10))


def run(ctx, _fail):
    rng = ctx.rng
    n = ctx.scale(700, 5000)
    items = []
    for i in range(n):
        d1 = docgen.gen_doc(rng, rng.randrange(0, 4), rng.randrange(1, 5), param_values=False)
        d2 = docgen.gen_doc(rng, rng.randrange(0, 4), rng.randrange(1, 5), param_values=False)
        if not (clean(d1) and clean(d2)):
            continue
        k = rng.choice([1, 1, 2, 3, 4, 6, 8, 9, 12])
        inner = [Field(S("u", b"f"), "=", S("u", b"1"))] + d1.items
        v = Obj(inner)
        for j in range(k - 1, 0, -1):
            v = Obj([Field(S("u", b"w%d" % j), "=", v)])
        wrapped = Doc([Field(S("u", b"w0"), "=", v), Field(S("u", b"z"), "=", S("u", b"2"))])
        front = Doc([Field(S("u", b"k"), "=", S("q", b"v w"))] + d1.items)
        both = Doc(d1.items + d2.items)
        items.append(dict(d1=d1, d2=d2, k=k, docs=[d1, d2, both, wrapped, front]))
    ctx.count("reuse_items", len(items))

    # ---- phase 1: the real parser gives the tapes (the model side of a `t=` segment gets the tape as text)
    pcases = []
    for it in items:
        it["x"] = []
        for d in it["docs"]:
            lay = rng.choice(docgen.LAYOUTS[:-1] + [None])
            x = docgen.render(d, lay if lay is not None else random.Random(rng.random()))
            it["x"].append(x)
            pcases.append("tt.parse\t%s" % hexs(x))
    impl, _ = ctx.correspond("reuse_parse", pcases, model=False, nontrivial=lambda c, i: i.startswith("ok"))
    base = len(impl) - len(pcases)
    good = []
    for j, it in enumerate(items):
        outs = impl[base + 5 * j: base + 5 * j + 5]
        if all(o.startswith("ok ") for o in outs):
            it["t"] = [o.split(" ", 2)[2] for o in outs]
            good.append(it)
        else:
            _fail(ctx, "docgen-parse", "a well-formed rendering does not parse", [pcases[5 * j + q] for q in range(5)], outs, "ok")

    # ---- phase 2: sessions
    scases, meta = [], []

    def seg_t(it, q):
        return "t=%s|%s" % (hexs(it["x"][q]), it["t"][q])

    for it in good:
        cfg = rcfg(rng)
        a = "writer.session\t%s\t%s\t%s" % (cfg, seg_t(it, 0), seg_t(it, 1))
        single = "writer.session\t%s\t%s" % (cfg, seg_t(it, 2))
        opens = ";".join("u:%s;os" % hexs(b"w%d" % j) for j in range(it["k"])) + ";u:66;u:31"
        closes = ";".join(["e"] * it["k"]) + ";u:7a;u:32"
        b = "writer.session\t%s\tc=%s\t%s\tc=%s" % (cfg, opens, seg_t(it, 0), closes)
        raw = rng.choice([b"\n# note { = \"\n", b"\n", b" ", b"\n\n\t", b"#x\n"])
        c = "writer.session\t%s\t%s\ti=%s\t%s" % (cfg, seg_t(it, 0), hexs(raw), seg_t(it, 1))
        dd = "writer.session\t%s\tc=u:6b;q:762077\t%s" % (cfg, seg_t(it, 0))
        for kind, case, exp in (("A", a, it["t"][2]), ("S", single, it["t"][2]), ("B", b, it["t"][3]), ("C", c, it["t"][2]), ("D", dd, it["t"][4])):
            scases.append(case); meta.append((kind, it, exp))
    nt = lambda c, i: " " in i and "7b" in i.split(" ")[0]
    impl, _ = ctx.correspond("reuse", scases, nontrivial=nt)
    base = len(impl) - len(scases)
    last_a = None
    for k, (kind, it, exp) in enumerate(meta):
        o = impl[base + k]
        if o in CRASH or " " not in o:
            _fail(ctx, "reuse-crash", "writer session (%s): %s" % (kind, o[:60]), [scases[k]], [o], "bytes + log"); continue
        out, log = o.split(" ")
        if kind == "A":
            last_a = out
        if kind == "S" and last_a is not None and out != last_a:
            _fail(ctx, "reuse-bytes", "write_tape(t1); write_tape(t2) on one writer differs from write_tape of the concatenated document: %r vs %r" % (unhex(last_a)[:120], unhex(out)[:120]),
                  [scases[k - 1], scases[k]], [impl[base + k - 1], o], "equal bytes")
        segs = log.split("/")
        if any(s.startswith("TE") or ("E" in s and not s.startswith("T")) for s in segs):
            _fail(ctx, "reuse-err", "a call of a well-formed session (%s) returned an error: %s" % (kind, log[:80]), [scases[k]], [o], "no error")
        fin = segs[-1].split(",")[-1].lstrip("T")
        if exp != "-":
            if fin != "0.1":
                _fail(ctx, "reuse-final-state", "after a complete session (%s) depth()/expecting_key() are %s, not 0/true" % (kind, fin), [scases[k]], [o], "0.1")
    dsel = scases[:ctx.scale(800, 5000)]
    ctx.correspond("reuse_debug", ["\t".join([p if j != 1 else p[:-1] + "d" for j, p in enumerate(c.split("\t"))]) for c in dsel], nontrivial=nt, profile="debug")

    rcases = ["writer.session_reparse\t" + c.split("\t", 1)[1] for c in scases]
    impl, _ = ctx.correspond("reuse_reparse", rcases, model=False, nontrivial=lambda c, i: " A:" in i or " O:" in i)
    base = len(impl) - len(rcases)
    for k, (kind, it, exp) in enumerate(meta):
        o = impl[base + k]
        want = "ok 0 " + exp
        if o != want:
            _fail(ctx, "reuse-reparse", "writer session (%s) describes %s but its output parses to %s" % (kind, want[:200], o[:200]), [rcases[k], scases[k]], [o], want)
        else:
            ctx.count("reuse_reparse_ok")
