"""C20 Underlying I/O failures surface as errors, never as silently wrong results (text reader here; binary reader / deserializers merged from props/C20_*.py when present)."""
from props import C20_text

RULE = ("documents x read schedules (1-byte, periodic, whole) x buffer sizes x a fault injected at sampled read-call indices, one-shot (the caller retries) "
        "and persistent; oracle on the implementation: tokens produced = prefix of the fault-free tokens, no clean end before the data ends, persistent "
        "faults are reported, position <= bytes delivered, no panic. non-trivial = the fault was actually hit (an I/O error surfaced)")
# >>> a_c20 (wave 4)
RULE += ("; + op mixes of next/read/read_bytes/skip_container/skip_unquoted_value (text) and next/read/read_bytes/skip_container (binary) "
         "with retries: every faulty run is compared op by op with its fault-free twin (result, position, read calls, bytes delivered: the "
         "op that issues the failing read call returns ReaderErrorKind::Read, earlier ops are identical, an unreached fault changes nothing), "
         "error accessors / conversions into jomini::Error, all-optional typed targets (serde derive, JominiDeserialize) through both reader "
         "deserializers with a fault at every read call, and the extracted binary reader-deserializer model on the same fault schedules")
# <<< a_c20
# >>> s_c20 (wave 6)
RULE += ("; + size ladders (0 1 2 3 7 8 9 .. 65535 65536), one dimension at a time: every io::ErrorKind at every read call of directed "
         "documents (both readers, both reader deserializers, typed targets), index of the failing read, number of consecutive faults "
         "then data (every attempt fails with ReaderErrorKind::Read, the retry after the last fault returns the fault-free results), "
         "faults after the data is exhausted, buffer size x bytes carried over at the fault (strings up to the u16 limit 65535), nesting "
         "depth at the fault (next / skip_container / deserializer recursion / ignored containers), number of siblings")
# <<< s_c20
TRUSTED = ["std::io::Read failure modelled as a Fail event in the schedule (BufWin.rd_read)"]
ASSUMPTIONS = ["a caller may retry after a transient error (retry harness); the property does not require that, it only constrains calls that succeed"]


def run(ctx):
    C20_text.run_text_reader(ctx)
    # >>> a_c20 (wave 4): + C20_ops = every reader operation under faults, error accessors, typed all-optional targets
    for name in ("C20_bin", "C20_de", "C20_ops", "C20_ladder"):   # s_c20 (wave 6): + C20_ladder = size / boundary ladders
    # <<< a_c20
        try:
            m = __import__("props." + name, fromlist=["x"])
        except ImportError:
            continue
        m.run_part(ctx)


def search(ctx):
    import random
    ctx.rng = random.Random(ctx.seed + 1)
    old = ctx.tier
    ctx.tier = "thorough"
    try:
        run(ctx)
    finally:
        ctx.tier = old


CLAIM = {
    "text": "Coq theorems over the buffer/reader models with Fail events in the read schedule (a failed fill repositions the window and loses no data; stream view preserved), correspondence of model and implementation under injected faults at every sampled read index, and the property's oracle on the implementation (results under faults = fault-free results; persistent faults end in an error; position <= delivered)",
    "note": "Trusted: Coq kernel, translator, extraction, harness, the Read model. Evidence lists the theorems proved.",
    "technique": "machine-checked proof in Coq over an executable model + model/implementation correspondence by extraction",
}
