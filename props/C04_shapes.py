"""C04, wave 4 (engineer a_c04): what the document-driven streams of props/C04.py do not reach.

  methods      every `Deserializer` method of the three token deserializers (one target shape per method: any bool i8..i128
               u8..u128 f32 f64 char str string bytes byte_buf option unit unit_struct newtype_struct seq tuple tuple_struct map
               struct enum identifier ignored_any) x every token kind (known / unknown id, quoted, unquoted, i32, u32, u64, i64,
               bool, f32, f64 with arbitrary payloads, rgb, rgba, array, nested array, object, empty) x position (object value,
               array element, map KEY through a typed-key map) x {Error, Stringify, Ignore} x resolver {knows / does not know /
               empty, HashMap / token lines} x both flavors x the three paths; a sentinel field behind the value shows that
               exactly its bytes were consumed.
               Oracles (independent of the Coq model): a reference value computed here from the token; pairwise agreement of the
               paths; the cells the walk model knows are also run through it (stream walk_model_methods).
  skip_exact   values of every token kind (wide payloads made of structural ids, containers with ghosts, rgb, nesting) that the
               target does NOT read -- unknown key, IgnoredAny field, seq(ign) elements, a tuple's ignored slot, a whole ignored
               nested object -- at depth 0..3, with ghost `{}` (single and doubled) in every later key position; the fields around
               them must come out exactly.  reader: buffers from just-sufficient, 1-byte and chunked reads.
  entry        the remaining public ways to the three deserializers: from_tape/from_slice/from_reader + deserialize() (twice on
               one deserializer: the tape one is pure, the other two continue at the end of input), BinaryDeserializer::
               on_failed_resolve after construction, BinaryDeserializerBuilder::with_flavor, BinaryFlavor::deserializer(),
               flavors behind & and Box, BinaryFlavor::deserialize_reader: all must return what the plain path returns.
  size_hint    BinaryMap / BinarySequence::size_hint (object_len / array_len, what Vec<T> / HashMap<K,V> call first): the number
               of entries still to come at every step, None on the two lexer paths.
"""
import struct
from fractions import Fraction
from props import dedoc as D
from props.dedoc import hx

I32 = lambda n: D.tok(0x0c) + struct.pack("<i", n)


# ------------------------------------------------------------------------------------------ documents
def S_int(n, b):
    return {"t": "int", "v": n, "b": b}


def S_str(s, b="Q", idv=None):
    v = {"t": "str", "v": s, "q": False, "b": b}
    if b == "ID":
        v["id"] = idv
    return v


def S_rawf(b, pay):
    return {"t": "rawf", "b": b, "pay": pay}


def enc(v, fl):
    t = v["t"]
    if t == "rawf":
        return D.tok(0x0d if v["b"] == "F32" else 0x167) + v["pay"]
    if t == "arr":
        return D.OPEN + b"".join(enc(e, fl) for e in v["v"]) + D.CLOSE
    if t == "obj":
        return D.OPEN + enc_fields(v, fl) + D.CLOSE
    return D.render_bin_value(v, fl)


def enc_fields(o, fl):
    out = []
    for f in o["f"]:
        out.append((D.OPEN + D.CLOSE) * f.get("ghost", 0))
        out.append(enc(f["key"], fl))
        if f.get("eq", True):
            out.append(D.EQ)
        out.append(enc(f["v"], fl))
    out.append((D.OPEN + D.CLOSE) * o.get("gend", 0))
    return b"".join(out)


def fld(key, v, ghost=0, eq=True):
    return {"key": key if isinstance(key, dict) else S_str(key, "U"), "v": v, "ghost": ghost, "eq": eq}


# ------------------------------------------------------------------------------------------ shapes
def sstr(s):
    if isinstance(s, str):
        return s
    k = s[0]
    if k in ("newtype", "hseq", "hmap"):
        return "%s(%s)" % (k, sstr(s[1]))
    if k == "kmap":
        return "kmap(%s,%s)" % (sstr(s[1]), sstr(s[2]))
    if k in ("tup", "tups"):
        return "%s(%s)" % (k, ",".join(sstr(x) for x in s[1]))
    if k in ("opt", "seq", "map"):
        return "%s(%s)" % (k, sstr(s[1]))
    if k == "struct":
        return "struct(%s)" % ",".join(hx(n) + m + ":" + sstr(x) for (n, m, x) in s[1])
    return D.shape_str(s)


def reduce_shape(s):
    """the shape the Coq walk model knows that goes through the same Deserializer behaviour on all three paths
    (SerdeShape.hint_of: HSmall / HSeq / HString ...), or None"""
    if isinstance(s, str):
        return {"sref": "str", "ident": None, "bytes": "any", "bytebuf": "any", "char": None, "unit": None, "ustruct": None,
                "u128": None, "i128": None}.get(s, s)
    k = s[0]
    if k in ("hseq", "hmap", "kmap"):
        return None
    if k == "newtype":
        return reduce_shape(s[1])
    if k in ("tup", "tups"):
        r = [reduce_shape(x) for x in s[1]]
        return None if None in r else ("tup", r)
    if k in ("opt", "seq", "map"):
        r = reduce_shape(s[1])
        return None if r is None else (k, r)
    if k == "struct":
        r = [(n, m, reduce_shape(x)) for (n, m, x) in s[1]]
        return None if any(x[2] is None for x in r) else ("struct", r)
    return s


# ------------------------------------------------------------------------------------------ the reference
class Unfit(Exception):
    pass


def string_of(v, M):
    """the string a string-like token is handed over as (SpecErr unktoken), or None"""
    if v["t"] != "str":
        return None
    if v["b"] == "ID":
        return D.resolve_id(v["v"], v["id"], M)
    return v["v"]


def prim_err(v, M):
    """what a visitor that accepts NO primitive visit ends with when the deserializer goes through `deser` / visit_key"""
    if v["t"] == "str" and v["b"] == "ID":
        D.resolve_id(v["v"], v["id"], M)          # an unknown id under Error fails before the visitor is asked
    raise D.SpecErr("de")


def ref_float(sh, v, M):
    if v["b"] == "F32":
        bits = D.flavor_f32(M.flavor, v["pay"])
        if sh in ("f32", "any", "bytes", "bytebuf"):
            return "(f32 %08x)" % bits
        if sh == "f64":
            return "(f64 %016x)" % D.f64_bits(D.f32_to_float(bits))
        raise D.SpecErr("de")
    bits = D.flavor_f64(M.flavor, v["pay"])
    if sh in ("f64", "any", "bytes", "bytebuf"):
        return "(f64 %016x)" % bits
    if sh == "f32":
        x = struct.unpack("<d", struct.pack("<Q", bits))[0]
        try:
            return "(f32 %08x)" % struct.unpack("<I", struct.pack("<f", x))[0]
        except OverflowError:
            return "(f32 %08x)" % (0x7f800000 if x > 0 else 0xff800000)
    raise D.SpecErr("de")


def f32_bits_of_int(n):
    """`n as f32` for an i64 / u64: ONE rounding (nearest even) of the integer to 24 significant bits"""
    a = abs(n)
    nb = a.bit_length()
    if nb > 24:
        shf = nb - 24
        q, r = a >> shf, a & ((1 << shf) - 1)
        half = 1 << (shf - 1)
        if r > half or (r == half and (q & 1)):
            q += 1
        a = q << shf
    return struct.unpack("<I", struct.pack("<f", float(a if n >= 0 else -a)))[0]


SCALAR_T = ("int", "bool", "str", "rawf", "float", "date")


def ref(sh, v, M, path, key=False):
    """canonical value of deserializing v into sh on `path` (tape | slice | reader): the value encoded, except in the
    cells of the findings N O P Q R where the path matters.  Raises SpecErr (a genuine, agreed error) or Unfit."""
    t = v["t"]
    k = sh[0] if isinstance(sh, tuple) else sh
    tape = path == "tape"
    if key and tape and k in ("newtype", "opt", "enum"):
        prim_err(v, M)                    # finding P: KeyDeserializer forwards these methods to deserialize_any
    if k == "newtype":
        return ref(sh[1], v, M, path, key)
    if k == "opt":
        return "(some %s)" % ref(sh[1], v, M, path, key)
    if k == "ign":
        if key:
            raise Unfit()                  # IgnoredAny as a map KEY: no target reaches it (an ignored object is never walked)
        return "(ign)"
    if k in ("unit", "ustruct"):
        if tape:                           # finding Q: ValueDeserializer / KeyDeserializer forward unit / unit_struct to deserialize_any
            if t in SCALAR_T:
                prim_err(v, M)
            raise D.SpecErr("de")
        return "(unit)"
    if k in ("u128", "i128"):
        if not tape:                       # finding R: the two lexer paths have no deserialize_i128 / u128
            raise D.SpecErr("de")
        if t == "int":
            if k == "u128" and v["v"] < 0:
                raise D.SpecErr("de")
            return "(%s %d)" % (k[0], v["v"])
        if t in SCALAR_T:
            prim_err(v, M)
        if t == "obj":
            raise Unfit()
        raise D.SpecErr("de")
    if t == "obj":
        if k in ("map", "hmap"):
            out = []
            for f in v["f"]:
                ks = string_of(f["key"], M)
                if ks is None:
                    prim_err(f["key"], M)
                out.append("(%s %s)" % (hx(ks), ref(sh[1], f["v"], M, path)))
            body = "(map%s)" % "".join(" " + x for x in out)
            if k == "hmap":
                n = len(v["f"])
                return "(hint %s %s)" % (",".join(str(n - i) if tape else "-" for i in range(n + 1)), body)
            return body
        if k == "kmap":
            out = ["(%s %s)" % (ref(sh[1], f["key"], M, path, key=True), ref(sh[2], f["v"], M, path)) for f in v["f"]]
            return "(amap%s)" % "".join(" " + x for x in out)
        if k == "struct":
            fields = sh[1]
            slots = [None] * len(fields)
            for f in v["f"]:
                ks = string_of(f["key"], M)
                if ks is None:
                    prim_err(f["key"], M)
                idx = None
                for i, fd in enumerate(fields):
                    if fd[0] == ks:
                        idx = i
                        break
                if idx is None:
                    continue
                if slots[idx] is not None:
                    raise D.SpecErr("dup")
                slots[idx] = ref(fields[idx][2], f["v"], M, path)
            out = []
            for i, (name, mode, fsh) in enumerate(fields):
                if slots[i] is None:
                    if isinstance(fsh, tuple) and fsh[0] == "opt":
                        slots[i] = "(none)"
                    else:
                        raise D.SpecErr("missing")
                out.append("(%s %s)" % (hx(name), slots[i]))
            return "(struct%s)" % "".join(" " + x for x in out)
        raise Unfit()
    if t == "arr":
        n = len(v["v"])
        if tape and any(e["t"] == "rgb" for e in v["v"]):
            raise Unfit()                  # finding O (replayed by props/C04.py)
        if k in ("seq", "hseq", "any", "bytes", "bytebuf"):
            es = sh[1] if k in ("seq", "hseq") else "any"
            body = "(seq%s)" % "".join(" " + ref(es, e, M, path) for e in v["v"])
            if k == "hseq":
                return "(hint %s %s)" % (",".join(str(n - i) if tape else "-" for i in range(n + 1)), body)
            return body
        if k in ("tup", "tups"):
            if len(sh[1]) != n:
                raise Unfit()
            return "(seq%s)" % "".join(" " + ref(s, e, M, path) for s, e in zip(sh[1], v["v"]))
        if n == 0 and k in ("map", "struct", "kmap", "hmap"):
            return ref(sh, {"t": "obj", "f": []}, M, path)
        if k in ("map", "struct", "kmap", "hmap"):
            raise Unfit()
        raise D.SpecErr("de")              # a scalar visitor receives visit_seq
    if t == "rgb":
        if key:
            raise Unfit()
        arr = {"t": "arr", "v": [S_str("rgb", "U"), {"t": "arr", "v": [S_int(c, "U32") for c in v["c"]]}]}
        if k in ("map", "struct", "kmap", "hmap"):
            raise Unfit()
        if k == "hseq":
            return "(hint -,-,- %s)" % ref(("seq", sh[1]), arr, M, "slice")
        return ref(sh, arr, M, "slice")
    # ---- scalar tokens
    if k in ("seq", "hseq", "tup", "tups", "map", "hmap", "kmap", "struct"):
        prim_err(v, M)
    if k == "char":
        s = string_of(v, M)
        if s is None or len(s) != 1:
            raise D.SpecErr("de")
        return "(char %s)" % hx(s)
    if k in ("sref", "ident"):
        s = string_of(v, M)
        if s is None:
            raise D.SpecErr("de")
        return D.show_str(s)
    if t == "rawf":
        return ref_float(k, v, M)
    if t == "int" and k == "f32":
        return "(f32 %08x)" % f32_bits_of_int(v["v"])
    if k in ("bytes", "bytebuf"):
        sh = "any"
    if sh == ("u", 16) and t == "str" and v["b"] == "ID" and not key:
        if tape:                           # finding N (replayed by props/C04.py): the tape resolves the id
            D.resolve_id(v["v"], v["id"], M)
            raise D.SpecErr("de")
        return "(u %d)" % v["id"]
    return D.expected_scalar_bin(sh, v, M)


def expect(sh, v, M, path):
    try:
        return ref(sh, v, M, path)
    except D.SpecErr as e:
        return "ERR:" + e.cls
    except Unfit:
        return None


# ------------------------------------------------------------------------------------------ methods
METHOD_SHAPES = ["any", "bool", ("i", 8), ("i", 16), ("i", 32), ("i", 64), "i128", ("u", 8), ("u", 16), ("u", 32), ("u", 64), "u128",
                 "f32", "f64", "char", "sref", "str", "bytes", "bytebuf", ("opt", "any"), ("opt", ("opt", ("i", 32))), "unit", "ustruct",
                 ("newtype", "any"), ("newtype", "str"), ("newtype", ("i", 32)), ("newtype", ("newtype", ("u", 16))),
                 ("seq", "any"), ("hseq", "any"), ("tup", ["any", "any", "any"]), ("tups", ["any", "any", "any"]),
                 ("tups", [("i", 32), ("u", 8), "f64"]), ("map", "any"), ("hmap", "any"), ("kmap", "any", "any"),
                 ("struct", [("k", "", "any")]), ("enum", ["abc", "q", "0x4321"]), "ident", "ign",
                 ("opt", ("newtype", ("seq", ("i", 64)))),
                 # targets of an rgb value: ColorSequence / InnerColorSequence forward every method to deserialize_any
                 ("tup", ["str", ("seq", ("u", 8))]), ("tup", ["sref", ("tups", [("u", 8), ("u", 16), ("u", 32)])]),
                 ("tups", ["any", ("hseq", "f64")]), ("seq", "ign"), ("tup", ["char", "any"]), ("tup", ["ign", ("seq", ("i", 64))])]

# the root deserializers only implement deserialize_map / deserialize_struct: every other target is refused on all paths
ROOT_REFUSED = ["any", "str", ("i", 32), "bool", ("seq", "any"), ("tup", ["any"]), ("opt", ("map", "any")), ("newtype", ("map", "any")),
                "ign", "unit", "ustruct", ("enum", ["a"]), "char", "bytes", "u128", ("tups", ["any", "any"]), "ident", "sref", "f64"]


def method_kinds(rng):
    """token kinds; the payloads are redrawn on every run"""
    w = lambda n: bytes(rng.randrange(256) for _ in range(n))
    norm32 = struct.pack("<f", rng.choice([0.0, 1.5, -2.25, 1e10, 3.0e-5, rng.uniform(-1e6, 1e6)]))
    norm64 = struct.pack("<d", rng.choice([0.0, 1.5, -2.25, 1e300, 1e-300, 3.5e38, rng.uniform(-1e12, 1e12)]))
    return [
        ("idk", S_str("abc", "ID", rng.choice([0x1234, 0x00e1, 0x2d82]))),
        ("idu", S_str("zzz", "ID", rng.choice([0x4321, 0x001b, 0x00e2, 0xffff]))),
        ("quoted", S_str(rng.choice(["abc", "q", "", "é", "two words", "1444.11.11"]), "Q")),
        ("unquoted", S_str(rng.choice(["abc", "q", "x_1"]), "U")),
        ("i32", S_int(rng.choice([0, 1, -1, 5, 127, 128, 255, 256, 65535, 65536, -129, 2 ** 31 - 1, -2 ** 31, rng.randrange(-2 ** 31, 2 ** 31)]), "I32")),
        ("u32", S_int(rng.choice([0, 1, 255, 256, 65536, 2 ** 31, 2 ** 32 - 1, rng.randrange(2 ** 32)]), "U32")),
        ("u64", S_int(rng.choice([0, 1, 255, 2 ** 32, 2 ** 63, 2 ** 64 - 1, rng.randrange(2 ** 64)]), "U64")),
        ("i64", S_int(rng.choice([0, -1, 1, 2 ** 31, -2 ** 31 - 1, 2 ** 63 - 1, -2 ** 63, 3 << 32, rng.randrange(-2 ** 63, 2 ** 63)]), "I64")),
        ("bool", {"t": "bool", "v": rng.random() < 0.5}),
        ("f32", S_rawf("F32", rng.choice([norm32, struct.pack("<i", rng.randrange(-10 ** 7, 10 ** 7))]))),
        ("f64", S_rawf("F64", rng.choice([norm64, struct.pack("<q", rng.randrange(-2 ** 40, 2 ** 40))]))),
        ("rgb", {"t": "rgb", "c": [rng.randrange(256) for _ in range(3)]}),
        ("rgba", {"t": "rgb", "c": [rng.randrange(2 ** 32) for _ in range(4)]}),
        ("arr3", {"t": "arr", "v": [S_int(rng.randrange(100), "I32"), S_int(rng.randrange(200), "U32"), S_rawf("F64", norm64)]}),
        ("arrnest", {"t": "arr", "v": [{"t": "arr", "v": [S_int(1, "I32")]}, {"t": "arr", "v": []}, {"t": "arr", "v": [S_str("a"), S_str("b", "U")]}]}),
        ("obj", {"t": "obj", "f": [fld("k", S_int(rng.randrange(100), "I32")), fld(S_str("abc", "ID", 0x1234), S_str("v"), ghost=rng.choice([1, 2]))], "gend": rng.choice([0, 1, 2])}),
        ("objnum", {"t": "obj", "f": [fld(S_int(rng.randrange(1, 5000), "I32"), S_int(rng.randrange(100), "I32")), fld(S_str("q", "Q"), {"t": "bool", "v": True}, ghost=1)], "gend": 0}),
        ("empty", {"t": "arr", "v": []}),
    ]


def known_cell(sh, kind, pos):
    """key of the finding that explains a path disagreement in this cell, or None"""
    top = sh
    while isinstance(top, tuple) and top[0] in ("opt", "newtype") and pos != "key":
        top = top[1]
    k = top[0] if isinstance(top, tuple) else top
    if k in ("unit", "ustruct"):
        return "Q-tape-unit-target"
    if k in ("u128", "i128"):
        return "R-lexer-paths-no-i128"
    if pos == "key" and isinstance(sh, tuple) and sh[0] in ("newtype", "opt", "enum"):
        return "P-tape-key-newtype-enum-option"
    if top == ("u", 16) and kind in ("idk", "idu") and pos != "key":
        return "N-tape-u16-id-value"
    return None


PATHS3 = ["tape", "slice", "reader"]


def methods_cases(ctx):
    rng = ctx.rng
    cells = []
    kinds = method_kinds(rng)
    strategies = ["error", "stringify", "ignore"]
    for si, sh in enumerate(METHOD_SHAPES):
        for ki, (kind, v) in enumerate(kinds):
            for pos in ("value", "elem", "key"):
                if pos == "key" and v["t"] in ("rgb", "arr", "obj"):
                    continue
                if kind == "rgba" and pos == "elem":
                    continue
                strats = strategies if kind in ("idk", "idu") else [strategies[(si + ki) % 3]]
                fls = ["eu4", "raw"] if kind in ("f32", "f64", "quoted") else [rng.choice(["eu4", "raw"])]
                for strat in strats:
                    for fl in fls:
                        cells.append((sh, kind, v, pos, strat, fl))
    cases, meta, mcases = [], [], []
    mseen = set()
    for (sh, kind, v, pos, strat, fl) in cells:
        sent = fld("s", S_int(rng.randrange(1, 100), "I32"), ghost=rng.choice([0, 0, 1, 2]))
        if pos == "value":
            doc = {"t": "obj", "f": [fld("x", v), sent]}
            shape = ("struct", [("x", "", sh), ("s", "", ("i", 32))])
        elif pos == "elem":
            e2 = S_int(rng.randrange(50), "I32")
            doc = {"t": "obj", "f": [fld("x", {"t": "arr", "v": [v, e2]}), sent]}
            shape = ("struct", [("x", "", ("tup", [sh, ("i", 32)])), ("s", "", ("i", 32))])
        else:
            doc = {"t": "obj", "f": [fld("x", {"t": "obj", "f": [fld(v, S_int(9, "I32")), fld(v, S_str("w"), ghost=rng.choice([0, 1]))]}), sent]}
            shape = ("struct", [("x", "", ("kmap", sh, "any")), ("s", "", ("i", 32))])
        rk = rng.choice(["map", "lines"])
        res = rng.choice([rk + ":1234=" + hx("abc") + ",00e1=" + hx("abc") + ",2d82=" + hx("abc") + ",0243=" + hx("never"), rk + ":1234=" + hx("abc") + ",00e1=" + hx("abc") + ",2d82=" + hx("abc")])
        if kind != "idk" and rng.random() < 0.3:
            res = "map:-"
        M = D.Mode("bin", flavor=fl, strategy=strat, known=set() if res == "map:-" else {"abc"}, ids={})
        b = enc_fields(doc, fl)
        exps = [expect(shape, doc, M, p) for p in PATHS3]
        if None in exps:
            continue
        g = len(meta)
        rd = "reader:%d:%s" % (rng.choice([32, 33, 40, 64, 32768]), rng.choice(["-", "1*", "3,5*", "2,7,1"]))
        for p, e in zip(["tape", "slice", rd], exps):
            cases.append("\t".join(["de.bin", p, strat, res, fl, sstr(shape), hx(b)]))
            meta.append((e, g, p.split(":")[0], sh, kind, pos))
        ctx.count("methods_cells")
        ctx.count("methods_pos_" + pos)
        # the same cell through the walk model, when the model has the shape and the cell is inside its scope
        r = reduce_shape(shape)
        if pos == "key":
            # the models have no typed-key map: run the same bytes through them with the dynamically typed / string-keyed targets
            # (`any` on an object is outside the specification -- the path models still have to mirror their path)
            r = ("struct", [("x", "", rng.choice(["any", ("map", "any"), ("map", "str"), ("seq", "any")])), ("s", "", ("i", 32))])
        if r is not None and (pos == "key" or known_cell(sh, kind, pos) is None):
            for p in ["tape", "slice", rd]:
                c = "\t".join(["de.model.bin", p, strat, res, fl, sstr(r), hx(b)])
                if c not in mseen:
                    mseen.add(c)
                    mcases.append(c)
    return cases, meta, mcases


def run_methods(ctx, nt):
    cases, meta, mcases = methods_cases(ctx)
    impl, _ = ctx.correspond("methods", cases, nontrivial=nt, model=False)
    base = len(impl) - len(cases)
    k = 0
    while k < len(meta):
        group = [j for j in range(k, min(k + 3, len(meta))) if meta[j][1] == meta[k][1]]
        outs = [impl[base + j] for j in group]
        exps = [meta[j][0] for j in group]
        _e, _g, _p, sh, kind, pos = meta[k]
        cell = "%s on %s in %s position" % (sstr(sh), kind, pos)
        kc = known_cell(sh, kind, pos)
        if len(set(exps)) > 1:
            # a cell of a known finding: the reference says how the paths differ; report it (once per class) when they do
            if len(set(outs)) > 1 and outs == exps and kc is not None and any(o.startswith("(") for o in outs):
                ctx.count("known_" + kc[0])
                if ctx.dist["known_" + kc[0]] <= 2:
                    ctx.fail(kc, "%s: tape %s, on-demand %s, stream %s" % (cell, outs[0][:80], outs[1][:80], outs[2][:80]), [cases[j] for j in group], outs, outs[1])
        for j, o, e in zip(group, outs, exps):
            if o != e:
                ctx.fail("method-" + meta[j][2], "%s, %s path: %s, the token encodes %s" % (cell, meta[j][2], o[:160], e[:160]), [cases[j]], [o], e)
        if len(set(exps)) == 1 and len(set(outs)) > 1:
            ctx.fail("method-paths-differ", "%s: tape %s, on-demand %s, stream %s" % (cell, outs[0][:80], outs[1][:80], outs[2][:80]), [cases[j] for j in group], outs, exps[0])
        k += len(group)
    # root targets other than map / struct
    rng = ctx.rng
    rcases = []
    doc = {"t": "obj", "f": [fld("a", S_int(1, "I32")), fld("b", {"t": "arr", "v": [S_int(2, "I32")]}, ghost=1)]}
    b = enc_fields(doc, "raw")
    for sh in ROOT_REFUSED:
        for p in ("tape", "slice", "reader:64:%s" % rng.choice(["-", "1*"])):
            for data in (b, b""):
                rcases.append("\t".join(["de.bin", p, "ignore", "map:-", "raw", sstr(sh), hx(data)]))
                r = reduce_shape(sh)
                if r is not None:
                    mcases.append("\t".join(["de.model.bin", p, "ignore", "map:-", "raw", sstr(r), hx(data)]))
    impl, _ = ctx.correspond("root_refused", rcases, nontrivial=lambda c, i: i == "ERR:de", model=False)
    base = len(impl) - len(rcases)
    for k, c in enumerate(rcases):
        if impl[base + k] != "ERR:de":
            ctx.fail("root-not-refused", "a root target that is neither a map nor a struct: %s, expected a deserialization error on every path" % impl[base + k][:120], [c], [impl[base + k]], "ERR:de")
    ctx.count("methods_model_cases", len(mcases))
    ctx.correspond("walk_model_methods", mcases, nontrivial=nt)


# ------------------------------------------------------------------------------------------ skip_exact
def skip_values(rng):
    ID = lambda x: struct.pack("<H", x)
    words = [0x0003, 0x0004, 0x0001, 0x000c, 0x000f, 0x0017, 0x0014, 0x029c, 0x0317, 0x0167, 0x0243, 0x000e, 0x000d, 0xffff, 0x0000]
    p8 = b"".join(ID(rng.choice(words)) for _ in range(4))
    wide = [S_rawf("F64", p8), S_rawf("F32", p8[:4]), S_int(struct.unpack("<q", p8)[0], "I64"), S_int(struct.unpack("<Q", p8)[0], "U64"),
            S_int(struct.unpack("<I", p8[:4])[0], "U32"), S_int(struct.unpack("<i", p8[:4])[0], "I32")]
    scal = wide + [S_str("abc", "ID", rng.choice([0x1234, 0x00e1, 0xfffe])), S_str(rng.choice(["", "q", "long string " * 3]), "Q"), S_str("u", "U"),
                   {"t": "bool", "v": rng.random() < 0.5}, {"t": "rgb", "c": [1, 2, 3]}, {"t": "rgb", "c": [3, 4, 1, 0x00040003]}]
    s = lambda: rng.choice(scal)
    inner_obj = lambda: {"t": "obj", "f": [fld(rng.choice(["a", S_int(4, "I32"), S_str("abc", "ID", 0x2d82)]), s()), fld("b", s(), ghost=rng.choice([0, 1, 2]))], "gend": rng.choice([0, 0, 1, 2])}
    cont = [{"t": "arr", "v": []}, {"t": "arr", "v": [s(), s()]}, inner_obj(),
            {"t": "arr", "v": [inner_obj(), {"t": "arr", "v": [s()]}, {"t": "arr", "v": []}]},
            {"t": "obj", "f": [fld("deep", inner_obj()), fld("arr", {"t": "arr", "v": [s(), s(), s()]}, ghost=1)], "gend": 1}]
    return scal, cont


def skip_cases(ctx):
    rng = ctx.rng
    cases, meta = [], []
    for _ in range(ctx.scale(260, 2600)):
        scal, cont = skip_values(rng)
        v = rng.choice(scal + cont + cont)
        mech = rng.choice(["unknown", "ign", "seqign", "tupign", "mapign", "optign"])
        a, c = rng.randrange(1, 1000), rng.randrange(1, 1000)
        pre, post = fld("pre", S_int(a, "I32")), fld("post", S_int(c, "U32"), ghost=rng.choice([0, 0, 1, 2]))
        if mech in ("unknown", "ign", "optign"):
            fields = [pre, fld("skipme", v, ghost=rng.choice([0, 1])), post]
            fsh = [("pre", "", ("i", 32))] + ([] if mech == "unknown" else [("skipme", "", "ign" if mech == "ign" else ("opt", "ign"))]) + [("post", "", ("u", 32))]
            val = "(ign)" if mech == "ign" else "(some (ign))"
            inner_exp = "(struct (%s (i %d))%s (%s (u %d)))" % (hx("pre"), a, "" if mech == "unknown" else " (%s %s)" % (hx("skipme"), val), hx("post"), c)
        elif mech == "seqign":
            n = rng.randrange(0, 4)
            es = [rng.choice(scal + cont) for _ in range(n)]
            es = [e for e in es if e["t"] != "rgb"]           # finding O
            fields = [pre, fld("skipme", {"t": "arr", "v": es}), post]
            fsh = [("pre", "", ("i", 32)), ("skipme", "", ("seq", "ign")), ("post", "", ("u", 32))]
            inner_exp = "(struct (%s (i %d)) (%s (seq%s)) (%s (u %d)))" % (hx("pre"), a, hx("skipme"), " (ign)" * len(es), hx("post"), c)
        elif mech == "tupign":
            if v["t"] == "rgb":
                v = S_int(1, "I32")
            fields = [pre, fld("skipme", {"t": "arr", "v": [v, S_int(5, "I32")]}), post]
            fsh = [("pre", "", ("i", 32)), ("skipme", "", ("tup", ["ign", ("i", 8)])), ("post", "", ("u", 32))]
            inner_exp = "(struct (%s (i %d)) (%s (seq (ign) (i 5))) (%s (u %d)))" % (hx("pre"), a, hx("skipme"), hx("post"), c)
        else:
            keys = ["k1", "k2", "k3"][:rng.randrange(1, 4)]
            fields = [pre, fld("skipme", {"t": "obj", "f": [fld(k, rng.choice(scal + cont), ghost=(0 if i == 0 else rng.choice([0, 1]))) for i, k in enumerate(keys)], "gend": rng.choice([0, 1])}), post]
            fsh = [("pre", "", ("i", 32)), ("skipme", "", ("map", "ign")), ("post", "", ("u", 32))]
            inner_exp = "(struct (%s (i %d)) (%s (map%s)) (%s (u %d)))" % (hx("pre"), a, hx("skipme"), "".join(" (%s (ign))" % hx(k) for k in keys), hx("post"), c)
        # a container-valued field may come without its `=` (`key { .. }`, as in real saves); never the FIRST field of a
        # container: `{ key { .. } .. }` starts like an array, the tape parser cannot know (outside well-formed)
        if fields[1]["v"]["t"] in ("arr", "obj") and rng.random() < 0.3:
            fields[1]["eq"] = False
            ctx.count("skip_no_equal")
        doc = {"t": "obj", "f": fields, "gend": rng.choice([0, 0, 1])}
        shape = ("struct", fsh)
        exp = inner_exp
        depth = rng.choice([0, 0, 1, 2, 3])
        for d in range(depth):
            tail = rng.randrange(1, 1000)
            if rng.random() < 0.5:
                doc = {"t": "obj", "f": [fld("w", doc), fld("t", S_int(tail, "I32"), ghost=rng.choice([0, 1]))], "gend": rng.choice([0, 1])}
                shape = ("struct", [("w", "", shape), ("t", "", ("i", 32))])
                exp = "(struct (%s %s) (%s (i %d)))" % (hx("w"), exp, hx("t"), tail)
            else:
                doc = {"t": "obj", "f": [fld("w", {"t": "arr", "v": [doc]}), fld("t", S_int(tail, "I32"))]}
                shape = ("struct", [("w", "", ("seq", shape)), ("t", "", ("i", 32))])
                exp = "(struct (%s (seq %s)) (%s (i %d)))" % (hx("w"), exp, hx("t"), tail)
        fl = rng.choice(["eu4", "raw"])
        b = enc_fields(doc, fl)
        strat = rng.choice(["error", "stringify", "ignore"])       # skipped ids never reach the resolver
        res = rng.choice(["map:-", "lines:-", "map:1234=" + hx("abc")])
        longest = 40 + 3 * 12
        for p in ("tape", "slice", "reader:%d:-" % longest, "reader:%d:1*" % (longest + rng.randrange(0, 9)), "reader:32768:%s" % rng.choice(["3,5*", "1*", "2,7,1", "16,17*"])):
            cases.append("\t".join(["de.bin", p, strat, res, fl, sstr(shape), hx(b)]))
            meta.append((exp, p.split(":")[0], mech, depth))
        ctx.count("skip_mech_" + mech)
        ctx.count("skip_depth_%d" % depth)
    return cases, meta


def run_skip(ctx, nt):
    cases, meta = skip_cases(ctx)
    impl, _ = ctx.correspond("skip_exact", cases, nontrivial=nt, model=False)
    base = len(impl) - len(cases)
    for k, (exp, p, mech, depth) in enumerate(meta):
        o = impl[base + k]
        if o != exp:
            ctx.fail("skip-exact-" + p, "%s path, value skipped through `%s` at depth %d: %s, expected %s" % (p, mech, depth, o[:160], exp[:160]), [cases[k]], [o], exp)
    ctx.correspond("walk_model_skip", ["de.model.bin" + c[len("de.bin"):] for c in cases], nontrivial=nt)


# ------------------------------------------------------------------------------------------ entry points
def run_entry(ctx, nt, gen_cases):
    """documents / configurations / shapes of the main generator; every other public way in must return the value the plain
    path returns (the plain path's value is compared with the encoded one in the stream `paths`)"""
    rng = ctx.rng
    cases, meta = gen_cases(ctx, ctx.scale(220, 2200), i64=False, rgb_any=False, tag="entry")
    base_cases, variants = [], []
    empty_cache = {}
    for k, c in enumerate(cases):
        kind, p, strat, res, fl, shape, h = c.split("\t")
        exp = meta[k][0]
        if p == "tape":
            for v in ("tape-from2", "tape-late", rng.choice(["wf-tape", "box-tape", "ref-tape", "res-box-tape"])):
                variants.append(("\t".join(["de.bin.entry", v, strat, res, fl, shape, h]), exp, v, None))
        elif p == "slice":
            for v in ("slice-from2", rng.choice(["wf-slice", "box-slice", "ref-slice", "res-ref-slice", "res-box-slice"])):
                variants.append(("\t".join(["de.bin.entry", v, strat, res, fl, shape, h]), exp, v, (strat, res, fl, shape)))
            if strat == "ignore":
                variants.append(("\t".join(["de.bin", "freader:" + rng.choice(["-", "1*", "3,5*", "4096,1"]), strat, res, fl, shape, h]), exp, "freader", None))
        elif p.startswith("reader:"):
            _r, n, sched = p.split(":")
            for v in ("reader-from2:%s:%s" % (n, sched), "wf-reader:%s:%s" % (n, sched)):
                variants.append(("\t".join(["de.bin.entry", v, strat, res, fl, shape, h]), exp, v.split(":")[0], (strat, res, fl, shape)))
    # configurations in which the strategy / resolver / flavor is visible in the value, through every variant: unknown and known
    # ids as map keys, values, elements and enum variants; floats of both widths
    for strat in ("error", "stringify", "ignore"):
        for known in (True, False):
            for fl in ("eu4", "raw"):
                idv = rng.choice([0x1234, 0x00e1, 0x2d82])
                doc = {"t": "obj", "f": [fld(S_str("abc", "ID", idv), S_str("abc", "ID", idv)),
                                         fld("e", {"t": "arr", "v": [S_str("abc", "ID", idv), S_str("q", "Q")]}, ghost=1),
                                         fld("f", {"t": "arr", "v": [S_rawf("F32", struct.pack("<i", rng.randrange(-10 ** 6, 10 ** 6))),
                                                                     S_rawf("F64", struct.pack("<q", rng.randrange(-2 ** 36, 2 ** 36)))]})]}
                shape = ("map", "any")
                res = ("map:%04x=%s" % (idv, hx("abc"))) if known else rng.choice(["map:-", "lines:-", "map:0001=" + hx("abc")])
                M = D.Mode("bin", flavor=fl, strategy=strat, known={"abc"} if known else set(), ids={})
                h = hx(enc_fields(doc, fl))
                exp = expect(shape, doc, M, "slice")
                n, sched = rng.choice([40, 64, 32768]), rng.choice(["-", "1*", "3,5*"])
                for v in ("tape-from2", "tape-late", "wf-tape", "box-tape", "ref-tape", "res-box-tape", "res-ref-slice", "res-box-slice"):
                    variants.append(("\t".join(["de.bin.entry", v, strat, res, fl, sstr(shape), h]), exp, v, None))
                for v in ("slice-from2", "wf-slice", "box-slice", "ref-slice", "reader-from2:%d:%s" % (n, sched), "wf-reader:%d:%s" % (n, sched)):
                    variants.append(("\t".join(["de.bin.entry", v, strat, res, fl, sstr(shape), h]), exp, v.split(":")[0], (strat, res, fl, sstr(shape))))
                if strat == "ignore":
                    for p in ("fslice", "freader:" + sched):
                        variants.append(("\t".join(["de.bin", p, strat, res, fl, sstr(shape), h]), exp, p.split(":")[0], None))
                ctx.count("entry_config_docs")
    # what a second deserialize() on the two lexer paths must return: the value of the EMPTY input (the first call consumed everything)
    second = {}
    for (_c, _e, v, cfg) in variants:
        if v in ("slice-from2", "reader-from2") and cfg not in second:
            second[cfg] = None
    keys = list(second)
    ecases = ["\t".join(["de.bin", "slice", s, r, f, sh, "-"]) for (s, r, f, sh) in keys]
    eimpl, _ = ctx.correspond("entry_empty", ecases, nontrivial=nt, model=False)
    eb = len(eimpl) - len(ecases)
    for i, kx in enumerate(keys):
        second[kx] = eimpl[eb + i]
    vc = [v[0] for v in variants]
    impl, _ = ctx.correspond("entry", vc, nontrivial=nt, model=False)
    base = len(impl) - len(vc)
    for k, (c, exp, v, cfg) in enumerate(variants):
        o = impl[base + k]
        if v in ("slice-from2", "reader-from2"):
            want = exp + " ;; " + (second[cfg] if not exp.startswith("ERR") else o.split(" ;; ")[-1])
        else:
            want = exp
        if o != want:
            ctx.fail("entry-" + v, "entry point %s returns %s, the plain path and the encoded values are %s" % (v, o[:160], want[:160]), [c], [o], want)
        ctx.count("entry_" + v)


# ------------------------------------------------------------------------------------------ size hints on documents
def run_size_hint(ctx, nt):
    rng = ctx.rng
    cases, exps = [], []
    for _ in range(ctx.scale(150, 1500)):
        scal, cont = skip_values(rng)
        pool = [x for x in scal if x["t"] != "rgb" and x["t"] != "rawf"] + cont
        n = rng.randrange(0, 6)
        if rng.random() < 0.5:
            es = [rng.choice(pool) for _ in range(n)]
            v = {"t": "arr", "v": es}
            sh = ("hseq", "ign")
        else:
            v = {"t": "obj", "f": [fld("k%d" % i, rng.choice(pool), ghost=(0 if i == 0 else rng.choice([0, 1]))) for i in range(n)], "gend": rng.choice([0, 1]) if n else 0}
            sh = ("hmap", "ign")
            if n == 0:
                v = {"t": "arr", "v": []}
        root = rng.random() < 0.3 and sh[0] == "hmap" and n > 0
        if root:
            doc, shape = v, sh
        else:
            doc = {"t": "obj", "f": [fld("x", v), fld("s", S_int(3, "I32"))]}
            shape = ("struct", [("x", "", sh), ("s", "", ("i", 32))])
        M = D.Mode("bin", flavor="raw", strategy="stringify", known=set(), ids={})
        b = enc_fields(doc, "raw")
        for p, rp in (("tape", "tape"), ("slice", "slice"), ("reader:96:1*", "reader")):
            e = expect(shape, doc, M, rp)
            cases.append("\t".join(["de.bin", p, "stringify", "map:-", "raw", sstr(shape), hx(b)]))
            exps.append((e, rp))
    impl, _ = ctx.correspond("size_hint", cases, nontrivial=nt, model=False)
    base = len(impl) - len(cases)
    for k, (e, p) in enumerate(exps):
        o = impl[base + k]
        if o != e:
            ctx.fail("size-hint-" + p, "%s path: %s, expected (the entries still to come at every step) %s" % (p, o[:160], e[:160]), [cases[k]], [o], e)


def run(ctx, nt, gen_cases):
    run_methods(ctx, nt)
    run_skip(ctx, nt)
    run_size_hint(ctx, nt)
    run_entry(ctx, nt, gen_cases)
