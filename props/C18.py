"""C18 JominiDeserialize field semantics hold for every field order and multiplicity."""
import itertools
from props import dedoc as D
from props.dedoc import hx

RULE = ("six representative #[derive(JominiDeserialize)] structs compiled into the harness (duplicated, take_last, default, default fn, "
        "alias, token on every field, Option, plain required, nested derived structs, Vec/Date/f32 payloads); inputs: every "
        "multiplicity vector in {0..3}^fields for the structs with <= 4 fields and sampled vectors for the larger ones x all distinct "
        "orders (capped) x interleaved unknown fields (scalars and nested containers, the aliased field's own name among them) x "
        "occasionally ill-typed values, rendered as text (layouts, encodings) and binary (keys as token ids or strings) through text "
        "slice/tape/ObjectReader/reader and binary tape/on-demand/reader.  The same kv lists are folded by the extracted "
        "Derive.visit model.  non-trivial = a struct came out.  Wave 4 (props/C18_attrs.py): the attribute table of every harness struct is READ OFF "
        "harness/src/fam_derive*.rs (props/C18_table.py) and fed raw to the extracted DeriveMacro.spec_of_attrs / visit_attrs (stream attrs_model, all 24 "
        "instances) and to the extracted declarative DeriveMacro.spec_visit (attrs_spec, well-typed inputs); 14 more instances (deserialize_with in every "
        "accepted combination, token + alias/deserialize_with/default fn, Vec<[T;N]> arm, one type parameter with and without where clause / inline bound, "
        "Cow fields, fields named like another field's alias, second alias, default/take_last/duplicated combinations, nested generic derived structs) through "
        "the same seven paths against the field semantics (attrs_paths); perm: one document in three orders that keep each field's own sequence, outputs "
        "must be equal (no model, no spec; token structs get the same field by id and by name); intkeys: unknown fields with integer-token keys in binary.  "
        "Wave 6 (props/C18_sizes.py): ladder streams, one size dimension at a time up to 4097 / 65537 (occurrences of one field, fields per struct 1..65, "
        "unknown fields, nesting depth of unknown values and of derived structs, alias / name lengths to 65535 / 1025, token ids over the u16 range, attribute lists 1..3)")
TRUSTED = ["the proc-macro expansion itself is tied by correspondence only (no macro expansion tool offline): Derive.visit models the code "
           "that jomini_derive/src/lib.rs generates", "serde's primitive visitors and IgnoredAny"]
ASSUMPTIONS = ["an `alias` replaces the field's own name (the generated visit_str matches the alias only): the own name is then an unknown field",
               "streams paths/model/attrs_*: unknown keys are strings or token ids; integer-token keys are run by the intkeys stream (finding int-key-rejected)",
               "the deserialize_with functions and default functions of the harness are known to the specification by name / by their literal body (props/C18_attrs.py:WITH, C18_table.fn_value)",
               "text inputs follow the C02 layout assumptions; token structs get no numeric unknown keys in text (deserialize_u16 parses them)"]

F = lambda name, sh, key=None, dup="once", miss="req", token=None: dict(name=name, key=key or name, sh=sh, dup=dup, miss=miss, token=token)
STRUCTS = {
    "DA": [F("human", "bool", miss=("def", "(bool 1)")), F("first", ("u", 16), miss=("def", "(none)")), F("fourth", ("u", 16), key="forth"),
           F("cores", "str", key="core", dup="dup"), F("names", ("seq", "str")), F("checksum", "str", dup="last"),
           F("count", ("u", 32), miss=("def", "(u 0)"))],
    "DB": [F("field1", "str", token=0x2d82), F("field2", ("u", 32), miss=("def", "(u 0)"), token=0x2d83), F("items", ("i", 32), dup="dup", token=0x2d84),
           F("last", ("i", 64), dup="last", miss=("def", "(none)"), token=0x2d85), F("req", "bool", token=0x2d86)],
    "DG": [F("kind", "str", token=0x00e1), F("name", "str", miss=("def", "(str -)"), token=0x001b), F("nums", ("i", 32), dup="dup", token=0x0165),
           F("flag", "bool", token=0x02ff)],
    "DH": [F("cores", "str", key="core", dup="dup"), F("checksum", "str", key="chk", dup="last"), F("opt_q", ("u", 32), miss=("def", "(none)")),
           F("opt_c", "str", miss=("def", "(none)")), F("count", ("u", 32), key="n", miss=("def", "(u 0)"))],
    "DI": [F("sub", ("derived", "DJ"), token=0x2f00), F("core", "str", dup="dup", token=0x2f01), F("next", ("u", 32), miss=("def", "(u 0)"), token=0x2f02),
           F("req", "bool", token=0x2f04)],
    "DJ": [F("id", ("u", 32), token=0x2f03), F("tag", "str", miss=("def", "(str -)"), token=0x2f05)],
    "DSub": [F("id", ("u", 32)), F("tag", "str", miss=("def", "(str -)")), F("vals", ("u", 8), key="val", dup="dup")],
    "DC": [F("name", "str"), F("subs", ("derived", "DSub"), key="sub", dup="dup"), F("opt_sub", ("derived", "DSub"), miss=("def", "(none)")),
           F("date", "date", dup="last", miss=("def", "(date 1444 11 11 0)")), F("level", ("u", 8), key="lvl", miss=("def", "(u 7)"))],
    "DD": [F("a", ("u", 8)), F("b", "str"), F("c", "bool")],
    "DE": [F("n", ("i", 64), dup="dup"), F("t", "str", dup="last", miss=("def", "(none)")), F("f", "f32", dup="dup"), F("z", "bool", miss=("def", "(none)"))],
}
ALL = dict(STRUCTS)          # every instance the generators know (the attribute-table part adds its own: props/C18_attrs.py)
OPTION_FIELDS = {("DH", "opt_q"), ("DH", "opt_c"), ("DA", "first"), ("DB", "last"), ("DC", "opt_sub"), ("DE", "t"), ("DE", "z")}


# ------------------------------------------------------------------------------------------ the spec of the field semantics
def derive_expected(sname, v, M):
    """(struct ...) string or raises SpecErr; v is an obj (an empty array counts as an empty object)"""
    if v["t"] == "arr" and not v["v"]:
        v = {"t": "obj", "f": []}
    if v["t"] != "obj":
        raise D.SpecErr("de")
    S = STRUCTS[sname]
    tokened = S[0]["token"] is not None
    once = {}
    many = {f["name"]: [] for f in S if f["dup"] == "dup"}
    for fd in v["f"]:
        fld = None
        if M.kind == "bin" and fd["kb"] == "ID":
            if tokened:
                fld = next((f for f in S if f["token"] == fd["kid"]), None)
            else:
                name = D.resolve_id(fd["k"], fd["kid"], M)
                fld = next((f for f in S if f["key"] == name), None)
        else:
            fld = next((f for f in S if f["key"] == fd["k"]), None)
        if fld is None:
            continue                                   # unknown field: ignored
        sh = ("opt", fld["sh"]) if (sname, fld["name"]) in OPTION_FIELDS else fld["sh"]
        if fld["dup"] == "once":
            if fld["name"] in once:
                raise D.SpecErr("dup")
            once[fld["name"]] = D.expected_value(sh, fd["v"], M, fd["op"])
        elif fld["dup"] == "last":
            once[fld["name"]] = D.expected_value(sh, fd["v"], M, fd["op"])
        else:
            many[fld["name"]].append(D.expected_value(sh, fd["v"], M, fd["op"]))
    vals = {}
    for f in S:                                        # missing fields, in declaration order
        if f["dup"] == "dup":
            continue
        if f["name"] in once:
            vals[f["name"]] = once[f["name"]]
        elif f["miss"] == "req":
            raise D.SpecErr("missing")
        else:
            vals[f["name"]] = f["miss"][1]
    out = []
    for f in S:
        val = "(seq%s)" % "".join(" " + x for x in many[f["name"]]) if f["dup"] == "dup" else vals[f["name"]]
        out.append("(%s %s)" % (hx(f["name"]), val))
    return "(struct%s)" % "".join(" " + x for x in out)


class M18(D.Mode):
    def derived(self, sname, v, M):
        return derive_expected(sname, v, M)



# ------------------------------------------------------------------------------------------ model arguments (Derive.visit)
def model_specs(sname):
    out = []
    for f in STRUCTS[sname]:
        miss = "r" if f["miss"] == "req" else "d" + hx(f["miss"][1])
        out.append(":".join([hx(f["name"]), hx(f["key"]), ("%04x" % f["token"]) if f["token"] is not None else "-",
                             {"once": "o", "dup": "d", "last": "l"}[f["dup"]], miss]))
    return ";".join(out)


def model_kvs(sname, doc, M):
    """the key/value list the MapAccess delivers: keys after token resolution, values as the result of
    deserializing them into the matched field's type (None if a key cannot be resolved)"""
    S = STRUCTS[sname]
    tokened = S[0]["token"] is not None
    out = []
    for fd in doc["f"]:
        if M.kind == "bin" and fd["kb"] == "ID":
            if tokened:
                key = "T%04x" % fd["kid"]
                fld = next((f for f in S if f["token"] == fd["kid"]), None)
            else:
                if fd["k"] not in M.known:
                    return None
                key = "S" + hx(fd["k"])
                fld = next((f for f in S if f["key"] == fd["k"]), None)
        else:
            key = "S" + hx(fd["k"])
            fld = next((f for f in S if f["key"] == fd["k"]), None)
        if fld is None:
            res = "o" + hx("(ign)")
        else:
            sh = ("opt", fld["sh"]) if (sname, fld["name"]) in OPTION_FIELDS else fld["sh"]
            try:
                res = "o" + hx(D.expected_value(sh, fd["v"], M, fd["op"]))
            except D.SpecErr as e:
                res = "e" + e.cls
        out.append(key + "=" + res)
    return ";".join(out) if out else "-"

# ------------------------------------------------------------------------------------------ inputs
def gen_fit(rng, sh, st, bad=0.0):
    """a document value for a field of shape sh (ill-typed with probability `bad`)"""
    if rng.random() < bad:
        return rng.choice([{"t": "str", "v": "zzz", "q": False, "b": "Q"}, {"t": "arr", "v": []},
                           {"t": "int", "v": -5, "b": "I32"}, {"t": "bool", "v": True}])
    k = sh[0] if isinstance(sh, tuple) else sh
    if k == "opt":
        return gen_fit(rng, sh[1], st)
    if k == "u":
        n = rng.choice([0, 1, 7, 200, 2 ** sh[1] - 1, rng.randrange(0, 2 ** min(sh[1], 31))])
        return {"t": "int", "v": n, "b": D.int_btok(rng, n, False)}
    if k == "i":
        n = rng.choice([0, -1, 5, -2 ** 31, 2 ** 31 - 1, rng.randrange(-1000, 1000)])
        return {"t": "int", "v": n, "b": D.int_btok(rng, n, False)}
    if k == "bool":
        return {"t": "bool", "v": rng.random() < 0.5}
    if k == "str":
        return D.gen_value(rng, ("str",), st)
    if k == "f32":
        return {"t": "float", "n8": rng.choice([0, 4, 9, -12, 1000]), "b": rng.choice(["F32", "F64"]), "pad": rng.random() < 0.5}
    if k == "date":
        return D.gen_value(rng, ("date",), st)
    if k == "seq":
        return {"t": "arr", "v": [gen_fit(rng, sh[1], st) for _ in range(rng.choice([0, 1, 2, 3]))]}
    if k == "derived":
        S = ALL[sh[1]]
        mult = [rng.choice([1, 1, 1, 0, 2]) if f["dup"] == "once" and f["miss"] == "req" else rng.choice([0, 1, 1, 2, 3]) for f in S]
        if rng.random() < 0.7:
            mult = [1 if (f["dup"] == "once" and f["miss"] == "req") else m for f, m in zip(S, mult)]
            mult = [min(m, 1) if f["dup"] == "once" else m for f, m in zip(S, mult)]
        occ = [i for i, m in enumerate(mult) for _ in range(m)]
        rng.shuffle(occ)
        # a nested derived struct sometimes holds, as an unknown field, a key that means something to its PARENT
        # (an ignored key must not influence how the enclosing struct reads the same key afterwards)
        return build_obj(rng, sh[1], occ, st, unknowns=rng.choice([0, 0, 1, 2]), bad=0.0, foreign=st.get("_parent_keys"))
    raise RuntimeError(sh)


def build_obj(rng, sname, order, st, unknowns, bad, foreign=None):
    S = ALL[sname]
    tokened = S[0]["token"] is not None
    fields = []
    st = dict(st, _parent_keys=[(f["key"], f["token"]) for f in S])
    for i in order:
        f = S[i]
        val = gen_fit(rng, f["sh"], st, bad)
        fld = {"k": f["key"], "kq": rng.random() < 0.05, "kb": rng.choice(["ID", "ID", "Q", "U"]), "op": "=", "v": val}
        if fld["kb"] == "ID":
            if tokened:
                fld["kid"] = f["token"]
            else:
                fld["kid"] = D.tok_id(rng, f["key"], st)
        fields.append(fld)
    keys = set(f["key"] for f in S)
    for _ in range(unknowns):
        forced_id = None
        if foreign and rng.random() < 0.6:
            key, forced_id = rng.choice(foreign)
        elif rng.random() < 0.3:
            cand = [f["name"] for f in S if f["key"] != f["name"]]           # the aliased field's own name is an unknown key
            key = rng.choice(cand) if cand else D.gen_ident(rng)
        else:
            key = D.gen_ident(rng)
        if key in keys:
            continue
        T = D.gen_schema(rng, depth=1)
        if T[0] == "rgb":
            T = ("str",)
        val = D.gen_value(rng, T, st)
        fld = D.mk_field(rng, key, val, dict(st, ops=False))
        if foreign and (key, forced_id) in foreign:
            # same spelling as the parent uses: a token id key
            fld["kb"] = "ID"
            fld["kid"] = forced_id if forced_id is not None else D.tok_id(rng, key, st)
        if tokened and fld["kb"] == "ID" and fld["kid"] in [f["token"] for f in S]:
            continue
        fields.insert(rng.randrange(len(fields) + 1), fld)
    return {"t": "obj", "f": fields, "ghost": [rng.randrange(1, len(fields) + 1)] if fields and rng.random() < 0.05 else []}


def orders(rng, mult, cap):
    occ = [i for i, m in enumerate(mult) for _ in range(m)]
    n = len(occ)
    total = 1
    import math
    total = math.factorial(n)
    for m in mult:
        total //= math.factorial(m)
    if total <= cap:
        return sorted(set(itertools.permutations(occ)))
    out = {tuple(occ), tuple(reversed(occ))}
    while len(out) < cap:
        o = occ[:]
        rng.shuffle(o)
        out.add(tuple(o))
    return sorted(out)


def run(ctx):
    rng = ctx.rng
    nt = lambda c, i: i.startswith("(struct")
    cases, meta = [], []
    mcases = []
    for sname, S in STRUCTS.items():
        if sname == "DSub" and False:
            continue
        n = len(S)
        if 4 ** n <= 256:
            vectors = list(itertools.product(range(4), repeat=n))
            if ctx.tier != "thorough":
                rng.shuffle(vectors)
                vectors = vectors[:ctx.scale(120, 256)]
        else:
            def pick(f):
                if f["dup"] == "once":
                    return rng.choice([1] * 8 + [0, 2]) if f["miss"] == "req" else rng.choice([0, 1, 1, 1, 1, 2])
                return rng.choice([0, 1, 2, 3])
            vectors = [tuple(pick(f) for f in S) for _ in range(ctx.scale(220, 2000))]
            vectors += [tuple(1 for _ in range(n)), tuple(0 for _ in range(n)), tuple(3 for _ in range(n))]
        for mult in vectors:
            for order in orders(rng, mult, ctx.scale(4, 12)):
                st = {"ids": {}, "ops": False, "allow_escape": False, "i64": False}
                doc = build_obj(rng, sname, list(order), st, unknowns=rng.choice([0, 0, 1, 2, 3]), bad=0.02)
                ids = st["ids"]
                enc = rng.choice(["w1252", "utf8"])
                fl = "eu4" if enc == "w1252" else "raw"
                kk = rng.choice(["all", "all", "all", "some"])
                known = set(ids) if kk == "all" else set(x for x in ids if rng.random() < 0.6)
                strat = rng.choice(["error", "stringify", "ignore"])
                Mt = M18("text", enc=enc)
                Mb = M18("bin", flavor=fl, strategy=strat, known=known, ids=ids)
                try:
                    et = derive_expected(sname, doc, Mt)
                except D.SpecErr as e:
                    et = "ERR:" + e.cls
                try:
                    eb = derive_expected(sname, doc, Mb)
                except D.SpecErr as e:
                    eb = "ERR:" + e.cls
                if "unfit" in et or "unfit" in eb:
                    continue
                ctx.count("inputs_" + sname)
                ctx.count("expect_" + (et[:8] if et.startswith("ERR") else "value"))
                txt = D.render_text(doc, rng, enc)
                b = D.render_bin(doc, fl)
                res = D.resolver_spec(ids, known, rng.choice(["map", "lines"]))
                mt = D.max_token_len(doc, enc)
                numeric_unknown = S[0]["token"] is not None and any(f["k"][:1].isdigit() for f in doc["f"])
                kt, kb2 = model_kvs(sname, doc, Mt), model_kvs(sname, doc, Mb)
                if not numeric_unknown and kt is not None:
                    mcases.append("\t".join(["dv.text.m", "slice", enc, sname, hx(txt), model_specs(sname), kt]))
                if kb2 is not None:
                    mcases.append("\t".join(["dv.bin.m", "tape", strat, res, fl, sname, hx(b), model_specs(sname), kb2]))
                if not numeric_unknown:
                    for p in ["slice", "tape", "objreader", "reader:%d:%s" % (rng.choice([mt, 64 + mt, 32768]), rng.choice(["-", "1*", "3,5*"]))]:
                        cases.append("\t".join(["dv.text", p, enc, sname, hx(txt)]))
                        meta.append((et, p))
                for p in ["tape", "slice", "reader:%d:%s" % (rng.choice([max(32, mt + 4), 64 + mt, 32768]), rng.choice(["-", "1*", "3,5*"]))]:
                    cases.append("\t".join(["dv.bin", p, strat, res, fl, sname, hx(b)]))
                    meta.append((eb, "bin-" + p))
    impl, _ = ctx.correspond("paths", cases, nontrivial=nt, model=False)
    base = len(impl) - len(cases)
    for k, (exp, p) in enumerate(meta):
        o = impl[base + k]
        if o != exp:
            ctx.fail("field-semantics-" + p.split(":")[0], "%s path on %s returns %s, the field semantics say %s" % (p, cases[k].split("\t")[-2], o[:200], exp[:200]), [cases[k]], [o], exp)
    # the extracted Derive.visit folds the same key/value lists (values pre-evaluated per occurrence)
    ctx.correspond("model", mcases, nontrivial=nt)
    # >>> a_c18 (wave 4): attribute tables read off the harness source, new instances, spec_visit, order independence, integer keys
    from props import C18_attrs
    import sys
    C18_attrs.run(ctx, sys.modules[__name__])
    # <<< a_c18
    # >>> s_c18 (wave 6): ladder streams, one size dimension at a time (props/C18_sizes.py, structs of harness/src/fam_derive3.rs)
    from props import C18_sizes
    C18_sizes.run(ctx, sys.modules[__name__], C18_attrs)
    # <<< s_c18


def search(ctx):
    import random
    ctx.rng = random.Random(ctx.seed + 1)
    old = ctx.tier
    ctx.tier = "thorough"
    try:
        run(ctx)
    finally:
        ctx.tier = old


CLAIM = {
    "text": "Coq theorems over Derive.visit (the visitor generated by jomini_derive as a fold over the key/value list): order independence given the relative order per field, duplicated collects in order, take_last keeps the last, other duplicates rejected, missing -> default or error, alias/token select, unknown ignored - for all field specs and inputs; the derive itself is tied by running six derived structs through all seven deserializer paths against the Python field-semantics spec and against the extracted model",
    "note": "Wave 4: C18_visit_is_spec (the visitor = the declarative reading, values_ok), error kinds on the whole visitor, order independence without side condition, attribute-table precedence (DeriveMacro.spec_of_attrs, instantiated from the harness source by props/C18_table.py). The proc-macro expansion is not verified (tied by correspondence). Theorems assume the values of the matched fields deserialize successfully where stated (error priority between a bad value and a duplicate depends on the order by design).",
    "technique": "machine-checked proof in Coq over an executable model + model/implementation correspondence by extraction + specification oracle on the implementation",
}
