"""C09 wave 6 (engineer s_c09): size / boundary ladders, ONE dimension at a time on an otherwise small input.

Every input is built as  prefix + Open + body + Close + tail  with a body that is balanced by construction, so the landing
offset of the skip (= offset just after the Close) and the tokens that follow it are known WITHOUT running anything:
the oracle never looks at the implementation's own token counting.  (Where a pattern may close inside the body --
`size_text_chunk` -- the landing offset comes from the naive byte walk `C09_doc.ref_skip` and the rest from the real slice
reader on the remaining bytes.)

The extracted model is roughly quadratic in the input length; inputs longer than MODEL_TEXT / MODEL_BIN bytes run with
model=False (oracle only).  Every stream also runs on the debug build (overflow checks, debug_assert! in BufferWindow).

text   size_text_depth   nesting depth inside the skipped container 0..70000 (the depth counter is an i32), dense / sparse / keyed
       size_text_chunk   all 3^8 words over { } x at one SWAR alignment (0..8 opens x 0..8 closes per chunk), samples at shifts 1..7
       size_text_len     skipped length 0..2^20+3: blanks, one long bare word, brace groups; many refills; position() > 2^16, 2^20
       size_text_quote   quoted string of 0..65536 bytes (braces / escape pairs / trailing escaped backslash) x small buffers
       size_text_comment comment of 0..65536 bytes, 0..4097 comments, 0..4097 quoted strings
       size_text_count   number of tokens / sibling containers skipped 0..65536
       size_text_before  tokens read before the skip 0..65536 (position before the skip > 2^16), start depth 0..4097
       size_text_cap     buffer size 9..65536 x the Close at every offset around the first and the second window end
       size_text_uv      skip_unquoted_value: gap of 0..65536 blanks / LF TAB TAB TAB runs / one long comment / 0..4097 comments
       size_text_hist    0..65536 skips on ONE reader (harness kind tr.skipn)
binary size_bin_depth    depth 0..70000, lexer / slice reader / reader
       size_bin_count    0..65536 tokens of each payload kind (odd width BOOL included) skipped; > 2^20 bytes once
       size_bin_strlen   string length ladder 0..65535 (Q and U, inside a container and as skip_value target), capacity exactly
                         the token, carry-over of more than 65535 bytes
       size_bin_split    one document holding every kind, first read cut at every byte
       size_bin_hist     0..4097 skips on one lexer / reader; 0..65536 tokens read before the skip
       size_bin_ids      every non-reserved u16 id inside a skipped container (a payload given to an id derails the skip)
swar   size_swar_subsets count_chunk / contains_zero_byte for every subset of lanes, every special byte
"""
from vlib import hexs
from props import C08 as B
from props import textgen as tg
from props.C07 import sched_str
from props.C09_doc import ref_skip

LADDER = [0, 1, 2, 3, 7, 8, 9, 15, 16, 17, 31, 32, 33, 63, 64, 65, 127, 128, 129, 255, 256, 257, 1023, 1024, 1025, 4095, 4096, 4097,
          65533, 65534, 65535, 65536]
MODEL_TEXT = 600      # bytes of input up to which the extracted text model answers in ~10 ms (it is quadratic: 0.5 s at 8 KB, 6 s at 32 KB)
MODEL_BIN = 600       # same for the binary lexer / reader models (0.3 s at 4 KB, 4-8 s at 16 KB)

TAIL = b" q=1 {x} t"
TAIL_TOKS = ["U:71", "OP:6", "U:31", "O", "U:78", "C", "U:74"]


def upto(lad, hi):
    return [x for x in lad if x <= hi]


# ------------------------------------------------------------------------------------------------ plumbing
class Stream:
    """cases with their judges, split into a modelled part (short inputs) and an implementation-only part (long inputs);
    run on the release build (with the model where it is fast enough) and on the debug build"""

    def __init__(self, ctx, name, limit):
        self.ctx, self.name, self.limit = ctx, name, limit
        self.small, self.big = [], []      # (case, judge) ; judge(out, build) -> None

    def add(self, case, size, judge, model=True):
        (self.small if (size <= self.limit and model) else self.big).append((case, judge))

    def run(self):
        ctx = self.ctx
        n = 0
        for part, model, suffix in ((self.small, True, ""), (self.big, False, "_long")):
            if not part:
                continue
            cases = [c for c, _ in part]
            impl, _ = ctx.correspond(self.name + suffix, cases, nontrivial=lambda c, i: "SKIP@" in i or "OK@" in i or i in ("true", "false") or i.isdigit(), model=model)
            base = len(impl) - len(cases)
            for k, (c, j) in enumerate(part):
                j(c, impl[base + k], "release")
            dimpl, _ = ctx.correspond(self.name + suffix + "_debug", cases, profile="debug", model=False)
            base = len(dimpl) - len(cases)
            for k, (c, j) in enumerate(part):
                j(c, dimpl[base + k], "debug")
            n += len(cases)
        ctx.count(self.name + "_cases", n)


def clip(case):
    """a replayable case line; very long inputs stay whole (the replay must be a real failing input)"""
    return case


def text_judge(ctx, exp_pos, exp_rest, end_pos, what, nskips=1, exp_positions=None):
    """judge of a tr.skip / tr.skipuv / tr.skipn output: SKIP@<exp_pos> then exp_rest then END @<end_pos>"""
    def j(case, out, build):
        parts = out.split(" ")
        w = "%s build, %s" % (build, what)
        pos = exp_positions if exp_positions is not None else [exp_pos]
        heads = parts[:len(pos)]
        if out in ("PANIC", "ABORT", "HANG") or out.startswith("PANIC"):
            ctx.fail("size-text-crash", "%s: %s" % (w, out[:40]), [clip(case)], [out[:200]], "SKIP@%s" % (pos[0] if pos else "-")); return
        for k, p in enumerate(pos):
            if k >= len(heads) or not heads[k].startswith("SKIP@"):
                ctx.fail("size-text-skip-err", "%s: skip %d of %d answers %s, expected to land at %d" % (w, k + 1, len(pos), (heads[k] if k < len(heads) else "nothing")[:40], p),
                         [clip(case)], [out[:300]], "SKIP@%d" % p); return
            if heads[k] != "SKIP@%d" % p:
                ctx.fail("size-text-skip-position", "%s: position() after skip %d of %d is %s, the matching close ends at %d" % (w, k + 1, len(pos), heads[k][5:], p),
                         [clip(case)], [out[:300]], "SKIP@%d" % p); return
        rest = parts[len(pos):]
        want = list(exp_rest) + ["END", "@%d" % end_pos]
        if rest != want:
            ctx.fail("size-text-skip-lands", "%s: after the skip the stream continues with %s, expected %s" % (w, " ".join(rest[:8])[:200], " ".join(want[:8])),
                     [clip(case)], [out[-300:]], " ".join(want)[:400])
    return j


def text_add(st, prefix, body, caps, what, ntok, tail=TAIL, tail_toks=TAIL_TOKS, kind="tr.skip", land=None, scheds=None, model=True, read_prefix=None):
    """prefix ends with the Open that is skipped (or, for skipuv, with the header value and the gap); body is balanced.
    read_prefix = the part of the prefix that is read as tokens (the buffer must hold those tokens, nothing of what is skipped)"""
    d = prefix + body + (b"}" if kind == "tr.skip" else b"") + tail
    exp_pos = land if land is not None else len(prefix) + len(body) + 1
    need = max(tg.atoms(prefix if read_prefix is None else read_prefix), tg.atoms(tail), 3)
    h = hexs(d)
    for cap in caps:
        for sc in (scheds or ["-"]):
            if cap == "slice":
                case = "%s\tslice\t-\t%s\t%d" % (kind, h, ntok)
                if sc != (scheds or ["-"])[0]:
                    continue
            else:
                case = "%s\t%d\t%s\t%s\t%d" % (kind, max(cap, need), sc, h, ntok)
            st.add(case, len(d), text_judge(st.ctx, exp_pos, tail_toks, len(d), "%s, %s (%d-byte input, cap %s, reads %s)" % (kind[3:], what, len(d), cap, sc[:30])), model=model)


def caps_for(n, small, large):
    return small if n <= MODEL_TEXT else large


# ------------------------------------------------------------------------------------------------ text
def run_text(ctx):
    rng = ctx.rng
    P = b"a={"

    # ---- nesting depth inside the skipped container
    st = Stream(ctx, "size_text_depth", MODEL_TEXT)
    for k in LADDER + [65537, 70000]:
        bodies = [("dense", b"{" * k + b"}" * k), ("sparse", b"{ " * k + b"} " * k), ("keyed", b"x={" * k + b"y" + b"}" * k)]
        if k > 4097:
            bodies = bodies[:1] + bodies[2:]
        for lab, body in bodies:
            n = len(body)
            caps = ["slice", 8, 9, 17, 64, 4096] if k <= 4097 else ["slice", 8, 17, 32768]
            text_add(st, P, body, caps, "depth %d inside the skipped container (%s)" % (k, lab), 3)
    st.run()

    # ---- every word over { } x in one SWAR chunk
    st = Stream(ctx, "size_text_chunk", MODEL_TEXT)
    pats = []
    for m in range(3 ** 8):
        w, x = bytearray(), m
        for _ in range(8):
            w.append(b"x{}"[x % 3]); x //= 3
        pats.append(bytes(w))
    rest_need = {}
    plan = []
    for w in pats:
        plan.append((8, 0, w, ["slice"] if rng.random() < ctx.scale(0.9, 0.0) else ["slice", 64]))
    # depth 1 at the chunk: the skip ends inside the chunk for most words (the bytewise tail decides)
    for w in (pats if ctx.tier == "thorough" else rng.sample(pats, 1500)):
        plan.append((0, 0, w, ["slice"]))
    for shift in range(1, 8):
        for w in rng.sample(pats, ctx.scale(120, 1500)) + [b"{" * 8, b"}" * 8, b"{}" * 4, b"}{" * 4]:
            plan.append((8, shift, w, [rng.choice(["slice", 16, 17, 64])]))
    # near-miss filler bytes: one off the brace codes ('z' 0x7a, '|' 0x7c, '~' 0x7e) and their high-bit twins -- a SWAR
    # zero-byte trick that is only exact up to the first match miscounts exactly these when they follow a brace
    for fill in (0x7a, 0x7c, 0x7e, 0xfb, 0xfd):
        for w in rng.sample(pats, ctx.scale(250, 2000)) + [b"}x" * 4, b"x}" * 4, b"{x" * 4, b"}}xx}}xx", b"{}x{}x{}"]:
            w2 = bytes(fill if c == 0x78 else c for c in w)
            plan.append((8, rng.randrange(0, 8), w2, ["slice"]))
    docs = []
    for s_open, shift, w, caps in plan:
        body0 = b"{" * s_open + b" " * shift + w
        # close whatever stays open (the naive walk decides), then a second word of braces so that a miscount shows
        d0 = P + body0
        depth = 1
        for c in body0:
            depth += (c == 0x7b) - (c == 0x7d)
            if depth == 0:
                break
        d = d0 + (b"}" * depth if depth > 0 else b"") + b" {{}} }" + TAIL
        land, _ = ref_skip(d, 3)
        docs.append((d, land, caps, s_open, shift, w))
    rest_cases = sorted({hexs(d[land:]) for d, land, *_ in docs})
    r_impl, _ = ctx.correspond("size_text_chunk_rest", ["tr.slice\t%s" % h for h in rest_cases])
    rb = len(r_impl) - len(rest_cases)
    rest_of = {h: r_impl[rb + i].split(" ") for i, h in enumerate(rest_cases)}
    for d, land, caps, s_open, shift, w in docs:
        r = rest_of[hexs(d[land:])]
        if r[-2] != "END":
            continue
        for cap in caps:
            case = "tr.skip\t%s\t-\t%s\t3" % (cap, hexs(d))
            st.add(case, len(d), text_judge(ctx, land, r[:-2], len(d), "skip_container over the chunk %r at depth %d, shift %d (cap %s)" % (w, s_open + 1, shift, cap)))
    st.run()

    # ---- skipped length, many refills, position() beyond 2^16 / 2^20
    st = Stream(ctx, "size_text_len", MODEL_TEXT)
    for L in LADDER + [65537, (1 << 20) + 3]:
        fills = [("blanks", b" " * L), ("one bare word", (b" " + b"w" * (L - 2) + b" ") if L >= 2 else b" " * L)]
        unit = b"{ab} c "
        g = (unit * (L // len(unit) + 1))[:L // len(unit) * len(unit)]
        fills.append(("brace groups", g + b" " * (L - len(g))))
        unit = b"\n\t\t\t{\n\t\t}"
        g = (unit * (L // len(unit) + 1))[:L // len(unit) * len(unit)]
        fills.append(("indented groups", g + b"\n" * (L - len(g))))
        if L > 65537:
            fills = fills[1:3]
        for lab, body in fills:
            assert len(body) == L
            if L <= 4097:
                caps = ["slice", 8, 9, 16, 17, 4096]
                scheds = ["-", "5,1,7"]
            elif L <= 65537:
                caps = ["slice", 8, 17, 4096, 32768]
                scheds = ["-"]
            else:
                caps = ["slice", 9, 32768]
                scheds = ["-"]
            text_add(st, P, body, caps, "%d skipped bytes (%s)" % (L, lab), 3, scheds=scheds)
    st.run()

    # ---- one quoted string of q bytes inside the skipped container
    st = Stream(ctx, "size_text_quote", MODEL_TEXT)
    for q in LADDER:
        conts = [("closing braces", b"}" * q), ("escape pairs", (b'\\"' * (q // 2 + 1))[:q - q % 2] + b"x" * (q % 2)),
                 ("braces and hash", (b'{#} \n' * (q // 5 + 1))[:q])]
        if q >= 2:
            conts.append(("trailing escaped backslash", b"{" * (q - 2) + b"\\\\"))
        if q >= 3:
            conts.append(("escaped quote then brace", (b'\\"}' * (q // 3 + 1))[:q // 3 * 3] + b"y" * (q % 3)))
        for lab, cont in conts:
            assert len(cont) == q
            for pad in ((0, 1, 2) if q <= 4097 else (0, 1)):
                body = b" " * pad + b'"' + cont + b'"' + b" b={}"
                caps = caps_for(len(body), ["slice"] + rng.sample([4, 5, 7, 8, 9, 16, 17, 64], 3), ["slice"] + rng.sample([4, 5, 8, 9, 17, 4096], 3))
                text_add(st, P, body, caps, "a %d-byte quoted string (%s) inside the skipped container, %d blanks before it" % (q, lab, pad), 3)
    st.run()

    # ---- comments: one long, many short; many quoted strings
    st = Stream(ctx, "size_text_comment", MODEL_TEXT)
    for c in LADDER:
        conts = [("closing braces", b"}" * c), ("quotes and braces", (b'"{' * (c // 2 + 1))[:c]), ("CR and braces", (b"\r}{" * (c // 3 + 1))[:c])]
        for lab, cont in conts:
            body = b" #" + cont + b"\n b={}"
            caps = caps_for(len(body), ["slice"] + rng.sample([3, 4, 5, 8, 9, 16, 17, 64], 3), ["slice"] + rng.sample([3, 8, 9, 17, 4096], 3))
            text_add(st, P, body, caps, "a %d-byte comment (%s) inside the skipped container" % (c, lab), 3)
    for n in upto(LADDER, 4097) + [20000]:
        for lab, unit in (("comments", b"#}\n"), ("quoted strings", b'"}" '), ("comment after quote", b'"#"#"\n'), ("escapes", b'"\\"}\\\\"')):
            body = unit * n
            caps = caps_for(len(body), ["slice"] + rng.sample([3, 4, 5, 8, 9, 16, 17, 64], 3), ["slice", 8, 17])
            text_add(st, P, body, caps, "%d %s inside the skipped container" % (n, lab), 3)
    st.run()

    # ---- number of tokens / sibling containers skipped
    st = Stream(ctx, "size_text_count", MODEL_TEXT)
    for n in LADDER:
        units = [("fields", b"a=b "), ("empty siblings", b"{}"), ("sibling containers", b"x={y} "), ("nested pairs", b"{{}{}}")]
        if n > 4097:
            units = units[:3]
        for lab, unit in units:
            body = unit * n
            caps = caps_for(len(body), ["slice", 8, 9, 17, 64], ["slice", 8, 17, 4096])
            text_add(st, P, body, caps, "%d %s skipped" % (n, lab), 3)
    st.run()

    # ---- tokens read before the skip; depth at which the skip starts
    st = Stream(ctx, "size_text_before", MODEL_TEXT)
    for m in LADDER:
        pre = b"k=v " * m + P
        body = b' b={c} "}" #}\n '
        text_add(st, pre, body, caps_for(len(pre), ["slice", 8, 17, 64], ["slice", 8, 4096]), "%d fields read before the skipped container" % m, 3 * m + 3)
    for m in upto(LADDER, 4097) + [65536]:
        pre = b"{" * m + P
        body = b' b={c} "}" #}\n '
        tail = TAIL + b"}" * m
        text_add(st, pre, body, caps_for(len(pre), ["slice", 8, 17, 64], ["slice", 8, 4096]), "skip starting at depth %d" % (m + 1), m + 3,
                 tail=tail, tail_toks=TAIL_TOKS + ["C"] * m)
    st.run()

    # ---- buffer size x position of the Close relative to the window end
    st = Stream(ctx, "size_text_cap", MODEL_TEXT)
    for cap in [9, 10, 15, 16, 17, 24, 31, 32, 33, 63, 64, 65, 127, 128, 129, 255, 256, 257, 1023, 1024, 1025, 4095, 4096, 4097, 32767, 32768, 32769, 65535, 65536]:
        offs = list(range(-12, 4)) if cap <= 1025 else list(range(-10, 2))
        for mult in (1, 2):
            for o in offs:
                L = mult * cap + o - len(P)      # the Close of the skipped container sits at input offset mult*cap + o
                if L < 6:
                    continue
                for lab, end in (("braces last", b"{{}{}}"), ("blanks last", b"{{}}  ")):
                    body = b"{}" + b" " * (L - 8) + end if L >= 8 else b" " * (L - 6) + end
                    assert len(body) == L
                    text_add(st, P, body, [cap], "buffer of %d bytes, the matching close at input offset %d (%s)" % (cap, mult * cap + o, lab), 3,
                             scheds=["-"] if cap > 1025 else ["-", "3,1"])
    st.run()

    # ---- skip_unquoted_value: the gap between the header value and the container
    st = Stream(ctx, "size_text_uv", MODEL_TEXT)
    H = b"c=rgb"
    follow = [(b"{ 1 2 3 }", b" f=2", ["U:66", "OP:6", "U:32"], True), (b"", b"x=1", ["U:78", "OP:6", "U:31"], False), (b"", b"", [], False)]
    for g in LADDER:
        gaps = [("blanks", b" " * g), ("LF TAB TAB TAB runs", (b"\n\t\t\t" * (g // 4 + 1))[:g]), ("tabs", b"\t" * g)]
        if g >= 2:
            gaps.append(("one comment", b"#" + b"{" * (g - 2) + b"\n"))
        if g >= 7:
            gaps.append(("comment then LF TAB TAB TAB", b"#" + b"}" * (g - 6) + b"\n\n\t\t\t"))
        for lab, gap in gaps:
            assert len(gap) == g
            for cont, tail, ttoks, is_c in follow:
                if not is_c and g == 0 and tail:
                    continue      # rgbx=1 is one word
                if not is_c and g > 4097 and tail:
                    continue
                d_pre = H + gap
                land = len(d_pre) + len(cont)
                caps = caps_for(len(d_pre), ["slice"] + rng.sample([5, 6, 7, 8, 9, 16, 17, 64], 3), ["slice", 5, 17, 4096])
                text_add(st, d_pre, cont, caps, "a %d-byte gap (%s) after the header value, then %r" % (g, lab, (cont + tail)[:12]), 3,
                         tail=tail, tail_toks=ttoks, kind="tr.skipuv", land=land, read_prefix=H)
    for n in upto(LADDER, 4097):
        for lab, unit in (("comments", b"#{\n"), ("comment lines", b" # }\n\t\t\t")):
            d_pre = H + unit * n
            cont = b"{ 1 2 3 }"
            caps = caps_for(len(d_pre), ["slice"] + rng.sample([5, 6, 8, 9, 16, 17, 64], 3), ["slice", 5, 17])
            text_add(st, d_pre, cont, caps, "%d %s after the header value" % (n, lab), 3, tail=b" f=2", tail_toks=["U:66", "OP:6", "U:32"], kind="tr.skipuv",
                     land=len(d_pre) + len(cont), read_prefix=H)
    st.run()

    # ---- a history of skips on one reader
    st = Stream(ctx, "size_text_hist", MODEL_TEXT)
    for n in LADDER:
        for lab, unit, ops, skip_from in (("skip_container", b'a={ b={c} "}" } ', "n3,k", 0), ("skip_unquoted_value", b"c=rgb { 1 2 3 } ", "n3,u", 0),
                                          ("skip_container of {}", b"a={}", "n3,k", 0)):
            if n > 4097 and lab != "skip_container":
                continue
            d = unit * n + b"z=1"
            ends = [len(unit) * (k + 1) - (1 if unit.endswith(b" ") else 0) for k in range(n)]
            opss = ",".join([ops] * n) if n else "-"
            for cap in (["slice", 8, 17, 64] if len(d) <= MODEL_TEXT else ["slice", 17]):
                case = "tr.skipn\t%s\t-\t%s\t%s" % (cap, hexs(d), opss)
                st.add(case, len(d), text_judge(ctx, None, ["U:7a", "OP:6", "U:31"], len(d), "%d calls of %s on one reader (cap %s)" % (n, lab, cap), exp_positions=ends))
    st.run()


# ------------------------------------------------------------------------------------------------ binary
BTAIL = [("T", 9), ("Q", b"ab")]


def bin_judge(ctx, skip_ends, rest, what):
    """skip_ends: expected OK@ positions in order; rest: list of expected `tok@pos` after the last skip (ends with NONE@n)"""
    def j(case, out, build):
        w = "%s build, %s" % (build, what)
        parts = out.split(" ")
        if out in ("PANIC", "ABORT", "HANG") or out.startswith("PANIC"):
            ctx.fail("size-bin-crash", "%s: %s" % (w, out[:40]), [case], [out[:200]], "OK@%d" % skip_ends[0]); return
        got = [x for x in parts if x.startswith("OK@")]
        want = ["OK@%d" % p for p in skip_ends]
        if got != want:
            k = 0
            while k < len(got) and k < len(want) and got[k] == want[k]:
                k += 1
            bad = [x for x in parts if x.startswith("ERR")]
            ctx.fail("size-bin-skip-position", "%s: skip %d of %d ends with %s, the matching close ends at %d" %
                     (w, k + 1, len(want), got[k] if k < len(got) else (bad[0] if bad else "nothing"), skip_ends[k] if k < len(skip_ends) else -1),
                     [case], [out[-300:]], " ".join(want)[:300]); return
        tail = parts[len(parts) - len(rest):]
        if tail != rest:
            ctx.fail("size-bin-skip-rest", "%s: after the skip the stream continues with %s, expected %s" % (w, " ".join(tail[:6])[:200], " ".join(rest[:6])),
                     [case], [out[-300:]], " ".join(rest)[:300])
    return j


def bin_doc(pre, body, tail=BTAIL):
    """bytes, offset after the matching close, expected `tok@pos` list of the tail"""
    b_pre = b"".join(B.enc(t) for t in pre) + B.le(B.OPEN, 2)
    b_body = body if isinstance(body, (bytes, bytearray)) else b"".join(B.enc(t) for t in body)
    d = b_pre + bytes(b_body) + B.le(B.CLOSE, 2)
    land = len(d)
    rest = []
    for t in tail:
        d += B.enc(t)
        rest.append("%s@%d" % (B.txt(t), len(d)))
    rest.append("NONE@%d" % len(d))
    return d, land, rest


def bin_add(st, pre, body, what, caps, scheds=("-",), tail=BTAIL, who=("lexer", "slice", "reader"), need=None):
    d, land, rest = bin_doc(pre, body, tail)
    h = hexs(d)
    npre = len(pre) + 1
    nd = max([need or 2] + [len(B.enc(t)) for t in list(pre[-2:]) + list(tail)])
    if "lexer" in who:
        st.add("bl.lops\t%s\t%s" % (h, ",".join(["t"] * npre + ["svo", "T"])), len(d), bin_judge(st.ctx, [land], rest, "lexer skip_value(OPEN), " + what))
    if "slice" in who:
        st.add("bl.rsops\t%s\t%s" % (h, ",".join(["n"] * npre + ["k", "T"])), len(d), bin_judge(st.ctx, [land], rest, "slice reader skip_container, " + what))
    if "reader" in who:
        for cap in caps:
            for sc in scheds:
                c = max(cap, nd)
                st.add("bl.rops\t%s\t%d\t%s\t%s" % (h, c, sc, ",".join(["n"] * npre + ["k", "T"])), len(d),
                       bin_judge(st.ctx, [land], rest, "reader skip_container (cap %d, reads %s), %s" % (c, sc[:30], what)))
    return d


def run_binary(ctx):
    rng = ctx.rng
    PRE = [("T", 0x2d28), ("EQ",)]
    O, C = B.le(B.OPEN, 2), B.le(B.CLOSE, 2)

    # ---- depth
    st = Stream(ctx, "size_bin_depth", MODEL_BIN)
    for k in LADDER + [65537, 70000]:
        bodies = [("bare", O * k + C * k), ("keyed", (B.enc(("T", 0x1234)) + B.enc(("EQ",)) + O) * k + B.enc(("BOOL", True)) + C * k)]
        for lab, body in bodies:
            caps = [4, 5, 17, 4096] if k <= 4097 else [4, 17, 65539]
            bin_add(st, PRE, body, "depth %d inside the skipped container (%s)" % (k, lab), caps, scheds=("-", "1,1,1,1,1,1,1,1,1,1,1,1,1") if k <= 257 else ("-",), need=3,
                    tail=[("T", 9), ("BOOL", True)])
    st.run()

    # ---- number of tokens of each kind; total length
    st = Stream(ctx, "size_bin_count", MODEL_BIN)
    units = [("BOOL", [("BOOL", True)]), ("I32", [("I32", 0x00040003)]), ("U32", [("U32", 0x00030004)]), ("F32", [("F32", b"\x04\x00\x04\x00")]),
             ("U64", [("U64", 0x0004000400040004)]), ("I64", [("I64", 0x0003000300030003)]), ("F64", [("F64", b"\x03\x00\x04\x00\x04\x00\x04\x00")]),
             ("Q", [("Q", b"\x04\x00")]), ("U", [("U", b"\x03\x00\x04")]), ("empty Q", [("Q", b"")]), ("id", [("T", 0x2d28)]), ("EQ", [("EQ",)]),
             ("open close", [("O",), ("C",)]), ("rgb", [("RGB", (3, 4, 0x00040003))]), ("rgba", [("RGB", (3, 4, 5, 0x00040004))]),
             ("field", [("T", 77), ("EQ",), ("BOOL", False)])]
    for n in LADDER + [110000]:
        for lab, unit in units:
            if n > 4097 and lab not in ("BOOL", "Q", "open close", "U64"):
                continue
            if n > 65536 and lab != "U64":
                continue
            ub = b"".join(B.enc(t) for t in unit)
            need = max(len(B.enc(t)) for t in unit)
            caps = [need, need + 1, 17, 64] if n <= 4097 else [need, 4096]
            bin_add(st, PRE, ub * n, "%d x %s skipped (%d bytes)" % (n, lab, len(ub) * n), caps, need=max(need, 3))
    st.run()

    # ---- the rgb marker id followed by something that is NOT a colour block, close to the end of the stream (a skip that
    #      tries to read a whole colour must not mistake "fewer than 22 bytes left" for "more data needed")
    st = Stream(ctx, "size_bin_rgbmarker", MODEL_BIN)
    RGBM = B.le(B.RGB, 2)
    u32 = lambda v: B.enc(("U32", v))
    for lab, after in (("nothing", b""), ("{ 1 }", O + u32(1) + C), ("{ 1 2 }", O + u32(1) + u32(2) + C), ("{ }", O + C), ("an i32", B.enc(("I32", 7))),
                       ("a string", B.enc(("Q", b"ab"))), ("{ 1 2 3 4 5 }", O + b"".join(u32(v) for v in range(1, 6)) + C), ("= value", B.enc(("EQ",)) + u32(3))):
        for lead in (b"", u32(9), B.enc(("T", 77)) + B.enc(("EQ",)) + B.enc(("BOOL", True))):
            for tail in ([("T", 9)], BTAIL, [("T", 9), ("Q", b"x" * 30)]):
                bin_add(st, PRE, lead + RGBM + after, "rgb marker followed by %s (%d bytes of lead, tail of %d tokens)" % (lab, len(lead), len(tail)),
                        [8, 17, 64], scheds=("-", "1,1,1,1,1,1,1,1,1,1,1,1,1,1,1,1,1,1,1,1,1,1,1,1,1,1,1,1,1,1,1,1,1,1,1,1,1,1,1,1"), tail=tail, need=6)
    st.run()

    # ---- string length
    st = Stream(ctx, "size_bin_strlen", MODEL_BIN)
    for L in upto(LADDER, 65535):
        for kind in ("Q", "U"):
            for fill in (b"\x04\x00", b"\x00\x04\x00", b"\x03\x00\x04\x00\x04"):
                pay = (fill * (L // len(fill) + 1))[:L]
                body = [("I32", 1), (kind, pay), ("I32", 5)]
                need = L + 4
                scheds = ["-", "7,1"]
                s0 = 12       # offset of the string token: id, =, open, i32
                if L >= 65533:
                    # the whole token but its last 1..3 bytes delivered by the first read (buffer of 65600 bytes): the refill
                    # carries 65534..65538 bytes over
                    scheds += ["%d,1,1,1" % (s0 + need - 1), "%d,2" % (s0 + need - 3), "%d" % (s0 + need - 2)]
                bin_add(st, PRE, body, "a %d-byte %s string (fill %s) inside the skipped container" % (L, kind, fill.hex()), [need, need + 1, need + 5] if L < 65533 else [need, need + 1, 65600],
                        scheds=scheds, need=max(need, 6))
                # the string as the target of skip_value(id)
                d = B.enc((kind, pay)) + B.enc(("T", 9))
                st.add("bl.lops\t%s\tsvi,T" % hexs(d), len(d), bin_judge(ctx, [need], ["T:9@%d" % (need + 2), "NONE@%d" % (need + 2)], "lexer skip_value(%s) of a %d-byte string" % (kind, L)))
    st.run()

    # ---- every kind, first read cut at every byte
    st = Stream(ctx, "size_bin_split", MODEL_BIN)
    body = [("T", 0x1234), ("EQ",), ("O",), ("BOOL", True), ("I32", 0x00040003), ("C",), ("U32", 0x00030004), ("F32", b"\x04\x00\x03\x00"),
            ("U64", 0x0004000400040003), ("I64", 0x0003000300030004), ("F64", b"\x03\x00\x04\x00\x04\x00\x04\x00"), ("Q", b"\x04\x00\x04\x00\x03"), ("U", b"\x03\x00\x04"),
            ("RGB", (3, 4, 0x00040003)), ("RGB", (3, 4, 5, 0x00040004)), ("Q", b""), ("O",), ("O",), ("C",), ("Q", (b"\x04\x00\x03" * 30)), ("C",), ("BOOL", False)]
    d, land, rest = bin_doc(PRE, body)
    for s in range(1, len(d)):
        for cap in (94, 95, 128):      # 94 = the 90-byte string token + 4
            for sc in ("%d" % s, "%d,1,1" % s):
                st.add("bl.rops\t%s\t%d\t%s\t%s" % (hexs(d), cap, sc, "n,n,n,k,T"), len(d), bin_judge(ctx, [land], rest, "reader skip_container (cap %d), first read of %d bytes" % (cap, s)))
    st.run()

    # ---- history: many skips on one lexer / reader; many tokens read before the skip
    st = Stream(ctx, "size_bin_hist", MODEL_BIN)
    unit = [("T", 0x2d28), ("EQ",), ("O",), ("Q", b"\x04\x00"), ("O",), ("BOOL", True), ("C",), ("C",)]
    ub = b"".join(B.enc(t) for t in unit)
    for n in upto(LADDER, 4097):
        d = ub * n
        rest = []
        for t in BTAIL:
            d += B.enc(t); rest.append("%s@%d" % (B.txt(t), len(d)))
        rest.append("NONE@%d" % len(d))
        ends = [len(ub) * (k + 1) for k in range(n)]
        if n == 0:
            continue
        st.add("bl.lops\t%s\t%s" % (hexs(d), ",".join(["t,t,t,svo"] * n + ["T"])), len(d), bin_judge(ctx, ends, rest, "%d skips on one lexer" % n))
        st.add("bl.rsops\t%s\t%s" % (hexs(d), ",".join(["n,n,n,k"] * n + ["T"])), len(d), bin_judge(ctx, ends, rest, "%d skips on one slice reader" % n))
        for cap in (6, 17, 4096):
            st.add("bl.rops\t%s\t%d\t-\t%s" % (hexs(d), cap, ",".join(["n,n,n,k"] * n + ["T"])), len(d), bin_judge(ctx, ends, rest, "%d skips on one reader (cap %d)" % (n, cap)))
    for m in LADDER:
        pre = [("T", 0x1000 + (i & 0xfff)) for i in range(m)] + PRE
        bin_add(st, pre, [("Q", b"\x04\x00"), ("O",), ("BOOL", True), ("C",)], "%d tokens read before the skipped container" % m, [6, 17] if m <= 4097 else [4096], need=6)
    st.run()

    # ---- every non-reserved id inside a skipped container
    st = Stream(ctx, "size_bin_ids", MODEL_BIN)
    ids = [i for i in range(65536) if i not in B.RESERVED]
    per = 256
    groups = [ids[k:k + per] for k in range(0, len(ids), per)]
    sample = set(rng.sample(range(len(groups)), ctx.scale(12, 60)))
    for gi, grp in enumerate(groups):
        for part in ([grp] if gi not in sample else [grp[k:k + 32] for k in range(0, len(grp), 32)]):
            body = b"".join(B.le(i, 2) + B.enc(("U32", 0x00030003)) for i in part)
            bin_add(st, PRE, body, "ids %d..%d (each followed by a u32 whose payload reads as two opens) inside the skipped container" % (part[0], part[-1]), [6, 4096], need=6)
    st.run()


# ------------------------------------------------------------------------------------------------ SWAR leaves
def run_swar(ctx):
    cases, exp = [], []
    for b, other in ((0x7b, 0x7d), (0x7d, 0x7b), (0x22, 0x23), (0x23, 0x22), (0x7b, 0xfb), (0x7d, 0x7c), (0x22, 0xa2), (0x23, 0x24)):
        for m in range(256):
            w = [b if m >> i & 1 else other for i in range(8)]
            x = int.from_bytes(bytes(w), "little")
            cases.append("util.cc\t%d\t%d" % (x, b)); exp.append(str(bin(m).count("1")))
            cases.append("util.czb\t%d" % (x ^ (b * 0x0101010101010101))); exp.append("true" if m else "false")
    impl, _ = ctx.correspond("size_swar_subsets", cases)
    base = len(impl) - len(cases)
    for j, e in enumerate(exp):
        if impl[base + j] != e:
            ctx.fail("swar-lane", "%s answers %s, per-lane meaning is %s" % (cases[j].replace("\t", " "), impl[base + j], e), [cases[j]], [impl[base + j]], e)
    ctx.count("size_swar_subsets_cases", len(cases))


def run_size(ctx):
    run_text(ctx)
    run_binary(ctx)
    run_swar(ctx)
