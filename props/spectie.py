"""spec_tie: the Coq SPECIFICATIONS of the deserializer properties run on the documents of props/dedoc.py.

props/C02.py, C04.py, C10.py decide violations with the Python specification props/dedoc.py (`expected`, the
text and binary renderers); the Coq theorems (Props/C02_walk.v, C04_walk.v, C10_link.v) are stated over the
Coq specifications TextDeSpec.spec_value over TextDoc documents, BinDoc.spec_value / enc_doc, LogicDoc.to_text /
to_bin.  This module converts a dedoc document into the Coq document types (serialised for
ocaml/fam_spectie.ml), runs the extracted Coq definitions, and compares
  (a) the Python renderings with the Coq renderings, byte for byte,
  (b) dedoc.expected with the Coq spec_value,
  (c) the IMPLEMENTATION's value with the Coq spec_value directly.
(a)/(b) differences are disagreements of the two specifications (stream `spec_tie`), (c) differences are
property violations with a replay.

The conversion dedoc -> Coq document is the only Python left between the implementation's input bytes and the
Coq definitions, and it is checked by (a): the bytes the implementation is given ARE `TextDoc.render d l` /
`BinDoc.enc_doc d` of the converted document, as computed by the extracted Coq functions.
"""
import hashlib
import struct
from fractions import Fraction
from props import dedoc as D
from props import textdoc as TD
from props.dedoc import hx


class Outside(Exception):
    """the document is outside the grammar of the Coq document type"""
    def __init__(self, why):
        Exception.__init__(self, why)
        self.why = why


# ====================================================================================== text: TextDoc
WS = b" \t\n\r;"


class Scan:
    """splits a rendering into the gaps between the expected tokens (gap i precedes token i)"""

    def __init__(self, data, bom):
        self.d = data
        self.p = 3 if bom else 0
        self.gaps = []
        self.pending = b""

    def gap(self):
        d, p = self.d, self.p
        while p < len(d):
            c = d[p]
            if c in WS:
                p += 1
            elif c == 0x23:
                j = d.find(b"\n", p)
                p = len(d) if j < 0 else j + 1
            else:
                break
        self.pending += d[self.p:p]
        self.p = p

    def peek(self, b):
        self.gap()
        return self.d.startswith(b, self.p)

    def tok(self, b):
        self.gap()
        if not self.d.startswith(b, self.p):
            raise Outside("token-mismatch")        # the rendering does not carry the document's tokens: reported by (a)
        self.gaps.append(self.pending)
        self.pending = b""
        self.p += len(b)

    def finish(self):
        self.gap()
        if self.p != len(self.d):
            raise Outside("token-mismatch")
        self.gaps.append(self.pending)


def text_scalar(v, enc):
    """(kind, raw bytes between the quotes / of the bare word) exactly as dedoc.render_scalar writes it"""
    b = D.render_scalar(v, enc)
    if len(b) >= 2 and b[:1] == b'"' and b[-1:] == b'"':
        # render_scalar quotes iff it returns the content between double quotes; an unquoted scalar never starts with '"'
        return ("s", "Q", b[1:-1])
    return ("s", "U", b)


class NoScan:
    """no rendering at hand: every field is written with `=`, no gaps are computed"""
    gaps = None

    def peek(self, b):
        return True

    def tok(self, b):
        pass

    def finish(self):
        pass


def to_textdoc(doc, enc, data, bom, strip_ghosts=False):
    """dedoc document + its text rendering -> (TextDoc document in props/textdoc.py syntax, gaps).
    The rendering decides what the document does not: whether `=` is written before a container.
    Raises Outside for ghost `{}` objects (TextDoc has no such construct) unless strip_ghosts (then data must be
    None: the result is the document without its ghosts, every field written with `=`, and there are no gaps)."""
    sc = Scan(data, bom) if data is not None else NoScan()

    def scal(s):
        sc.tok(b'"' + s[2] + b'"' if s[1] == "Q" else s[2])

    def val(v):
        t = v["t"]
        if t == "obj":
            if v.get("ghost") and not strip_ghosts:
                raise Outside("ghost")
            sc.tok(b"{")
            fs = fields(v)
            sc.tok(b"}")
            # an empty `{ }` is the empty ARRAY of the text format (TextDoc.wf_value: objects are non-empty)
            return ("o", fs, []) if fs else ("a", [])
        if t == "arr":
            sc.tok(b"{")
            items = [val(e) for e in v["v"]]
            sc.tok(b"}")
            return ("a", items)
        if t == "rgb":
            sc.tok(b"rgb")
            sc.tok(b"{")
            items = []
            for c in v["c"]:
                s = ("s", "U", str(c).encode())
                scal(s)
                items.append(s)
            sc.tok(b"}")
            return ("h", b"rgb", ("a", items))
        s = text_scalar(v, enc)
        scal(s)
        return s

    def fields(o):
        out = []
        for f in o["f"]:
            kb = D.enc_bytes(f["k"], enc)
            key = ("s", "Q" if f["kq"] else "U", kb)
            scal(key)
            op = f["op"]
            if f["v"]["t"] in ("obj", "arr") and op == "=" and not sc.peek(b"="):
                op = None                          # `key {`: TextDoc's Field with op = None
            else:
                sc.tok(op.encode())
            out.append(("f", key, op, val(f["v"])))
        return out

    if doc.get("ghost") and not strip_ghosts:
        raise Outside("ghost")
    tdoc = fields(doc)
    sc.finish()
    return tdoc, sc.gaps


def textdoc_stats(tdoc):
    """which constructs outside the CORE grammar of the walk theorems (TextDeSpec.core_fields) occur"""
    st = {"header": 0, "noeq": 0, "op": 0}

    def val(v):
        if v[0] == "o":
            [fld(f) for f in v[1]]
        elif v[0] == "a":
            [val(x) for x in v[1]]
        elif v[0] == "h":
            st["header"] += 1

    def fld(f):
        if f[2] is None:
            st["noeq"] += 1
        elif f[2] != "=":
            st["op"] += 1
        val(f[3])

    [fld(f) for f in tdoc]
    return st


# ====================================================================================== binary: BinDoc
def bscalar(v, fl):
    enc = D.flavor_enc(fl)
    t = v["t"]
    if t == "int":
        return "%s:%d" % (v["b"], v["v"])
    if t == "bool":
        return "B:%d" % (1 if v["v"] else 0)
    if t == "float":
        return "%s:%s" % (v["b"], D.float_payload(v, fl).hex())
    if t == "date":
        if v["b"] == "I32":
            return "I32:%d" % D.date_to_binary(v["y"], v["m"], v["d"])
        return "Q:%s" % hx(D.scalar_text(v).encode())
    if t == "str":
        if v["b"] == "ID":
            return "ID:%04x" % v["id"]
        return "%s:%s" % (v["b"], hx(D.enc_bytes(v["v"], enc)))
    raise RuntimeError(t)


def bkey(f, fl):
    if f["kb"] == "ID":
        return "ID:%04x" % f["kid"]
    return "%s:%s" % (f["kb"], hx(D.enc_bytes(f["k"], D.flavor_enc(fl))))


def to_bindoc(doc, fl):
    """dedoc document -> BinDoc document (fields of the root, trailing ghost), serialised"""
    out = []

    def val(v):
        t = v["t"]
        if t == "obj":
            if not v["f"]:
                out.extend(["A", "0"])             # an empty `{ }` is the empty ARRAY (BinDoc.wf_val: objects are non-empty)
            else:
                out.append("O")
                fields(v)
        elif t == "arr":
            out.extend(["A", str(len(v["v"]))])
            for e in v["v"]:
                val(e)
        elif t == "rgb":
            c = v["c"]
            out.extend(["RGB", str(c[0]), str(c[1]), str(c[2]), str(c[3]) if len(c) > 3 else "-"])
        else:
            out.extend(["S", bscalar(v, fl)])

    def fields(o):
        n = len(o["f"])
        gh = o.get("ghost", [])
        out.extend(["1" if n in gh else "0", str(n)])
        for i, f in enumerate(o["f"]):
            out.extend(["1" if i in gh else "0", bkey(f, fl)])
            val(f["v"])

    fields(doc)
    return " ".join(out)


# ====================================================================================== logical: LogicDoc
def to_logicdoc(doc, enc, fl):
    """dedoc document (shared subset) -> (LogicDoc document, encoding choice), serialised.
    Text-side facts are part of the logical document (quoted or not, date width); binary-side facts are the
    encoding choice.  Raises Outside where LogicDoc cannot express the instance."""
    out, ch = [], []

    def sform(kind, ident):
        return "I%04x" % ident if kind == "ID" else kind

    def choice(path, v, f, ghost_end):
        w, st, di, f32 = "i32", "Q", "1", "0"
        if v is not None:
            t = v["t"]
            if t == "int":
                w = v["b"].lower()
            elif t == "str":
                st = sform(v["b"], v.get("id"))
            elif t == "date":
                di = "1" if v["b"] == "I32" else "0"
                st = "Q"
            elif t == "float":
                f32 = "1" if v["b"] == "F32" else "0"
        key, kg = "U", "0"
        if f is not None:
            key = sform(f["kb"], f.get("kid"))
        ch.append([path, w, st, di, f32, key, kg, "1" if ghost_end else "0"])
        return ch[-1]

    def val(v, path, f):
        t = v["t"]
        if t == "obj":
            if not v["f"]:
                choice(path, None, f, False)
                out.extend(["A", "0"])
                return
            n = len(v["f"])
            gh = v.get("ghost", [])
            choice(path, None, f, n in gh)
            out.extend(["O", str(n)])
            fields(v, path)
        elif t == "arr":
            choice(path, None, f, False)
            out.extend(["A", str(len(v["v"]))])
            for i, e in enumerate(v["v"]):
                val(e, path + [i], None)
        elif t == "rgb":
            choice(path, None, f, False)
            c = v["c"]
            out.extend(["RGB", str(c[0]), str(c[1]), str(c[2]), str(c[3]) if len(c) > 3 else "-"])
        else:
            choice(path, v, f, False)
            if t == "int":
                out.extend(["I", str(v["v"])])
            elif t == "bool":
                out.extend(["B", "1" if v["v"] else "0"])
            elif t == "str":
                s = text_scalar(v, enc)
                # LStr carries the UNESCAPED string; to_text escapes `"` and `\`
                out.extend(["S", s[1], hx(D.enc_bytes(v["v"], enc))])
            elif t == "date":
                out.extend(["D", str(v["y"]), str(v["m"]), str(v["d"]), "1" if v.get("pad") else "0", "1" if v.get("q") else "0"])
            elif t == "float":
                p32 = D.float_payload(dict(v, b="F32"), fl)
                p64 = D.float_payload(dict(v, b="F64"), fl)
                out.extend(["F", hx(D.scalar_text(v).encode()), p32.hex(), p64.hex()])
            else:
                raise RuntimeError(t)

    def fields(o, path):
        gh = o.get("ghost", [])
        for i, f in enumerate(o["f"]):
            out.extend(["Q" if f["kq"] else "U", hx(D.enc_bytes(f["k"], enc))])
            before = len(ch)
            val(f["v"], path + [i], f)
            if i in gh:
                ch[before][6] = "1"            # ch_kghost of the node of this field's value

    n = len(doc["f"])
    out.append(str(n))
    root = ["r", "i32", "Q", "1", "0", "U", "0", "1" if n in doc.get("ghost", []) else "0"]
    fields(doc, [])
    items = [root] + ch
    cs = ";".join("%s=%s" % (c[0] if c[0] == "r" else ".".join(map(str, c[0])), ",".join(c[1:])) for c in items)
    return " ".join(out), cs


def to_text_image(tdoc):
    """is the TextDoc document in the image of LogicDoc.to_text (every field written with `=`)?"""
    return textdoc_stats(tdoc)["noeq"] == 0


# ====================================================================================== bookkeeping
class Tie:
    """collects model-only cases and the checks to perform on their outputs"""

    def __init__(self, ctx, stream="spec_tie"):
        self.ctx = ctx
        self.stream = stream
        self.cases = []
        self.checks = []         # (index, function(model_output))
        ctx.streams.setdefault(stream, {"cases": 0, "disagree": 0})

    def add(self, case, check):
        self.checks.append((len(self.cases), check))
        self.cases.append(case)

    def disagree(self, case, py, coq):
        st = self.ctx.streams[self.stream]
        st["disagree"] += 1
        if len(self.ctx.disagreements) < 200:
            self.ctx.disagreements.append((self.stream, case[:600], "python: " + py[:300], "coq: " + coq[:300]))

    def run(self):
        import vlib
        out = vlib.run_model(self.cases)
        self.ctx.evaluations += len(self.cases)
        self.ctx.streams[self.stream]["cases"] += len(self.cases)
        if len(out) != len(self.cases):
            self.ctx.broken.append({"what": "driver produced %d lines for %d spec_tie cases" % (len(out), len(self.cases))})
        for (k, check) in self.checks:
            m = out[k] if k < len(out) else "MISSING"
            if m.startswith(("MODEL-EXN", "MODEL-ABORT", "NOKIND", "BADCASE", "MISSING")):
                self.disagree(self.cases[k], "(glue)", m)
                continue
            check(m)
            self.ctx.nontrivial.add(hashlib.md5((self.stream + "\x00" + m).encode()).digest()[:8])
        return out


BOM = b"\xef\xbb\xbf"


def run_corpus(ctx, tie):
    """corpus/<Cxx>/spec_tie.case: hand-made PAIRS of lines -- an implementation case (de.text / de.bin) followed by
    the specification case (spec.text.value / spec.bin.value / spec.logic.value) it must agree with"""
    import vlib
    lines = ctx.corpus(tie.stream)
    pairs = [(lines[k], lines[k + 1]) for k in range(0, len(lines) - 1, 2)]
    if not pairs:
        return
    impl = vlib.run_impl([a for a, _ in pairs])
    spec = vlib.run_model([b for _, b in pairs])
    ctx.evaluations += 2 * len(pairs)
    ctx.streams[tie.stream]["cases"] += len(pairs)
    for k, (a, b) in enumerate(pairs):
        o = impl[k] if k < len(impl) else "MISSING"
        m = spec[k] if k < len(spec) else "MISSING"
        want = m
        if b.startswith("spec.logic.value\t") and m.startswith("T=") and " B=" in m:
            t, bv = m[2:].split(" B=", 1)
            want = t if a.startswith("de.text\t") else bv
        ctx.count("tie_corpus_pairs")
        if want == "ERR:unfit" or want.startswith(("MODEL-", "NOKIND", "BADCASE", "MISSING", "PANIC")):
            tie.disagree(b, "a specified value for the hand-made corpus entry", m)
        elif o != want:
            ctx.fail("tie-corpus", "%s returns %s, the Coq specification says %s" % (" ".join(a.split("\t")[:2]), o[:200], want[:200]), [a, b], [o], want)
        ctx.nontrivial.add(hashlib.md5((a + "\x00" + o).encode()).digest()[:8])


def visits(sh, v, pred):
    """does deserializing document value v into shape sh VISIT (not skip) a (shape kind, value) pair with pred?"""
    k = sh[0] if isinstance(sh, tuple) else sh
    if k == "ign":
        return False
    if k in ("opt", "prop"):
        return visits(sh[1], v, pred)
    if pred(k, v):
        return True
    if v["t"] == "arr":
        if k == "seq":
            return any(visits(sh[1], e, pred) for e in v["v"])
        if k == "tup":
            return any(visits(s, e, pred) for s, e in zip(sh[1], v["v"]))
    if v["t"] == "obj":
        if k == "map":
            return any(visits(sh[1], f["v"], pred) for f in v["f"])
        if k in ("struct", "tstruct"):
            for f in v["f"]:
                for fd in sh[1]:
                    if (fd[0] == f["k"] or (k == "tstruct" and f.get("kid") is not None and fd[3] == f.get("kid"))) and visits(fd[2], f["v"], pred):
                        return True
    return False


def is_empty_container(v):
    return (v["t"] == "obj" and not v["f"]) or (v["t"] == "arr" and not v["v"])


def pick(ctx, groups, n):
    """a deterministic sample of at most n groups (evenly spread)"""
    if len(groups) <= n:
        return list(groups)
    step = len(groups) / float(n)
    return [groups[int(k * step)] for k in range(n)]


# ====================================================================================== C02
def run_text(ctx, groups, cases, impl, base, limit):
    """groups: (doc, enc, text bytes, shape, dedoc.expected, index of the first de.text case, number of cases).
    cases / impl / base: the de.text cases of the `paths` stream and the implementation's answers."""
    import vlib
    tie = Tie(ctx)
    run_corpus(ctx, tie)
    sel = pick(ctx, groups, limit)
    texts = []
    for (doc, enc, txt, sh, exp, c0, nc) in sel:
        ctx.count("tie_docs")
        bom = enc == "utf8" and txt.startswith(BOM)
        try:
            tdoc, gaps = to_textdoc(doc, enc, txt, bom)
        except Outside as e:
            if e.why == "ghost":
                # TextDoc has no ghost `{}` objects: (a) and (c) do not apply.  dedoc.expected ignores ghosts by
                # definition, so (b) is still evaluated -- on the document without its ghosts
                ctx.count("tie_outside_textdoc_ghost")
                tdoc, _ = to_textdoc(doc, enc, None, False, strip_ghosts=True)
                gc = "spec.text.value\t%s\t%s\t%s" % (enc, D.shape_str(sh), TD.ser(tdoc))

                def chk_ghostless(m, gc=gc, exp=exp):
                    if m == "ERR:unfit":
                        return
                    ctx.count("tie_value_compared_ghostless")
                    if m != exp:
                        tie.disagree(gc, exp, m)
                        ctx.count("tie_spec_differs")
                tie.add(gc, chk_ghostless)
            else:
                tie.disagree("render_text\t" + hx(txt), "the rendering does not carry the tokens of the document", e.why)
            continue
        ctx.count("tie_in_textdoc")
        st = textdoc_stats(tdoc)
        for k in st:
            if st[k]:
                ctx.count("tie_docs_with_" + k)
        sd = TD.ser(tdoc)
        shs = D.shape_str(sh)
        # (a) rendering
        rc = "spec.text.render\t%s\t%d\t%s" % (sd, 1 if bom else 0, ",".join(hx(g) for g in gaps))
        want = "gaps_ok " + hx(txt)
        tie.add(rc, (lambda m, rc=rc, want=want: None if m == want else tie.disagree(rc, want, m)))
        # (b) + (c) value
        vc = "spec.text.value\t%s\t%s\t%s" % (enc, shs, sd)

        def chk_value(m, vc=vc, exp=exp, c0=c0, nc=nc, doc=doc, sh=sh):
            if m == "ERR:unfit":
                # scope: TextDeSpec.spec_value answers UNFIT on headers that are visited and on map / struct targets on
                # the empty `{ }` (an array in TextDoc); dedoc.expected still predicts a value there
                ctx.count("tie_coq_unfit")
                if D.captures_header(sh, doc):
                    ctx.count("tie_coq_unfit_header")
                elif visits(sh, doc, lambda k, v: k in ("map", "struct") and is_empty_container(v)):
                    ctx.count("tie_coq_unfit_map_on_empty_braces")
                else:
                    tie.disagree(vc, exp, m)          # UNFIT for a reason that is not one of the two documented scope differences
                return
            ctx.count("tie_value_compared")
            if m != exp:
                tie.disagree(vc, exp, m)
                ctx.count("tie_spec_differs")
            for k in range(c0, c0 + nc):
                o = impl[base + k]
                ctx.count("tie_impl_compared")
                if o != m:
                    p = cases[k].split("\t")[1]
                    pk = p.split(":")[0].split("@")[0]
                    ctx.fail("tie-text-" + pk, "%s path returns %s, TextDeSpec.spec_value says %s (dedoc.expected: %s)" % (p, o[:200], m[:200], exp[:200]),
                             [cases[k], vc], [o], m)
        tie.add(vc, chk_value)
        # flatten / tokens of the document against the implementation's tape / reader tokens of the rendering
        dc = "spec.text.doc\t%s" % sd
        texts.append((len(tie.cases), hx(txt), bom))
        tie.add(dc, lambda m: None)
    out = tie.run()
    lex = vlib.run_impl(["tt.parse\t" + h for (_, h, _) in texts] + ["tr.slice\t" + h for (_, h, _) in texts])
    ctx.evaluations += len(lex)
    n = len(texts)
    for j, (k, h, bom) in enumerate(texts):
        m = out[k] if k < len(out) else "MISSING"
        parts = m.split(" | ")
        if len(parts) != 3:
            continue
        flags, tape, toks = parts
        if "wf=1" not in flags:
            tie.disagree(tie.cases[k], "the generator's document is well-formed", flags)
        ctx.count("tie_core" if "core=1" in flags else "tie_not_core")
        t_impl = lex[j] if j < len(lex) else "MISSING"
        r_impl = lex[n + j] if n + j < len(lex) else "MISSING"
        want = ("ok %d %s" % (1 if bom else 0, tape)).rstrip()
        if t_impl.replace(" -", "") != want.replace(" -", ""):
            ctx.fail("tie-text-flatten", "text tape of the rendering is %s, TextDoc.flatten says %s" % (t_impl[:300], want[:300]), ["tt.parse\t" + h, tie.cases[k]], [t_impl], want)
        # reader tokens: `... END @pos`
        if r_impl.rsplit(" @", 1)[0] != toks:
            ctx.fail("tie-text-tokens", "reader tokens of the rendering are %s, TextDeSpec.tokens says %s" % (r_impl[:300], toks[:300]), ["tr.slice\t" + h, tie.cases[k]], [r_impl], toks)
    return tie


# ====================================================================================== C04
def run_bin(ctx, cases, meta, impl, base, limit, tag="tie", corpus=False):
    """cases / meta: as built by props/C04.py gen_cases (meta[k] = (expected, group, path, doc, shape); the group
    number is the index of its first case); impl / base: the implementation's answers."""
    import vlib
    tie = Tie(ctx)
    if corpus:
        run_corpus(ctx, tie)
    groups = {}
    for k, (exp, g, p, doc, sh) in enumerate(meta):
        groups.setdefault(g, []).append(k)
    sel = pick(ctx, sorted(groups), limit)
    tapes = []
    for g in sel:
        ks = groups[g]
        exp, _, _, doc, sh = meta[ks[0]]
        _, _, strat, res, fl, shs, hb = cases[ks[0]].split("\t")
        strats = set(cases[k].split("\t")[2] for k in ks)
        ctx.count(tag + "_docs")
        bd = to_bindoc(doc, fl)
        # (a) rendering, well-formedness, expected tape
        ec = "spec.bin.enc\t" + bd
        tapes.append((len(tie.cases), hb))
        tie.add(ec, lambda m: None)
        # (b) + (c) value
        vc = "\t".join(["spec.bin.value", strat, res, fl, shs, bd])

        def chk_value(m, vc=vc, exp=exp, ks=ks, doc=doc, sh=sh, idx=len(tie.cases) - 1):
            if m == "ERR:unfit":
                ctx.count(tag + "_coq_unfit")
                tie.disagree(vc, exp, m)          # BinDoc.spec_value has no documented scope difference with dedoc.expected on these streams
                return
            ctx.count(tag + "_value_compared")
            if m != exp:
                tie.disagree(vc, exp, m)
                ctx.count(tag + "_spec_differs")
            for k in ks:
                o = impl[base + k]
                p = meta[k][2]
                ctx.count(tag + "_impl_compared")
                if o != m:
                    ctx.fail("tie-bin-" + p.split(":")[0], "%s path returns %s, BinDoc.spec_value says %s (dedoc.expected: %s)" % (p, o[:200], m[:200], exp[:200]),
                             [cases[k], vc], [o], m)
        tie.add(vc, chk_value)
    out = tie.run()
    lex = vlib.run_impl(["bt.all\t" + h for (_, h) in tapes])
    ctx.evaluations += len(lex)
    for j, (k, h) in enumerate(tapes):
        m = out[k] if k < len(out) else "MISSING"
        parts = m.split(" | ")
        if len(parts) != 3:
            continue
        flags, enc, tape = parts
        if enc != h:
            tie.disagree(tie.cases[k], "render_bin: " + h, enc)
        if "wf=1" not in flags:
            tie.disagree(tie.cases[k], "the generator's document is well-formed (BinDoc.wf_doc)", flags)
        ctx.count(tag + ("_tape_ok" if "tape_ok=1" in flags else "_not_tape_ok"))
        t_impl = lex[j] if j < len(lex) else "MISSING"
        if "tape_ok=1" in flags and "wf=1" in flags:
            want = "opt=%s | ref=%s | wf=yy" % (tape, tape)
            if t_impl != want:
                ctx.fail("tie-bin-flat", "binary tape of the rendering is %s, BinDoc.flat_doc says %s" % (t_impl[:300], tape[:300]), ["bt.all\t" + h, tie.cases[k]], [t_impl], want)
    return tie


# ====================================================================================== C10
def run_logic(ctx, groups, cases, impl, base, limit):
    """groups: (doc, enc, flavor, strategy, resolver, shape, text bytes, binary bytes, expected, first case, number of cases)"""
    tie = Tie(ctx)
    run_corpus(ctx, tie)
    for (doc, enc, fl, strat, res, sh, txt, b, exp, c0, nc) in pick(ctx, groups, limit):
        ctx.count("tie_docs")
        shs = D.shape_str(sh)
        ld, ch = to_logicdoc(doc, enc, fl)
        bom = enc == "utf8" and txt.startswith(BOM)
        # is the text rendering in the image of `TextDoc.render (to_text d)`: no ghost `{}`, every field written with `=`
        text_in = False
        gaps = [b""]
        try:
            tdoc, gaps = to_textdoc(doc, enc, txt, bom)
            text_in = to_text_image(tdoc)
            if not text_in:
                ctx.count("tie_text_outside_to_text_noeq")     # `key {`: a TextDoc document, but not of the form to_text d
        except Outside as e:
            if e.why == "ghost":
                ctx.count("tie_text_outside_textdoc_ghost")
            else:
                tie.disagree("render_text\t" + hx(txt), "the rendering does not carry the tokens of the document", e.why)
        if text_in:
            ctx.count("tie_text_in_to_text")
        # (a) both renderings
        rc = "\t".join(["spec.logic", ld, ch, "1" if bom else "0", ",".join(hx(g) for g in gaps)])

        def chk_render(m, rc=rc, txt=txt, b=b, text_in=text_in):
            parts = m.split(" | ")
            if len(parts) != 3:
                tie.disagree(rc, "three fields", m)
                return
            flags, t, bb = parts
            if "wf=1" not in flags:
                tie.disagree(rc, "wf_ldoc", flags)
            ctx.count("tie_norgb" if "norgb=1" in flags else "tie_with_rgb")
            if bb != hx(b):
                tie.disagree(rc, "render_bin: " + hx(b), bb)
            if text_in and t != hx(txt):
                tie.disagree(rc, "render_text: " + hx(txt), t)
        tie.add(rc, chk_render)
        # (b) + (c): the two Coq specifications on the two Coq renderings
        vc = "\t".join(["spec.logic.value", enc, strat, res, fl, shs, ld, ch])

        def chk_value(m, vc=vc, exp=exp, c0=c0, nc=nc, doc=doc, sh=sh, text_in=text_in):
            if not m.startswith("T=") or " B=" not in m:
                tie.disagree(vc, "T=.. B=..", m)
                return
            t, bv = m[2:].split(" B=", 1)
            if bv == "ERR:unfit":
                tie.disagree(vc, exp, m)              # no documented scope difference on the binary side
                return
            ctx.count("tie_bin_value_compared")
            if bv != exp:
                tie.disagree(vc, exp, "B=" + bv)
            if t == "ERR:unfit":
                # scope: TextDeSpec.spec_value has no headers and reads the empty `{ }` as an array only
                ctx.count("tie_text_coq_unfit")
                if D.captures_header(sh, doc):
                    ctx.count("tie_text_coq_unfit_header")
                elif visits(sh, doc, lambda k, v: k in ("map", "struct") and is_empty_container(v)):
                    ctx.count("tie_text_coq_unfit_map_on_empty_braces")
                else:
                    tie.disagree(vc, exp, "T=" + t)
            else:
                ctx.count("tie_text_value_compared")
                if t != exp:
                    tie.disagree(vc, exp, "T=" + t)
                if t != bv:
                    tie.disagree(vc, "spec_value (to_text d) = spec_of (to_bin e d)  [C10_spec_of_agree]", m)
            for k in range(c0, c0 + nc):
                o = impl[base + k]
                kind, p = cases[k].split("\t")[:2]
                if kind == "de.text":
                    # the text paths against the text specification: only where the bytes are `render (to_text d)`
                    if t == "ERR:unfit" or not text_in:
                        continue
                    want = t
                else:
                    want = bv
                ctx.count("tie_impl_compared")
                if o != want:
                    ctx.fail("tie-%s-%s" % ("text" if kind == "de.text" else "bin", p.split(":")[0]),
                             "%s %s returns %s, the Coq specification on the %s rendering says %s (dedoc.expected: %s)" % (kind, p, o[:200], "text" if kind == "de.text" else "binary", want[:200], exp[:200]),
                             [cases[k], vc], [o], want)
        tie.add(vc, chk_value)
    tie.run()
    return tie
