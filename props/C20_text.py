"""Text-reader part of C20: I/O failures of the underlying Read surface as errors, never as wrong results."""
from vlib import hexs, unhex
from props import textdoc as td, textgen as tg
from props.C07 import sched_str, split_out


def run_text_reader(ctx):
    rng = ctx.rng
    docs = []
    for _ in range(ctx.scale(150, 2000)):
        doc = td.gen_fields(rng, rng.choice([1, 2, 3]), rng.randrange(1, 5), params=False)
        docs.append(td.render(doc, rng, rng.choice(td.STYLES)))
    docs += [b'"a\\"b" x=y', b"abcdefghijklmnop=1 q=2", b"a={ b=c } d=e", b"#comment\na=b"]
    cases, meta = [], []
    for d in docs:
        n = len(d)
        need = tg.atoms(d)
        base_scheds = [[1] * n, [3] * (n // 3 + 1), [7] * (n // 7 + 1), [n or 1]]
        for bs in base_scheds[:ctx.scale(2, 4)]:
            cap = rng.choice([need, need + 3, n + 9])
            # a fault at every read-call index (sampled), one-shot and persistent
            idxs = list(range(len(bs) + 1))
            rng.shuffle(idxs)
            for fi in idxs[:ctx.scale(4, 12)]:
                one = bs[:fi] + ["F"] + bs[fi:]
                cases.append("tr.retry\t%d\t%s\t%s" % (cap, ",".join(str(x) for x in one), hexs(d))); meta.append((d, cap, "one-shot", fi))
                pers = bs[:fi] + ["F"] * 12
                cases.append("tr.retry\t%d\t%s\t%s" % (cap, ",".join(str(x) for x in pers), hexs(d))); meta.append((d, cap, "persistent", fi))
    free = ["tr.slice\t%s" % hexs(d) for d in docs]
    f_impl, _ = ctx.correspond("text_fault_free", free, nontrivial=lambda c, i: True)
    fb = len(f_impl) - len(free)
    fmap = {d: f_impl[fb + k] for k, d in enumerate(docs)}
    impl, _ = ctx.correspond("text_reader_faults", cases, nontrivial=lambda c, i: "ERR:100" in i)
    base = len(impl) - len(cases)
    for k, (d, cap, kind, fi) in enumerate(meta):
        o = impl[base + k]
        if o in ("PANIC", "ABORT", "HANG") or "RUNAWAY" in o:
            ctx.fail("text-fault-crash", "reader %s under a %s fault at read %d on %r" % (o, kind, fi, d), [cases[k]], [o]); continue
        parts = o.split(" ")
        toks = [p for p in parts[:-2] if not p.startswith("ERR") and p != "END"]
        errs = [p for p in parts[:-2] if p.startswith("ERR")]
        S = split_out(fmap[d])
        ended = "END" in parts[:-2]
        pos, delivered = int(parts[-2][1:]), int(parts[-1][1:])
        if pos > delivered:
            ctx.fail("text-fault-position", "position %d exceeds the %d bytes delivered (%s fault at read %d, %r)" % (pos, delivered, kind, fi, d), [cases[k]], [o])
        first_err = next((i for i, p in enumerate(parts[:-2]) if p.startswith("ERR")), None)
        in_quote = first_err is not None and first_err < len(S[0]) and S[0][first_err].startswith("Q:") and toks[:first_err] == S[0][:first_err]
        if toks != S[0][:len(toks)] and in_quote:
            # known finding: the reader is not resumable after an error inside a quoted scalar
            ctx.fail("text-retry-in-quote", "calls after an I/O error inside a quoted scalar tokenize the rest of the string as unquoted data: %r fault at read %d -> %s" % (d[:60], fi, " ".join(parts[first_err - 1:first_err + 3])), [cases[k]], [o], fmap[d])
        elif toks != S[0][:len(toks)]:
            ctx.fail("text-fault-wrong", "%s fault at read %d: tokens %s differ from the fault-free %s on %r" % (kind, fi, " ".join(toks[:8]), " ".join(S[0][:8]), d), [cases[k]], [o], fmap[d])
        elif ended and (toks != S[0] or S[1] != "END") and in_quote:
            # same root cause: the rest of the quoted scalar is re-read as unquoted data; if it starts with '#'
            # it is taken for a comment and swallows the rest of the line
            ctx.fail("text-retry-in-quote", "calls after an I/O error inside a quoted scalar re-read the rest of the string as plain data (here: as a comment, ending the stream early): %r fault at read %d" % (d[:60], fi), [cases[k]], [o], fmap[d])
        elif ended and (toks != S[0] or S[1] != "END"):
            ctx.fail("text-fault-clean-end", "%s fault at read %d: clean end after %d of %d tokens on %r" % (kind, fi, len(toks), len(S[0]), d), [cases[k]], [o], fmap[d])
        elif kind == "persistent" and fi < 10**9 and ended and not errs and delivered < len(d):
            ctx.fail("text-fault-swallowed", "persistent fault at read %d never reported on %r" % (fi, d), [cases[k]], [o])
        elif kind == "persistent" and delivered < len(d) and not errs:
            ctx.fail("text-fault-swallowed", "persistent fault at read %d never reported on %r" % (fi, d), [cases[k]], [o])
    ctx.count("text_fault_cases", len(cases))
