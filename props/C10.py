"""C10 Text and binary renderings of one document deserialize to the same value."""
from props import dedoc as D
from props.dedoc import hx

RULE = ("logical documents of the shared subset (strings, ints, yes/no, n/8 floats, dates, rgb, nested objects, arrays, arrays of "
        "objects, map-like objects, duplicate keys, ghost objects) rendered as text (4 layouts x {windows-1252, utf-8}) and as binary "
        "(keys/values as resolvable token ids or quoted/unquoted strings, I32/U32/U64, BOOL, F32/F64 under the matching flavor, rgb "
        "blocks, dates as I32 or string) x typed shapes (full, partial, duplicated/take-last, Option, enum, tuples for rgb) x "
        "{text slice, text reader} x {binary tape, on-demand, stream}.  non-trivial = a value came out on both sides.  "
        # [spec_tie]
        "spec_tie: every generated document is converted to a Coq LogicDoc.ldoc plus an encoding choice (props/spectie.py) and the EXTRACTED "
        "LogicDoc.to_text / to_bin are run: BinDoc.enc_doc (to_bin e d) must reproduce dedoc.render_bin byte for byte (all documents), "
        "TextDoc.render (to_text d) must reproduce dedoc.render_text where the rendering is of that form (~53%: no ghost {} and no `key {` "
        "without `=`); TextDeSpec.spec_value on to_text d, BinDoc.spec_value on to_bin e d and dedoc.expected must be equal, the text paths "
        "must return the former and the binary paths the latter; plus hand-made pairs from corpus/C10/spec_tie.case.  "
        # [w_c10]
        "ext (props/C10_ext.py, Props/C10_ext.v): 400 generated EXTENDED logical documents (LogicDocX: colours captured as typed pairs at object-value positions of any depth -- nested objects, arrays of objects, maps, under Option, repeated keys --, DateHour as I32 / quoted / unquoted / token id at the year and hour boundaries, floats, ints into floats, unknown fields holding colours, ghosts, token-id keys) x 2 shapes (colours read / colours skipped) are rendered by the EXTRACTED to_textx / binx_bytes under random layouts and specified by the extracted spec_value2 true / false and BinDoc.spec_of; the implementation deserializes those bytes through slice / tape / ObjectReader / method entry points, small-buffer and chopped text readers (where no colour is captured) and binary tape / on-demand / stream: all paths equal, = the Coq specifications.  "
        # [a_c10]
        "kinds (props/C10_kinds.py, audit/C10.md): deterministic sweeps over the value kinds -- integers at every width boundary x every token "
        "that fits (I64 included) x 12 targets; eu4 F32 (3 decimals) / eu4 F64 (5 decimals) / raw floats, numerals full and trimmed, f32 and f64 "
        "targets; Date and DateHour at the years -5000 .. 0 .. 32767 (and -32768 / -5001) x {I32, quoted, unquoted string token} x short / "
        "zero-padded text; strings with non-ASCII, quotes and backslashes under both encodings as values and as keys (quoted / unquoted / token "
        "id); rgb with 3 / 4 channels up to u32::MAX; empty and nested containers; unknown tokens as keys / values under the three strategies; "
        "`any` targets on string-only documents -- each at 7 document positions, through text slice / tape / ObjectReader / TokenReader / "
        "from_*_reader / TextDeserializer::from_*_slice / from_encoded_tape and binary builder tape / slice / reader, BinaryFlavor::deserialize_slice / "
        "deserialize_reader and the deserializer-returning builder methods; oracle: the value computed from the abstract document for each format, "
        "equality of the two where the property promises it; the same cases against the extracted walks (kinds_walk_text / kinds_walk_bin).  "
        # [s_c10]
        "sizes (props/C10_sizes.py, audit/C10.md `Size dimensions`): one size-like dimension at a time over the ladder 0 1 2 3 7 8 9 15 16 17 31 32 33 "
        "63 64 65 127 128 129 255 256 257 1023 1024 1025 4095 4096 4097 65533 65534 65535 65536 on an otherwise small document: string, key, resolved-name "
        "and enum-name lengths up to the binary u16 limit in both renderings (beyond it: text only), a backslash / quote / non-ASCII character at every "
        "place of the decoders' 8-byte blocks, the default 32 KiB buffer of the stream entry points; counts of array elements, map entries, duplicates "
        "of one key and unknown fields (to 65536), struct fields / Option fields / tuple elements / enum variants / colours (to 1025), consecutive ghost "
        "`{}` (to 4097, in front / between / after the fields, nested); nesting depth of structs / maps / arrays / Option captured (to 1025) and of skipped "
        "containers (to 70000); every integer width boundary inside arrays / maps / repeated fields, powers of ten, zero-padded numerals (to 65536 zeros), "
        "1..24 fraction digits; Date / DateHour over the ladder of years -5000..32767 and inside containers; rgb channel counts; every non-lexeme token id "
        "0x0000..0xffff as a key and as a value; gap / comment lengths of the text layout and offset x length pairs around the lexer's 8 / 16-byte blocks.  "
        "Oracle: the value by construction (dedoc.expected on the abstract document, or spelled out next to the bytes), equality of the two renderings "
        "wherever the binary format can express the document; the cases up to a few hundred bytes also against the extracted walks (sizes_walk_*)")
TRUSTED = ["serde's primitive visitors; the flavor arithmetic is recomputed exactly in Python",
           "Date::from_binary / Date::parse agreement is C13 (proved there); here it is exercised through both deserializers",
           # [spec_tie]
           "spec_tie: LogicDoc.to_text / to_bin are now extracted and corresponded with props/dedoc.py's renderers on every run (they no longer "
           "mirror them by construction only), and both Coq specifications are compared with dedoc.expected and with the implementation.  "
           "LogicDoc.shared and enc_ok are Props (Prop-valued fixpoints with an existential in float_ok): extraction erases them, they are NOT "
           "run; what is run instead is the conclusion of C10_spec_of_agree (the two specifications agree) on every document whose Python "
           "criterion of sharedness holds (dedoc.expected(text) = dedoc.expected(binary) != unfit).  Still Python-only: that criterion, the "
           "conversion dedoc -> ldoc / encoding choice (props/spectie.py to_logicdoc; checked by the byte-for-byte comparisons), the generators"]
ASSUMPTIONS = ["shared subset: every token id is resolvable, no operators other than '=', no Property/any targets (text scalars are strings for a "
               "dynamically shaped target, binary scalars are typed - by design), floats are n/8 with at most 3 decimals so that both "
               "renderings denote the same f32/f64 (`float_shared`), integers that text would refuse as f64 (> 2^53) are skipped and counted",
               "I64 tokens excluded (C03 finding B), rgb is not an array element (text arrays split header and block)",
               # [spec_tie]
               "spec_tie scope: the text specification answers UNFIT where a colour is visited (TextDeSpec has no headers) and for a map / struct "
               "target on the empty `{ }` (an array in TextDoc); there only the binary specification is compared (counted as tie_text_coq_unfit_*). "
               "The text PATHS are compared with the text specification only where the text bytes are TextDoc.render (to_text d)",
               # [a_c10]
               "kinds: counted, not asserted equal (outside the shared subset): f32 / f64 targets on integers above 2^53 (text refuses the numeral), "
               "an f64 target on an F32 token (the f32 is widened), eu4 F32 payloads at or above 2^24 into f32, dates below year -5000 as I32, a "
               "DateHour into Date / a Date into DateHour, numerals read as dates, unknown tokens whose name the target needs (captured field, map "
               "key, any key under the Error strategy); `any` targets leave the text STREAM paths out (its deserialize_any cannot look ahead)"]


def run(ctx):
    rng = ctx.rng
    nt = lambda c, i: i.startswith("(")
    cases, meta = [], []
    tie_groups = []           # [spec_tie] (doc, enc, flavor, strategy, resolver, shape, text, binary, expected, first case, number of cases)
    n = ctx.scale(3000, 20000)
    for _ in range(n):
        doc = D.gen_doc(rng, ops=False, i64=False, allow_escape=(rng.random() < 0.15))
        enc = rng.choice(["w1252", "utf8"])
        fl = "eu4" if enc == "w1252" else "raw"
        ids = doc["ids"]
        known = set(ids)
        strat = rng.choice(["error", "stringify", "ignore"])
        sh = None
        for _k in range(20):
            cand = D.gen_shape(rng, [doc], dict(mode="shared", full=rng.random() < 0.4, mishint=0.0, prop=False, any=False, root=True))
            et = D.expected(cand, doc, D.Mode("text", enc=enc))
            eb = D.expected(cand, doc, D.Mode("bin", flavor=fl, strategy=strat, known=known, ids=ids))
            if et == "ERR:unfit":
                continue
            if et != eb:
                ctx.count("not_shared")       # e.g. f64 target on an integer above 2^53: text refuses, binary casts
                continue
            sh = cand
            break
        if sh is None:
            continue
        ctx.count("docs")
        ctx.count("expect_" + (et[:8] if et.startswith("ERR") else "value"))
        txt = D.render_text(doc, rng, enc)
        b = D.render_bin(doc, fl)
        res = D.resolver_spec(ids, known, rng.choice(["map", "lines"]))
        shs = D.shape_str(sh)
        hdr = D.captures_header(sh, doc)
        mtb = max(32, D.max_token_len(doc, enc) + 4)
        group = [("de.text", "slice"), ("de.bin", "tape"), ("de.bin", "slice"), ("de.bin", "reader:%d:%s" % (rng.choice([mtb, 64 + mtb, 32768]), rng.choice(["-", "1*", "5,3*"])))]
        if not hdr:
            group.append(("de.text", "reader:32768:-"))
        g0 = len(cases)
        for (kind, p) in group:
            if kind == "de.text":
                cases.append("\t".join([kind, p, enc, shs, hx(txt)]))
            else:
                cases.append("\t".join([kind, p, strat, res, fl, shs, hx(b)]))
        meta.append((g0, len(group), et))
        tie_groups.append((doc, enc, fl, strat, res, sh, txt, b, et, g0, len(group)))      # [spec_tie]
    impl, _ = ctx.correspond("text-vs-binary", cases, nontrivial=nt, model=False)
    base = len(impl) - len(cases)
    for (g0, k, exp) in meta:
        outs = impl[base + g0: base + g0 + k]
        if any(o != outs[0] for o in outs):
            j = next(i for i, o in enumerate(outs) if o != outs[0])
            ctx.fail("text-bin-differ", "text rendering gives %s, %s gives %s" % (outs[0][:200], cases[g0 + j].split("\t")[1], outs[j][:200]),
                     [cases[g0], cases[g0 + j]], [outs[0], outs[j]], exp)
        elif outs[0] != exp:
            ctx.fail("value", "both renderings give %s, the logical document says %s" % (outs[0][:200], exp[:200]), [cases[g0], cases[g0 + 1]], outs[:2], exp)

    # ---- [spec_tie] BEGIN: the Coq renderings LogicDoc.to_text / to_bin (what Props/C10_link.v is stated over) extracted and
    # run on the documents generated above (converted to LogicDoc.ldoc + an encoding choice; see props/spectie.py):
    # (a) D.render_bin = BinDoc.enc_doc (to_bin e d) and D.render_text = TextDoc.render (to_text d) under the gaps of the
    # rendering, byte for byte; (b) D.expected = TextDeSpec.spec_value on to_text d = BinDoc.spec_value on to_bin e d (the
    # conclusion of C10_spec_of_agree); (c) the text paths' values = the text specification, the binary paths' values =
    # the binary specification.
    from props import spectie
    spectie.run_logic(ctx, tie_groups, cases, impl, base, ctx.scale(3000, 20000))
    # ---- [spec_tie] END

    # the binary walks inside the Coq model (BinDeTape / BinDeOndemand / BinDeReader, Props/C04_walk.v, C10_walk.v)
    # on the binary renderings of this property's documents
    wm = ["de.model.bin" + c[len("de.bin"):] for c in cases if c.startswith("de.bin\t")]
    ctx.count("walk_model_cases", len(wm))
    ctx.correspond("walk_model", wm, nontrivial=nt)

    probes(ctx)

    # >>> a_c10 (wave 4): deterministic sweeps over the value kinds of the logical document x every public text and binary
    # entry point, with expectations computed from the abstract document (props/C10_kinds.py; audit/C10.md)
    from props import C10_kinds
    C10_kinds.run(ctx)
    # <<< a_c10

    # >>> w_c10 (wave 5): the EXTENDED logical documents of coq/theories/LogicDocX.v (colours that are read at arbitrary
    # object-value positions, DateHour values) rendered by the extracted model, specified by TextDeSpec2.spec_value2 /
    # BinDoc.spec_of, and deserialized by the implementation from the bytes of both renderings (props/C10_ext.py; Props/C10_ext.v)
    from props import C10_ext
    C10_ext.run(ctx)
    # <<< w_c10

    # >>> s_c10 (wave 6): size / boundary ladders -- one size-like dimension at a time up the ladder 0 1 2 3 7 8 9 .. 65535 65536
    # (string / key / name lengths, element / field / duplicate / ghost counts, nesting depth captured and skipped, digits,
    # years, token ids, gap lengths), expectations by construction (props/C10_sizes.py; audit/C10.md "Size dimensions")
    from props import C10_sizes
    C10_sizes.run(ctx)
    # <<< s_c10

    # scalar level of both formats against the extracted Serde model
    from props import descalar
    ctx.correspond("scalar-both", descalar.text_cases(ctx, ctx.scale(100, 1000)) + descalar.bin_cases(ctx, ctx.scale(60, 600)), nontrivial=nt)


def probes(ctx):
    """the witnesses of Props/C10_link.v replayed on the implementation (and, through the walk models, on the
    extracted deserializers): a colour captured as (String, Vec<u8>) -- C10_link_rgb_typed_agree, incl. the
    out-of-range refusal --, a colour into an `any` target -- C10_link_rgb_any_refuted --, and the smallest
    i64 -- C10_link_i64_min_refuted --, each through the text slice path and the three binary paths"""
    import struct
    from props import C02
    nt = lambda c, i: i.startswith("(")
    col, x = hx("color"), hx("x")
    bpaths = ["tape", "slice", "reader:64:-", "reader:32768:1*"]

    def rgb_bin(c):
        return D.bstr(b"color", False) + D.EQ + D.tok(0x0243) + D.OPEN + b"".join(D.tok(0x14) + struct.pack("<I", v) for v in c) + D.CLOSE

    groups = []          # (name, text, binary bytes, shape, what is expected of the group)
    for c in ([1, 2, 3], [110, 27, 255, 0], [0, 0, 0], [255, 255, 255, 255]):
        groups.append(("rgb-typed", ("color = rgb { %s }" % " ".join(map(str, c))).encode(), rgb_bin(c),
                       "struct(%s:tup(str,seq(u8)))" % col, "equal-value"))
    groups.append(("rgb-typed", b"color = rgb { 1 300 3 }", rgb_bin([1, 300, 3]), "struct(%s:tup(str,seq(u8)))" % col, "equal-error"))
    groups.append(("rgb-typed", b"color=rgb{70000 2 3 4}", rgb_bin([70000, 2, 3, 4]), "struct(%s:tup(str,seq(u32)))" % col, "equal-value"))
    groups.append(("rgb-any", b"color = rgb { 1 2 3 }", rgb_bin([1, 2, 3]), "struct(%s:any)" % col, "differ-by-design"))
    # dates at the calendar boundaries (Props/C10_link.v C10_link_date, all -5000 <= y <= 32767 and calendar days)
    for (y, m, d) in [(1444, 11, 11), (1, 1, 1), (1, 12, 31), (9999, 12, 31), (1600, 2, 28), (1600, 3, 1), (-1, 1, 1), (-4999, 6, 30),
                      (32767, 12, 31), (2200, 1, 31), (1836, 4, 30), (5, 7, 31), (1066, 10, 14)]:
        for pad in (False, True):
            t = ("%d.%02d.%02d" if pad else "%d.%d.%d") % (y, m, d)
            groups.append(("date", b"x=" + t.encode(), D.bstr(b"x", False) + D.EQ + D.tok(0x0c) + struct.pack("<i", D.date_to_binary(y, m, d)),
                           "struct(%s:date)" % x, "equal-value"))
    imin = -2 ** 63
    groups.append(("i64-min", b"x=%d" % imin, D.bstr(b"x", False) + D.EQ + D.tok(0x317) + struct.pack("<q", imin), "struct(%s:i64)" % x, "finding"))
    groups.append(("i64-min", b"x=%d" % (imin + 1), D.bstr(b"x", False) + D.EQ + D.tok(0x317) + struct.pack("<q", imin + 1), "struct(%s:i64)" % x, "equal-value"))
    cases = []
    for (_, txt, b, shs, _) in groups:
        cases.append("\t".join(["de.text", "slice", "utf8", shs, hx(txt)]))
        for p in bpaths:
            cases.append("\t".join(["de.bin", p, "error", "map:-", "raw", shs, hx(b)]))
    impl, _ = ctx.correspond("probes", cases, nontrivial=nt, model=False)
    base = len(impl) - len(cases)
    k = 1 + len(bpaths)
    for gi, (name, txt, b, shs, want) in enumerate(groups):
        outs = impl[base + gi * k: base + (gi + 1) * k]
        gc = cases[gi * k: (gi + 1) * k]
        ctx.count("probe_" + name)
        bin_equal = all(o == outs[1] for o in outs[1:])
        if not bin_equal:
            ctx.fail("probe-bin-paths", "%s: the binary paths disagree: %s" % (name, outs[1:]), gc, outs, None)
        elif want == "equal-value" and not (outs[0] == outs[1] and outs[0].startswith("(")):
            ctx.fail("probe-" + name, "text gives %s, binary gives %s" % (outs[0][:120], outs[1][:120]), gc, outs, "equal values")
        elif want == "equal-error" and not (outs[0] == outs[1] and outs[0].startswith("ERR")):
            ctx.fail("probe-" + name, "text gives %s, binary gives %s" % (outs[0][:120], outs[1][:120]), gc, outs, "the same refusal")
        elif want == "finding" and outs[0] != outs[1]:
            ctx.fail("text-bin-i64min", "x=%d: text gives %s, binary (I64 token) gives %s" % (imin, outs[0][:80], outs[1][:80]), gc, outs, "equal values")
    # the same cases against the extracted walks (text: over the implementation's tape; binary: from the bytes)
    C02.walk_model(ctx, [c for c in cases if c.startswith("de.text\t")], stream="probes_walk_text")
    ctx.correspond("probes_walk_bin", ["de.model.bin" + c[len("de.bin"):] for c in cases if c.startswith("de.bin\t")], nontrivial=nt)


def search(ctx):
    import random
    ctx.rng = random.Random(ctx.seed + 1)
    old = ctx.tier
    ctx.tier = "thorough"
    try:
        run(ctx)
    finally:
        ctx.tier = old


CLAIM = {
    "text": "one logical document is rendered as text and as binary and deserialized into the same runtime shape through the text slice/reader paths and the three binary paths; all results must be equal and equal to the independently computed value; Coq: see coverage.theorems",
    "note": "[spec_tie] LogicDoc.to_text / to_bin and both specifications are extracted and run on the generated documents (renderings byte for byte against props/dedoc.py, TextDeSpec.spec_value = BinDoc.spec_value = dedoc.expected = the implementation's values; stream spec_tie, keys tie-text-* / tie-bin-*); LogicDoc.shared is a Prop and is not run. Props/C10_link.v (LogicDoc.v: logical documents with a text rendering to_text and a binary rendering to_bin under an encoding choice e): (1) per-scalar agreement of the text typed hints and the binary tokens for integers in (i64::MIN, u64::MAX] on all four token widths and every target width (refusals included), yes/no vs BOOL, strings as quoted / unquoted / resolvable id, dates Y.M.D vs I32 (through C13), floats under float_ok; (2) C10_spec_agree: TextDeSpec.spec_value on to_text d = BinDoc.spec_value on to_bin e d for every shared shape and every admissible encoding choice (nested objects, arrays, duplicate keys, Option, unknown fields, Once/Last/Collect, maps, tuples, enums); (3) C10_text_bin_agree_partial: composed with the C02 and C04 walk theorems, the text tape and stream paths and the three binary paths (any fitting capacity, any fault-free schedule) return the same value; (4) C10_link_rgb_typed_agree: a colour captured as (String, Vec<uN>) is read identically by the text tape path and the binary paths for all channel values, C10_link_rgb_any_refuted / C10_link_i64_min_refuted: the two witnesses replayed by the `probes` stream. C10_shared_fits: a shared target fits the text rendering; C10_text_bytes_bin_agree_partial: the same from the text bytes under every layout (through C01_parse_render). Not proved: colours at arbitrary positions of a document (TextDeSpec has no headers), the byte-level lexing of the text STREAM path (C07) is not composed. Props/C10_walk.v: the binary specification is independent of the encoding choices and every binary path on every encoding returns it. Props/C10.v: the old Serde.v-level scalar agreement.",
    "note_wave4": "[a_c10] Props/C10_kinds.v: C10_link_datehour (Y.M.D.H through DateHourVisitor::visit_str = the I32 of DateHour::to_binary through visit_i32 = the same characters as a binary string token: the value (y, m, d, h), all calendar days of -5000..32767, hours 1..24), C10_link_date_both_value, C10_any_encoding_any_path (three admissible encoding choices of one logical document read by the tape / on-demand / stream entry points at their own fuel and the text tape path: one value -- completes C10_bin_any_path_any_encoding_partial for logical documents), C10_any_object_refuted (finding any-object-ondemand: a dynamically typed target on a nested object is a syntax error on the on-demand and stream binary paths).  Stream kinds: see RULE; audit: audit/C10.md",
    "note_wave5": "[w_c10] Props/C10_ext.v over coq/theories/LogicDocX.v (LogicDoc + DateHour values + colours that are READ): C10_ext_spec_agree / _spec_of_agree (TextDeSpec2.spec_value2 tp on the text rendering = BinDoc.spec_of with ColorSequence on any admissible binary rendering, colours captured as (String | ignored, Vec<number> | ignored) at arbitrary object-value positions and DateHour as I32 / string token included), C10_ext_shared_fits, C10_ext_text_bin_agree (text tape path + the three binary paths, both flags), C10_ext_text_bin_agree_stream (tp = false: five paths), C10_ext_bytes_agree / C10_ext_bytes_agree_stream (the same from the BYTES of both renderings: from_*_slice under every layout, from_*_reader under every failure-free schedule and every capacity >= need), C10_ext_embeds / _subsumes_logicdoc / _logicdoc_five_paths (LogicDoc is the XBase fragment), refuted: C10_ext_rgb_in_array_refuted (finding rgb-in-array), C10_ext_rgb_stream_refuted (H-stream-header seen from C10), C10_ext_rgb_string_refuted (by design).  Streams ext_docs / ext-text-vs-binary / ext_probes (props/C10_ext.py): the extracted LogicDocX.to_textx / binx_bytes render the generated documents, spec_value2 true / false and spec_of specify them, the implementation deserializes THOSE bytes on all paths",
    "note_wave6": "[s_c10] stream sizes (props/C10_sizes.py; audit/C10.md section 9): one size-like dimension at a time over the ladder 0 1 2 3 7 8 9 .. 65535 65536 -- string / key / resolved-name / enum-name lengths to the binary u16 limit in both renderings (beyond: text only), escapes at every place of the decoders' 8-byte blocks, default stream buffers, element / entry / duplicate / unknown-field counts to 65536, fields / tuples / variants / colours to 1025, ghost runs to 4097, captured depth to 1025 and skipped depth to 70000, integer width boundaries inside containers, powers of ten, zero padding, 1..24 fraction digits, 75 years over -5000..32767, every non-lexeme token id as key and value, gap lengths and offsets of the text layout; expectations by construction, small cases also against the extracted walks (sizes_walk_text / sizes_walk_bin); finding ghost-front-root-tape",
    "technique": "machine-checked proof in Coq over an executable model + specification oracle on the implementation",
}
