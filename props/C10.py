"""C10 Text and binary renderings of one document deserialize to the same value."""
from props import dedoc as D
from props.dedoc import hx

RULE = ("logical documents of the shared subset (strings, ints, yes/no, n/8 floats, dates, rgb, nested objects, arrays, arrays of "
        "objects, map-like objects, duplicate keys, ghost objects) rendered as text (4 layouts x {windows-1252, utf-8}) and as binary "
        "(keys/values as resolvable token ids or quoted/unquoted strings, I32/U32/U64, BOOL, F32/F64 under the matching flavor, rgb "
        "blocks, dates as I32 or string) x typed shapes (full, partial, duplicated/take-last, Option, enum, tuples for rgb) x "
        "{text slice, text reader} x {binary tape, on-demand, stream}.  non-trivial = a value came out on both sides")
TRUSTED = ["serde's primitive visitors; the flavor arithmetic is recomputed exactly in Python",
           "Date::from_binary / Date::parse agreement is C13 (proved there); here it is exercised through both deserializers"]
ASSUMPTIONS = ["shared subset: every token id is resolvable, no operators other than '=', no Property/any targets (text scalars are strings for a "
               "dynamically shaped target, binary scalars are typed - by design), floats are n/8 with at most 3 decimals so that both "
               "renderings denote the same f32/f64 (`float_shared`), integers that text would refuse as f64 (> 2^53) are skipped and counted",
               "I64 tokens excluded (C03 finding B), rgb is not an array element (text arrays split header and block)"]


def run(ctx):
    rng = ctx.rng
    nt = lambda c, i: i.startswith("(")
    cases, meta = [], []
    n = ctx.scale(3000, 20000)
    for _ in range(n):
        doc = D.gen_doc(rng, ops=False, i64=False, allow_escape=(rng.random() < 0.15))
        enc = rng.choice(["w1252", "utf8"])
        fl = "eu4" if enc == "w1252" else "raw"
        ids = doc["ids"]
        known = set(ids)
        strat = rng.choice(["error", "stringify", "ignore"])
        sh = None
        for _k in range(20):
            cand = D.gen_shape(rng, [doc], dict(mode="shared", full=rng.random() < 0.4, mishint=0.0, prop=False, any=False, root=True))
            et = D.expected(cand, doc, D.Mode("text", enc=enc))
            eb = D.expected(cand, doc, D.Mode("bin", flavor=fl, strategy=strat, known=known, ids=ids))
            if et == "ERR:unfit":
                continue
            if et != eb:
                ctx.count("not_shared")       # e.g. f64 target on an integer above 2^53: text refuses, binary casts
                continue
            sh = cand
            break
        if sh is None:
            continue
        ctx.count("docs")
        ctx.count("expect_" + (et[:8] if et.startswith("ERR") else "value"))
        txt = D.render_text(doc, rng, enc)
        b = D.render_bin(doc, fl)
        res = D.resolver_spec(ids, known, rng.choice(["map", "lines"]))
        shs = D.shape_str(sh)
        hdr = D.captures_header(sh, doc)
        mtb = max(32, D.max_token_len(doc, enc) + 4)
        group = [("de.text", "slice"), ("de.bin", "tape"), ("de.bin", "slice"), ("de.bin", "reader:%d:%s" % (rng.choice([mtb, 64 + mtb, 32768]), rng.choice(["-", "1*", "5,3*"])))]
        if not hdr:
            group.append(("de.text", "reader:32768:-"))
        g0 = len(cases)
        for (kind, p) in group:
            if kind == "de.text":
                cases.append("\t".join([kind, p, enc, shs, hx(txt)]))
            else:
                cases.append("\t".join([kind, p, strat, res, fl, shs, hx(b)]))
        meta.append((g0, len(group), et))
    impl, _ = ctx.correspond("text-vs-binary", cases, nontrivial=nt, model=False)
    base = len(impl) - len(cases)
    for (g0, k, exp) in meta:
        outs = impl[base + g0: base + g0 + k]
        if any(o != outs[0] for o in outs):
            j = next(i for i, o in enumerate(outs) if o != outs[0])
            ctx.fail("text-bin-differ", "text rendering gives %s, %s gives %s" % (outs[0][:200], cases[g0 + j].split("\t")[1], outs[j][:200]),
                     [cases[g0], cases[g0 + j]], [outs[0], outs[j]], exp)
        elif outs[0] != exp:
            ctx.fail("value", "both renderings give %s, the logical document says %s" % (outs[0][:200], exp[:200]), [cases[g0], cases[g0 + 1]], outs[:2], exp)

    # the binary walks inside the Coq model (BinDeTape / BinDeOndemand / BinDeReader, Props/C04_walk.v, C10_walk.v)
    # on the binary renderings of this property's documents
    wm = ["de.model.bin" + c[len("de.bin"):] for c in cases if c.startswith("de.bin\t")]
    ctx.count("walk_model_cases", len(wm))
    ctx.correspond("walk_model", wm, nontrivial=nt)

    # scalar level of both formats against the extracted Serde model
    from props import descalar
    ctx.correspond("scalar-both", descalar.text_cases(ctx, ctx.scale(100, 1000)) + descalar.bin_cases(ctx, ctx.scale(60, 600)), nontrivial=nt)


def search(ctx):
    import random
    ctx.rng = random.Random(ctx.seed + 1)
    old = ctx.tier
    ctx.tier = "thorough"
    try:
        run(ctx)
    finally:
        ctx.tier = old


CLAIM = {
    "text": "one logical document is rendered as text and as binary and deserialized into the same runtime shape through the text slice/reader paths and the three binary paths; all results must be equal and equal to the independently computed value; Coq: see coverage.theorems",
    "note": "Props/C10_walk.v: the binary specification is independent of the encoding choices (integer token, string form incl. resolvable ids, ghosts) and every binary path on every encoding returns it; the text half of text_bin_agree is NOT proved (two specifications, no common logical document yet). Earlier note: The Coq side pins the shared value specification (Serde.spec_value is format independent on shared documents) and the date codec agreement imported from C13; the two deserializers themselves are tied by the oracle stream only.",
    "technique": "machine-checked proof in Coq over an executable model + specification oracle on the implementation",
}
