"""C14 Writing a parsed tape and re-parsing reproduces the same structure; writing is idempotent."""
import random
from vlib import hexs, unhex
from props import docgen

RULE = ("abstract documents (props/docgen.py: 8 operators, quoted/unquoted/@variable/non-ASCII scalars, escaped quotes, nested "
        "objects, arrays, arrays of objects, empty containers, headers, parameter blocks, arrays that turn into key-value lists) "
        "x layouts (minimal, spaced, LF, CRLF, tabs, comments, ';', BOM, random) x indent_char in {space, tab} x indent_factor 0..9, "
        "plus nesting chains to depth 14 (crossing the 16-byte indent cache) and a few exotic indent configurations for the "
        "model/implementation comparison only. non-trivial = the tape has a container or operator and write_tape succeeded. "
        "Wave 4 (props/C14_reuse.py): writer SESSIONS -- one TextWriter over an owned Vec (into_inner at the end) that writes two tapes "
        "one after the other, a tape inside 1..12 objects opened by direct calls, a tape after a direct key/value, with raw inner() "
        "writes in between, builder defaults (no setter called) -- judged by metamorphic oracles on the real writer and parser. "
        "Wave 6 (props/C14_sizes.py): size ladders 0 1 2 3 7 8 9 15 16 17 .. 65535 65536, one dimension at a time: nesting depth to 4097 "
        "with mixed container kinds per level, indent width depth x factor around 16 / 256 / 1024 / 4096 / 65536 (factor 0..255), siblings per "
        "container to 65536, scalar length per role to 65536, escapes per quoted scalar to 300, write_tape calls per writer to 1025, base "
        "depth of a reused writer to 65536 -- judged by re-parse = document, fixed point, an indentation law on the written bytes and the "
        "shift law (a tape written inside D open containers is the depth-0 text indented by D x factor)")
TRUSTED = ["the text parser (TextTape::from_slice) is used as is by the oracles; its own correctness is C01/C06's subject",
           "props/docgen.py flatten is cross-checked against the real parser on every run (stream parse)"]
ASSUMPTIONS = ["round-trippable subset: objects that continue as a bare value list are excluded (documented by the writer)",
               "indent_char is whitespace for the re-parse oracles"]
PROFILES = ["release", "debug"]

CRASH = ("PANIC", "ABORT", "HANG")


def _fail(ctx, key, what, cases, impl=None, expect=None):
    """at most 3 recorded failures per class, so that a frequent (known) class cannot crowd out a new one"""
    n = ctx.dist.get("fail:" + key, 0)
    ctx.count("fail:" + key)
    if n < 3:
        ctx.fail(key, what, cases, impl, expect)



def cfgs(rng, n, profile="r"):
    out = []
    for _ in range(n):
        out.append("%d,%d,%s" % (rng.choice([32, 9]), rng.randrange(0, 10), profile))
    return out


def chain(rng, depth):
    """a={b={...}} nesting chain with arrays, mixed lists and parameters at the bottom"""
    D = docgen
    v = rng.choice([D.S("u", b"leaf"), D.Arr([D.S("u", b"1"), D.S("u", b"2")]), D.Arr([D.S("u", b"1")], [D.Field(D.S("u", b"k"), "=", D.S("q", b"v"))]),
                    D.Obj([D.Param(b"p", False, [D.Field(D.S("u", b"x"), "=", D.S("u", b"y"))]), D.Field(D.S("u", b"z"), ">=", D.S("u", b"3"))]),
                    D.Hdr(b"rgb", D.Arr([D.S("u", b"1"), D.S("u", b"2"), D.S("u", b"3")])), D.Arr([])])
    for i in range(depth):
        k = D.S("u", b"k%d" % i)
        r = rng.random()
        if r < 0.15:
            # an array whose nested child is followed by more than one scalar (the writer must still know, after the
            # child closes, that it is inside an array -- at any depth)
            v = D.Arr([D.S("u", b"e"), v if v.__class__.__name__ != "S" else D.Arr([v]), D.S("u", b"x"), D.S("u", b"y")])
        elif r < 0.4:
            v = D.Arr([D.S("u", b"e"), D.Obj([D.Field(k, "=", v)])] if rng.random() < 0.5 else [D.Obj([D.Field(k, "=", v)]), D.S("q", b"e")])
        else:
            items = [D.Field(k, rng.choice(["=", "=", "<", "=="]), v)]
            if rng.random() < 0.4:
                items.append(D.Field(D.S("q", b"s"), "=", D.S("u", b"t")))
            v = D.Obj(items)
    return D.Doc([D.Field(D.S("u", b"root"), "=", v), D.Field(D.S("u", b"after"), "=", D.S("u", b"1"))])


def has_param_value(d):
    D = docgen

    def items(its):
        for it in its:
            if isinstance(it, D.Param):
                if isinstance(it.body, D.S):
                    return True
                if items(it.body):
                    return True
            elif isinstance(it, D.Field) and val(it.value):
                return True
        return False

    def val(v):
        if isinstance(v, D.Hdr):
            return val(v.value)
        if isinstance(v, D.Obj):
            return items(v.items)
        if isinstance(v, D.Arr):
            return any(val(e) for e in v.elems if not isinstance(e, D.Ghost)) or any(val(e.value) for e in v.mixed if isinstance(e, D.Field))
        return False
    return items(d.items)


def has_glued_bang(d):
    """a key-value list inside an array with an unquoted key followed by `!=`: the writer glues them
    (`key!=value`), and the 16-byte scalar scan of the parser does not stop at `!` (DESIGN section 7, defect A)"""
    D = docgen

    def items(its):
        return any((isinstance(it, D.Field) and val(it.value)) or (isinstance(it, D.Param) and not isinstance(it.body, D.S) and items(it.body)) for it in its)

    def val(v):
        if isinstance(v, D.Hdr):
            return val(v.value)
        if isinstance(v, D.Obj):
            return items(v.items)
        if isinstance(v, D.Arr):
            if any(isinstance(e, D.Field) and e.op == "!=" and e.key.kind == "u" for e in v.mixed):
                return True
            return any(val(e) for e in v.elems if not isinstance(e, D.Ghost)) or any(val(e.value) for e in v.mixed if isinstance(e, D.Field))
        return False
    return items(d.items)


def has_mixed_nested_op(d, any_op=False):
    """a key-value list inside an array whose value holds an object field with a non-`=` operator: the
    writer's mixed mode is only reset by write_end, so write_operator inside the nested object prints the
    operator glued and leaves the state at KeyValueSeparator; the value then gets a spurious `=` (`c<d` -> `c<=d`)"""
    D = docgen

    def items(its, inside):
        for it in its:
            if isinstance(it, D.Field):
                if inside and (any_op or it.op not in (None, "=")):
                    return True
                if val(it.value, inside):
                    return True
            elif isinstance(it, D.Param) and not isinstance(it.body, D.S) and items(it.body, inside):
                return True
        return False

    def val(v, inside):
        if isinstance(v, D.Hdr):
            return val(v.value, inside)
        if isinstance(v, D.Obj):
            return items(v.items, inside)
        if isinstance(v, D.Arr):
            return any(val(e, inside) for e in v.elems if not isinstance(e, D.Ghost)) or any(val(e.value, True) for e in v.mixed if isinstance(e, D.Field))
        return False
    return items(d.items, False)


def has_mixed_container_then_more(d):
    """a key-value list inside an array where a container value is followed by further entries: write_end of
    the nested container resets MixedMode, so the rest of the list is written (and reported by
    expecting_key()) as if the array were an object"""
    D = docgen

    def items(its):
        return any((isinstance(it, D.Field) and val(it.value)) or (isinstance(it, D.Param) and not isinstance(it.body, D.S) and items(it.body)) for it in its)

    def val(v):
        if isinstance(v, D.Hdr):
            return val(v.value)
        if isinstance(v, D.Obj):
            return items(v.items)
        if isinstance(v, D.Arr):
            for i, e in enumerate(v.mixed):
                if isinstance(e, D.Field) and isinstance(e.value, (D.Obj, D.Arr, D.Hdr)) and i + 1 < len(v.mixed):
                    return True
            return any(val(e) for e in v.elems if not isinstance(e, D.Ghost)) or any(val(e.value) for e in v.mixed if isinstance(e, D.Field))
        return False
    return items(d.items)


def parse_rt(line):
    d = {}
    for part in line.split("|"):
        if "=" in part:
            k, v = part.split("=", 1)
            d[k] = v
    return d


def run(ctx, widen=False):
    rng = ctx.rng
    ndoc = ctx.scale(3000, 20000) * (2 if widen else 1)
    docs = []
    for i in range(ndoc):
        d = docgen.gen_doc(rng, rng.randrange(0, 5), rng.randrange(1, 7), object_tails=(i % 10 == 9))
        docs.append((d, i % 10 != 9))
    for i in range(ctx.scale(400, 2000)):
        docs.append((chain(rng, rng.randrange(6, 15)), True))
    # very deep nesting (beyond any fixed-width depth bookkeeping: 31/32/33, 63..70, 127..130 containers)
    for dp in [30, 31, 32, 33, 62, 63, 64, 65, 66, 67, 68, 70, 127, 128, 129, 130][:ctx.scale(16, 16)]:
        for _ in range(ctx.scale(2, 6)):
            docs.append((chain(rng, dp), True))
    ctx.count("documents", len(docs))

    # ---- phase 1: the real parser on renderings (also ties docgen.flatten to the parser)
    inputs, pcases = [], []
    for d, rtable in docs:
        lay = rng.choice(docgen.LAYOUTS + [None, None, None])
        x = docgen.render(d, lay if lay is not None else random.Random(rng.random()))
        inputs.append((d, rtable, x))
        pcases.append("tt.parse\t%s" % hexs(x))
    impl, _ = ctx.correspond("parse", pcases, model=False, nontrivial=lambda c, i: i.startswith("ok") and (" A:" in i or " O:" in i))
    base = len(impl) - len(pcases)
    work = []
    flat_bad = 0
    for k, (d, rtable, x) in enumerate(inputs):
        o = impl[base + k]
        if not o.startswith("ok "):
            _fail(ctx, "docgen-parse", "a well-formed rendering does not parse: %r -> %s" % (x[:80], o), [pcases[k]], [o], "ok")
            continue
        tape = o.split(" ", 2)[2]
        if tape != docgen.flatten(d):
            flat_bad += 1           # C01's subject; here the actual tape is what gets written
        work.append((d, rtable, x, tape))
    ctx.count("flatten_mismatch", flat_bad)
    if flat_bad:
        ctx.notes.append("%d renderings parsed to a tape different from docgen.flatten (C01 territory); the real tape was used" % flat_bad)

    # ---- phase 2: write_tape, model vs implementation (release and debug), exact bytes + final state queries
    # >>> w_wr (wave 5): the extracted classifier K (WriterMix.k14_class) of every document, by identity
    from props import W5
    kcl = dict(zip([id(w[0]) for w in work], W5.kclasses(ctx, [w[0] for w in work], stream="kclass14")))
    k14 = lambda d: (kcl.get(id(d)) or (None, None, None, None))[3]      # k14p_class: K on the tape the real parser produces
    # <<< w_wr
    wcases, meta = [], []
    for (d, rtable, x, tape) in work:
        for cfg in cfgs(rng, 1):
            wcases.append("writer.tape\t%s\t%s\t%s" % (cfg, hexs(x), tape)); meta.append((d, rtable, x, tape, cfg))
    # exotic configurations: model/implementation comparison only
    for (d, rtable, x, tape) in work[:ctx.scale(600, 4000)]:
        cfg = "%d,%d,r" % (rng.choice([32, 9, 46, 0, 255, 10]), rng.choice([0, 1, 15, 16, 17, 31, 100, 255]))
        wcases.append("writer.tape\t%s\t%s\t%s" % (cfg, hexs(x), tape)); meta.append((d, None, x, tape, cfg))
    nt = lambda c, i: i.startswith("ok ") and (" A:" in c or " O:" in c or " OP:" in c)
    impl, _ = ctx.correspond("write_tape", wcases, nontrivial=nt)
    base = len(impl) - len(wcases)
    for k, c in enumerate(wcases):
        o = impl[base + k]
        if o in CRASH:
            _fail(ctx, "write-tape-crash", "write_tape crashed (%s) on a parsed tape" % o, [c], [o], "ok")
        elif not o.startswith("ok "):
            _fail(ctx, "write-tape-err", "write_tape on a parsed tape: %s" % o[:60], [c], [o], "ok")
        elif o.split(" ")[2] != "0.1":
            _fail(ctx, "write-tape-state-param-value" if k14(meta[k][0]) == 1 else "write-tape-state", "after write_tape of a complete document depth()/expecting_key() are %s, not 0/true" % o.split(" ")[2], [c], [o], "0.1")
    dcases = wcases[:ctx.scale(1500, 8000)]
    dcases = ["\t".join([p if j != 1 else p[:-1] + "d" for j, p in enumerate(c.split("\t"))]) for c in dcases]
    ctx.correspond("write_tape_debug", dcases, nontrivial=nt, profile="debug")

    # ---- phase 3: the property on the implementation: parse . write . parse = parse ; write . parse . write . parse = write . parse
    rcases, rmeta = [], []
    for m in meta:
        if m[1] is None:
            continue
        d, rtable, x, tape, cfg = m
        rcases.append("writer.rt\t%s\t%s" % (cfg, hexs(x))); rmeta.append(m)
    impl, _ = ctx.correspond("roundtrip", rcases, model=False, nontrivial=lambda c, i: "|t2=" in i and (" A:" in i or " O:" in i))
    base = len(impl) - len(rcases)
    for k, (d, rtable, x, tape, cfg) in enumerate(rmeta):
        o = impl[base + k]
        if o in CRASH:
            _fail(ctx, "rt-crash", "parse/write/parse crashed: %s" % o, [rcases[k]], [o]); continue
        r = parse_rt(o)
        if not rtable:
            ctx.count("not_roundtrippable_docs")
            continue
        # w_wr (wave 5): failures are classified by the extracted K (Props/C14_mixcont.v), not by ad-hoc matching:
        # class 0 (outside K: C14_mixcont_write_is_layout applies) or unclassifiable => a violation
        kc = k14(d)
        ctx.count("rt_class_%s" % kc)
        if r.get("t2") != r.get("t1") or "t1" not in r:
            key = "rt-param-value" if kc == 1 else ("rt-mixed-nested-op" if kc == 2 else ("rt-glued-bang" if has_glued_bang(d) else "rt-structure"))
            _fail(ctx, key, "write_tape(parse x) re-parses to a different tape (cfg %s): x=%r written=%r" % (cfg, x[:120], unhex(r.get("o1", "-"))[:160] if not r.get("o1", "").startswith("ERR") else r.get("o1")),
                     [rcases[k]], [o], "t2 = t1 = " + tape[:200])
        elif r.get("o2") != r.get("o1"):
            _fail(ctx, "rt-idempotent", "write . parse is not a fixed point (cfg %s): x=%r" % (cfg, x[:120]), [rcases[k]], [o], "o2 = o1")
        else:
            ctx.count("roundtrips_ok")
            if kc == 2 and tape == docgen.flatten(d):
                ctx.count("k14_class2_but_roundtrip_ok")      # K is meant to be exact: expected 0
    if not widen:
        probe_bom_key(ctx)
        probe_k14(ctx)
    # >>> a_wr (wave 4): reused writers, write_tape at depth, inner()/into_inner(), builder defaults
    from props import C14_reuse
    C14_reuse.run(ctx, _fail)
    # <<< a_wr
    # >>> s_wr (wave 6): size / boundary ladders, one dimension at a time (audit/C14.md "Size dimensions")
    if not widen:
        from props import C14_sizes
        C14_sizes.run(ctx, _fail)
    # <<< s_wr


def probe_bom_key(ctx):
    """known finding rt-bom-key (model-side witness C14_bom_key_refuted): replayed on the implementation every run"""
    case = "writer.rt\t32,2,r\t" + hexs(b" \xef\xbb\xbfabc=1")
    impl, _ = ctx.correspond("probe_bom_key", [case], model=False, nontrivial=lambda c, i: True)
    o = impl[-1]
    r = dict(p.split("=", 1) for p in o.split(" | ") if "=" in p)
    if r.get("t1") is not None and r.get("t2") != r.get("t1"):
        _fail(ctx, "rt-bom-key", "a first key starting with EF BB BF is stripped as a BOM when the written text is re-parsed: t1=%s t2=%s" % (r.get("t1"), r.get("t2")), [case], [o], "t2 = t1")


def probe_k14(ctx):
    """w_wr (wave 5): the witnesses of Props/C14_mixcont.v replayed on the implementation every run: the class-2 document
    fails (known finding), the two class-0 documents next to the boundary of K must round-trip"""
    D = docgen
    u = lambda b: D.S("u", b)
    docs = [
        (D.Doc([D.Field(u(b"a"), "=", D.Arr([u(b"1")], [D.Field(u(b"b"), "=", D.Obj([D.Field(u(b"c"), "<", u(b"d"))]))]))]), 2),
        (D.Doc([D.Field(u(b"a"), "=", D.Arr([u(b"1")], [D.Field(u(b"b"), "=", D.Obj([D.Field(u(b"x"), "=", D.Arr([u(b"2")])), D.Field(u(b"c"), "<", u(b"d"))]))]))]), 0),
        (D.Doc([D.Field(u(b"a"), "=", D.Arr([u(b"1")], [D.Field(u(b"b"), "=", D.Obj([D.Field(u(b"c"), "=", u(b"d"))])), D.Field(u(b"e"), "<", u(b"f")),
                                                         D.Field(u(b"g"), "=", D.Arr([u(b"2"), u(b"3")])), D.Field(u(b"h"), "=", u(b"i"))]))]), 0),
        # the flag is lost after `{x}`: the operator inside the SECOND container value is written by the object protocol
        (D.Doc([D.Field(u(b"a"), "=", D.Arr([u(b"1")], [D.Field(u(b"b"), "=", D.Arr([u(b"x")])), D.Field(u(b"c"), "=", D.Obj([D.Field(u(b"d"), "<", u(b"e")), D.Field(u(b"f"), "!=", u(b"g"))])),
                                                         D.Field(u(b"h"), ">=", D.Arr([u(b"2"), D.Arr([u(b"3")])], [D.Field(u(b"i"), "=", D.Obj([D.Field(u(b"j"), "=", u(b"k"))])), D.Field(u(b"l"), "==", u(b"m"))]))]))]), 0),
    ]
    # the dirty stretch ends at the FIRST closing brace whatever it closes: an empty container, an object
    docs.append((D.Doc([D.Field(u(b"a"), "=", D.Arr([u(b"1")], [D.Field(u(b"b"), "=", D.Obj([D.Field(u(b"x"), "=", D.Arr([])), D.Field(u(b"c"), "<", u(b"d"))]))]))]), 0))
    docs.append((D.Doc([D.Field(u(b"a"), "=", D.Arr([u(b"1")], [D.Field(u(b"b"), "=", D.Obj([D.Field(u(b"x"), "=", D.Obj([D.Field(u(b"p"), "=", u(b"q"))])), D.Field(u(b"c"), "<", u(b"d"))]))]))]), 0))
    # the parser re-inserts the marker after an empty / array-first container value: the flag is on again (k14p = 2, k14 = 0)
    docs.append((D.Doc([D.Field(u(b"a"), "=", D.Arr([u(b"1")], [D.Field(u(b"b"), "=", D.Arr([])), D.Field(u(b"e"), "=", D.Obj([D.Field(u(b"f"), "<", u(b"g"))]))]))]), 2))
    docs.append((D.Doc([D.Field(u(b"a"), "=", D.Arr([u(b"1")], [D.Field(u(b"b"), "=", D.Arr([D.Arr([u(b"2")])])), D.Field(u(b"e"), "=", D.Obj([D.Field(u(b"f"), "<", u(b"g"))]))]))]), 2))
    from props import W5
    cl = W5.kclasses(ctx, [d for d, _ in docs], stream="probe_k14")
    cases = ["writer.rt\t32,1,r\t" + hexs(D.render(d, "min")) for d, _ in docs]
    impl, _ = ctx.correspond("probe_k14", cases, model=False, nontrivial=lambda c, i: True)
    for k, (d, want) in enumerate(docs):
        o = impl[len(impl) - len(cases) + k]
        r = parse_rt(o)
        got = cl[k][3] if cl[k] else None
        if got != want:
            ctx.broken.append({"what": "classifier k14_class gives %s on the witness %d of Props/C14_mixcont.v (expected %d)" % (got, k, want)})
        ok = "t1" in r and r.get("t2") == r.get("t1") and r.get("o2") == r.get("o1")
        if want == 0 and not ok:
            _fail(ctx, "rt-structure", "a list with container values OUTSIDE the class K does not round-trip: %r" % D.render(d, "min"), [cases[k]], [o], "t2 = t1, o2 = o1")
        if want == 2 and not ok:
            _fail(ctx, "rt-mixed-nested-op", "known finding replayed: %r re-parses to a different tape" % D.render(d, "min"), [cases[k]], [o], "t2 = t1")


def search(ctx):
    ctx.rng = random.Random(ctx.seed + 1)
    run(ctx, widen=True)


CLAIM = {
    "text": "Coq theorems over a faithful Gallina model of text/writer.rs (9-state machine with the WRITE_STATE_NEXT table regenerated from the source, depth stack, line-terminator flag, mixed mode, 16-byte indent cache vs slow path, write_tape traversal over the DOM readers): the writer never panics on any call history, indentation is cache-independent for every indent char/factor, state queries are functions of the call prefix; the model is tied to the code by differential execution of write_tape (exact bytes + state queries, release and debug) on parsed renderings of generated documents, and the property's own oracles (parse(write(parse x)) = parse x, write-after-parse is a fixed point) are evaluated on the implementation with the real parser",
    "note": "Wave 4: Props/C14_reuse.v (C14_reuse_continues): a reused writer continues the document -- write_tape(t1); write_tape(t2) prints what write_tape(t1 ++ t2) prints and parses back to it; stream reuse + oracles reuse-bytes / reuse-reparse. Since Props/C14_reparse.v the re-parse clause is a theorem too: write_tape (flatten d) = render d' (layout_w cfg d) for the round-trippable grammar and every config, composed with C01_parse_render (C14_reparse, C14_idempotent); the exclusions are the recorded known findings. Trusted: Coq kernel, tools/gen_tables.py, extraction, the Rust harness.",
    "technique": "machine-checked proof in Coq over an executable model + model/implementation correspondence by extraction + round-trip oracles on the implementation",
}
