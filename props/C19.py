"""C19 Truncated documents never yield fabricated data (text tape here; binary / deserializer parts merged from props/C19_*.py when present)."""
from props import C19_text

RULE = ("generated documents x layouts cut at EVERY byte offset 0..len; oracle on the implementation: error, or a tape whose completed top-level "
        "items equal the original's (only the item being cut may differ) and whose scalars are prefixes of the originals in order. "
        "non-trivial = the truncated input was accepted with at least one token")
TRUSTED = []
ASSUMPTIONS = ["'consistent with the complete document' is decided by props/C19_text.py: completed top-level items equal, last two items (key/value being cut) free, scalars are prefixes"]


def run(ctx):
    C19_text.run_text(ctx)
    for name in ("C19_bin", "C19_de", "C19_lex"):
        try:
            m = __import__("props." + name, fromlist=["x"])
        except ImportError:
            continue
        m.run_part(ctx)
    # >>> a_c19 (wave 4): binary tape on every prefix; typed targets through every deserializer entry point; strict tape oracle,
    # directed document endings, DOM readers and json() of the truncated parse
    for name in ("C19_bintape", "C19_typed", "C19_view"):
        m = __import__("props." + name, fromlist=["x"])
        m.run_part(ctx)
    # <<< a_c19


def search(ctx):
    import random
    ctx.rng = random.Random(ctx.seed + 1)
    old = ctx.tier
    ctx.tier = "thorough"
    try:
        run(ctx)
    finally:
        ctx.tier = old


CLAIM = {
    "text": "Coq theorems over the tape parser models (prefix behaviour of the scanners, exit analysis of the main loop) plus correspondence and the truncation oracle on the implementation at every cut point of every generated document",
    "note": "Trusted: Coq kernel, translator, extraction, harness. Evidence lists the theorems proved; the rest is carried by correspondence + oracle.",
    "technique": "machine-checked proof in Coq over an executable model + model/implementation correspondence by extraction",
}
