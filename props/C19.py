"""C19 Truncated documents never yield fabricated data (text tape here; binary / deserializer parts merged from props/C19_*.py when present)."""
from props import C19_text

RULE = ("generated documents x layouts cut at EVERY byte offset 0..len; oracle on the implementation: error, or a tape whose completed top-level "
        "items equal the original's (only the item being cut may differ) and whose scalars are prefixes of the originals in order. "
        "non-trivial = the truncated input was accepted with at least one token. "
        # >>> a_c19 (wave 4)
        "wave 4: the same cut-at-every-offset sweep for (a) the binary TAPE parsers (bt.all: optimised, reference, from_slice) with field "
        "boundaries recorded by the document builder -- accepted only at a boundary (+1 byte), tape = first n expected tokens, every "
        "boundary accepted; (b) TYPED targets (dedoc shapes: struct with required / Option / collected / ignored fields, nested struct, "
        "seq, tuple, map) through text slice / tape / ObjectReader / reader x w1252 / utf8 and binary tape / on-demand / reader, judged by "
        "dedoc.expected on the abstract document cut after its n-th complete field; (c) the text tape against the literal transcription "
        "of TextTrunc.consistent_tape (one token free, auto-closed container must be an object) on directed documents ending in a parameter "
        "block / header / @[..] / comment without newline / behind a BOM; (d) DOM readers and json() of the truncated parse (c19.view)")
        # <<< a_c19
# >>> s_c19 (wave 6)
RULE = (RULE + " wave 6: size ladders 0..65536 (props/C19_sizes.py): item lengths, white space / comment runs, nesting depth 0..300 of each container "
        "kind, completed fields 0..65536, elements / fields inside the cut container 0..4097, cut positions around 2^16, reader buffer sizes 10..65536, "
        "binary string lengths 0..65535, ghosts 0..300, typed targets with fixed-arity tuples of arity 0..300, ignored containers of depth 0..300, "
        "structs of 0..300 fields, maps / sequences of 0..4097 entries; expectations by construction (byte span of every lexeme known to the builder)")
# <<< s_c19
TRUSTED = []
ASSUMPTIONS = ["'consistent with the complete document' is decided by props/C19_text.py: completed top-level items equal, last two items (key/value being cut) free, scalars are prefixes",
               # a_c19 (wave 4)
               "typed streams: a (document, path) pair whose result on the COMPLETE document is not dedoc.expected is left out (C02 / C04 own those findings); "
               "token-reader streams leave out documents where a quote is glued to a non-separator byte (`]\"q k\"` behind a parameter block: the token reader "
               "has no parameter syntax and reads a bare word there, C09's class); a text string cut inside a utf-8 character may end in U+FFFD"]


def run(ctx):
    C19_text.run_text(ctx)
    for name in ("C19_bin", "C19_de", "C19_lex"):
        try:
            m = __import__("props." + name, fromlist=["x"])
        except ImportError:
            continue
        m.run_part(ctx)
    # >>> a_c19 (wave 4): binary tape on every prefix; typed targets through every deserializer entry point; strict tape oracle,
    # directed document endings, DOM readers and json() of the truncated parse
    for name in ("C19_bintape", "C19_typed", "C19_view"):
        m = __import__("props." + name, fromlist=["x"])
        m.run_part(ctx)
    # <<< a_c19
    # >>> s_c19 (wave 6): size / boundary ladders (lengths, depths, counts, buffer sizes, tuple arities), one dimension at a time
    from props import C19_sizes
    C19_sizes.run_part(ctx)
    # <<< s_c19


def search(ctx):
    import random
    ctx.rng = random.Random(ctx.seed + 1)
    old = ctx.tier
    ctx.tier = "thorough"
    try:
        run(ctx)
    finally:
        ctx.tier = old


CLAIM = {
    "text": "Coq theorems over the tape parser models (prefix behaviour of the scanners, exit analysis of the main loop) plus correspondence and the truncation oracle on the implementation at every cut point of every generated document; wave 4: token-level theorems for the binary lexer / slice reader / streaming reader (Props/C19_lex.v) and model-independent oracles for the binary tape, typed deserialization through every entry point, DOM readers and json() of a truncated parse (audit/C19.md has the entry-point inventory)",
    "note": "Trusted: Coq kernel, translator, extraction, harness. Evidence lists the theorems proved; the rest is carried by correspondence + oracle.",
    "technique": "machine-checked proof in Coq over an executable model + model/implementation correspondence by extraction",
}
