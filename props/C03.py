"""C03 Binary tape mirrors the token stream; fast paths are unobservable."""
import struct, itertools
import vlib
from vlib import hexs, unhex
# >>> a_c03
import sys as _sys
from props import C03_mirror
# <<< a_c03

RULE = ("exhaustive sequences over the 14 token kinds (position-dependent canonical payloads) up to length 5 (quick) / 6 "
        "(thorough) from the top level and up to length 4 / 5 behind 12 contexts that open the fast paths (token/quoted/i32 key, "
        "'= {', primitive arrays, mixed containers); generated well-formed documents x key/value encodings with an independently "
        "computed expected tape; random token sequences; random byte strings over an id-heavy alphabet; every prefix and "
        "single-byte corruptions of documents; parse into a previously used tape; "
        # >>> a_c03
        "documents with mixed containers at any depth (array -> key-value list at the k-th element, object ending in bare values) "
        "with an expected tape by construction; chains of 2..6 parses into one tape alternating the two entry points; every input "
        "accepted in any of the streams re-run against the real Lexer's token sequence (bt.mir). "
        # <<< a_c03
        # s_c03 (wave 6)
        "size ladders 0 1 2 3 7 8 9 15..17 31..33 63..65 127..129 255..257 1023..1025 4095..4097 65536 (strings: 65533..65535) over one "
        "dimension at a time (run length of every element kind behind every kind of key, breaks of a run, fields, consecutive ghosts, "
        "nesting depth, mixed tails, string payload length, every token id in six positions, tape length vs capacity, used tape "
        "longer / shorter than the new parse, parses per tape up to 300) with an expected tape by construction, release and debug "
        "(model up to ~1600 input bytes and 1023..1025 on seven primary shapes; longer cases by the independent oracles only). "
        "non-trivial = at least one of the two parsers accepted the input, or the input has >= 3 tokens")
TRUSTED = ["Vec growth / copyless::VecHelper (push = snoc on a list)",
           "harness/src/fam_bintape.rs printing of BinaryToken and its structural checker",
           # a_c03
           "harness/src/fam_bintape.rs mod mirror (raw token stream through jomini::binary::Lexer, untape, the two list comparisons)",
           # s_c03
           "props/C03_ladder.py class TB (bytes and expected tape written side by side)"]
ASSUMPTIONS = ["the model parameter fx=false is the code as it is; fx=true (I64 excluded from the three id-class tests) is the repaired parser the unconditional theorem is about"]

PROFILES = ["release", "debug"]
KEY_B = "B-i64-key-fastpath"

# ------------------------------------------------------------------ token encodings
def u16(x): return struct.pack("<H", x)
def u32(x): return struct.pack("<I", x & 0xffffffff)
def u64(x): return struct.pack("<Q", x & 0xffffffffffffffff)

OPEN, CLOSE, EQUAL = u16(3), u16(4), u16(1)
TOKEN_ID = 0x2d82

KINDS = ["open", "close", "equal", "u32", "u64", "i32", "bool", "quoted", "unquoted", "f32", "f64", "rgb", "i64", "id"]


def enc(kind, n=0):
    """canonical encoding of the n-th token of a sequence (payload depends on the position only)"""
    if kind == "open": return OPEN
    if kind == "close": return CLOSE
    if kind == "equal": return EQUAL
    if kind == "u32": return u16(0x14) + u32(n + 1)
    if kind == "u64": return u16(0x29c) + u64(n + 1)
    if kind == "i32": return u16(0x0c) + u32(n + 1)
    if kind == "bool": return u16(0x0e) + bytes([n & 1])
    if kind == "quoted": return u16(0x0f) + u16(2) + bytes([0x61, 0x61 + n % 26])
    if kind == "unquoted": return u16(0x17) + u16(1) + bytes([0x41 + n % 26])
    if kind == "f32": return u16(0x0d) + u32(0x3f800000 + n)
    if kind == "f64": return u16(0x167) + u64(0x100 + n)
    if kind == "rgb": return u16(0x243) + OPEN + u16(0x14) + u32(n) + u16(0x14) + u32(2) + u16(0x14) + u32(3) + CLOSE
    if kind == "i64": return u16(0x317) + u64(n + 1)
    if kind == "id": return u16(TOKEN_ID + n)
    if kind == "idb": return u16(0x0b)
    raise ValueError(kind)


def enc_seq(kinds, start=0):
    return b"".join(enc(k, start + i) for i, k in enumerate(kinds))


CONTEXTS = [
    ["id", "equal", "open"],                                   # token key, '= {': array macro entry
    ["id", "equal", "open", "i32", "i32"],                     # inside an i32 run
    ["id", "equal", "open", "quoted", "quoted"],
    ["id", "equal", "open", "f32"],
    ["id", "equal", "open", "id"],                             # token first element
    ["id", "equal", "open", "id", "equal"],
    ["quoted", "equal", "open"],                               # quoted key
    ["quoted", "equal", "open", "id", "equal"],
    ["i32", "equal"],                                          # i32 key
    ["id", "equal", "open", "u32", "u32"],                     # plain array (ArrayValue, no macro)
    ["id", "equal", "open", "id", "equal", "u32", "u32"],      # object, key / separator position
    ["id", "equal", "open", "open", "close"],                  # only_empties candidates
]


# ------------------------------------------------------------------ documents with an expected tape
class Doc:
    def __init__(self, rng):
        self.rng = rng
        self.out = bytearray()
        self.toks = []          # flat expected tokens; containers as ["A"/"O", None] patched at close
        self.n = 0

    def tok(self, s):
        self.toks.append(s)

    def scalar(self, kind, pos="key"):
        r = self.rng
        self.n += 1
        if kind == "u32":
            v = r.choice([0, 1, 0xffffffff, r.randrange(1 << 32)]); self.out += u16(0x14) + u32(v); self.tok("U32:%d" % v)
        elif kind == "u64":
            v = r.choice([0, (1 << 64) - 1, r.randrange(1 << 64)]); self.out += u16(0x29c) + u64(v); self.tok("U64:%d" % v)
        elif kind == "i32":
            v = r.choice([0, -1, 2147483647, -2147483648, r.randrange(-1 << 31, 1 << 31)]); self.out += u16(0x0c) + u32(v); self.tok("I32:%d" % v)
        elif kind == "i64":
            v = r.choice([0, -1, (1 << 63) - 1, -(1 << 63), r.randrange(-1 << 63, 1 << 63)]); self.out += u16(0x317) + u64(v); self.tok("I64:%d" % v)
        elif kind == "bool":
            b = r.choice([0, 1, 2, 255]); self.out += u16(0x0e) + bytes([b]); self.tok("B:%d" % (1 if b else 0))
        elif kind in ("quoted", "unquoted"):
            ln = r.choice([0, 1, 2, 3, 5, 9, 17])
            s = bytes(r.choice([1, 3, 4, 0x0c, 0x0f, 0x17, 0x41, 0x61, 0, 0xff, 0x14]) for _ in range(ln))
            self.out += u16(0x0f if kind == "quoted" else 0x17) + u16(ln) + s
            self.tok(("Q:" if kind == "quoted" else "U:") + hexs(s))
        elif kind == "f32":
            s = bytes(r.randrange(256) for _ in range(4)); self.out += u16(0x0d) + s; self.tok("F32:" + s.hex())
        elif kind == "f64":
            s = bytes(r.randrange(256) for _ in range(8)); self.out += u16(0x167) + s; self.tok("F64:" + s.hex())
        elif kind == "id":
            while True:
                v = r.choice([0x0b, 0x18, 0xffff, 0x243, 0x2d82, 0x100, r.randrange(0x18, 0x10000), r.randrange(0x10000)])
                # the RGB id in value position of an object announces an rgb block
                if v not in (1, 3, 4, 0x14, 0x29c, 0x0c, 0x0e, 0x0f, 0x17, 0x0d, 0x167, 0x317) and not (v == 0x243 and pos == "val"):
                    break
            self.out += u16(v); self.tok("T:%d" % v)
        elif kind == "rgb":
            cs = [r.randrange(256) for _ in range(3)]
            a = r.choice([None, None, r.randrange(256)])
            self.out += u16(0x243) + OPEN + b"".join(u16(0x14) + u32(c) for c in cs)
            if a is not None:
                self.out += u16(0x14) + u32(a)
            self.out += CLOSE
            self.tok("RGB:%d,%d,%d,%s" % (cs[0], cs[1], cs[2], "-" if a is None else str(a)))
        else:
            raise ValueError(kind)

    KEYK = ["id"] * 8 + ["quoted"] * 4 + ["i32"] * 3 + ["unquoted", "u32", "u64", "i64", "f32", "f64", "bool"]
    VALK = ["i32"] * 4 + ["quoted"] * 3 + ["f32"] * 2 + ["id", "id", "u32", "u64", "i64", "bool", "unquoted", "f64", "rgb"]
    ELEMK = ["i32"] * 4 + ["quoted"] * 3 + ["f32"] * 3 + ["id", "id", "u32", "u64", "i64", "bool", "unquoted", "f64"]

    def open(self):
        self.out += OPEN
        self.toks.append(["A", None])
        return len(self.toks) - 1

    def close(self, ind, obj):
        self.out += CLOSE
        self.toks[ind] = "%s:%d" % ("O" if obj else "A", len(self.toks))
        self.toks.append("E:%d" % ind)

    def ghost(self):
        self.out += OPEN + CLOSE

    def value(self, depth, in_object):
        r = self.rng
        x = r.random()
        if depth <= 0 or x < 0.55:
            ks = self.VALK if in_object else self.ELEMK
            self.scalar(r.choice(ks), "val" if in_object else "elem")
        elif x < 0.78:
            self.array(depth - 1)
        else:
            self.object(depth - 1)

    def array(self, depth):
        r = self.rng
        ind = self.open()
        n = r.choice([0, 0, 1, 2, 3, 5, 8])
        shape = r.random()
        if shape < 0.5 and n:
            k = r.choice(["i32", "quoted", "f32", "id", "u32", "i64"])
            for i in range(n):
                # a homogeneous run, sometimes interrupted by another kind or a container
                if r.random() < 0.12:
                    self.value(depth, False)
                else:
                    self.scalar(k, "elem")
        else:
            for i in range(n):
                self.value(depth, False)
        # an array whose second token is '=' would be an object: a first scalar followed by '=' never occurs here
        self.close(ind, False)

    def fields(self, depth, n, allow_ghost):
        r = self.rng
        for i in range(n):
            if allow_ghost and r.random() < 0.1:
                for _ in range(r.choice([1, 1, 1, 2, 3, 9, 20])):
                    self.ghost()
            self.scalar(r.choice(self.KEYK))
            self.out += EQUAL
            self.value(depth, True)
            allow_ghost = True
        if allow_ghost and r.random() < 0.05:
            self.ghost()

    def object(self, depth):
        r = self.rng
        ind = self.open()
        n = r.choice([1, 1, 2, 3, 5])
        # `{ {} {} k=v }`: leading empties are dropped once the '=' shows the container is an object
        lead = r.random() < 0.12
        if lead:
            # any number of leading empties is dropped (no cap): short runs and runs beyond every plausible small limit
            for _ in range(r.choice([1, 2, 3, 1, 2, 7, 8, 9, 10, 16, 17, 33, 64])):
                self.ghost()
        self.fields(depth, n, False)
        self.close(ind, True)

    def build(self, depth):
        self.fields(depth, self.rng.choice([1, 2, 3, 4, 6]), False)
        return bytes(self.out), "OK " + " ".join(self.toks)


def gen_doc(rng, depth=None):
    d = Doc(rng)
    return d.build(rng.choice([0, 1, 2, 3, 4]) if depth is None else depth)


# ------------------------------------------------------------------ result handling
def split_all(line):
    """'opt=.. | ref=.. | wf=xy' -> (opt, ref, wf) or None"""
    p = line.split(" | ")
    if len(p) != 3 or not p[0].startswith("opt=") or not p[1].startswith("ref=") or not p[2].startswith("wf="):
        return None
    return p[0][4:], p[1][4:], p[2][3:]


def nontrivial(case, out):
    s = split_all(out)
    return bool(s and (s[0] != "ERR" or s[1] != "ERR")) or len(case) > 40


class Judge:
    """collects oracle failures of one run, one ctx.fail per class (shortest input first)"""
    def __init__(self, ctx, wf_only=False):
        self.ctx = ctx
        self.wf_only = wf_only
        self.cand = {}     # key -> list of (len, what, case, impl, expect)
        self.accepted = []   # a_c03: hex inputs that at least one parser accepted (for the mirror oracle)

    def add(self, key, what, case, impl, expect=None):
        l = self.cand.setdefault(key, [])
        if len(l) < 400:
            l.append((len(case), what, case, impl, expect))
        self.ctx.count("oracle_fail:" + key)

    def corpus_lines(self, stream):
        import os
        p = os.path.join(vlib.ROOT, "corpus", self.ctx.pid, stream + ".case")
        if not os.path.exists(p):
            return []
        return [l.rstrip("\n") for l in open(p) if l.strip() and not l.startswith("#")]

    def check(self, cases, impl, model, stream=None):
        base = len(impl) - len(cases)
        pending = []
        pre = self.corpus_lines(stream) if stream and base else []
        for k in range(len(impl)):
            o = impl[k]
            c = cases[k - base] if k >= base else (pre[k] if k < len(pre) else "bt.all\t-")
            s = split_all(o)
            if s is None:
                self.add("crash", "binary tape parser: %s" % o[:80], c, o, "opt=.. | ref=.. | wf=..")
                continue
            opt, ref, wf = s
            # >>> a_c03
            if (opt != "ERR" or ref != "ERR") and k >= base:
                self.accepted.append(c.split("\t")[-1])
            # <<< a_c03
            if "n" in wf or "p" in wf:
                self.add("tape-not-wf", "accepted tape is not structurally sound (wf=%s: n = links/nesting, p = payload outside input)" % wf, c, o, "wf=y")
            if not self.wf_only and opt != ref:
                pending.append((c, o, model[k] if k < len(model) else None, ref))
        if pending:
            fx = vlib.run_model(["bt.fixed\t" + (p[0].split("\t")[-1]) for p in pending])
            for (c, o, m, ref), f in zip(pending, fx):
                if m == o and f == ref:
                    self.add(KEY_B, "optimised parser differs from the reference only through the I64 id (0x0317) passing a `> UNQUOTED` id-class test of the key fast path", c, o, "opt = ref")
                else:
                    self.add("opt-ne-ref", "optimised and reference binary tape parsers disagree", c, o, "opt = ref")

    def flush(self):
        for key, l in sorted(self.cand.items()):
            l.sort(key=lambda t: (t[0], t[2]))
            for (_, what, case, impl, expect) in l[:3]:
                self.ctx.fail(key, what + " on " + case.replace("\t", " ")[:200], [case], [impl], expect)


def exhaustive(maxlen, prefix=(), minlen=0, suffixes=((),)):
    pre = enc_seq(prefix)
    for n in range(minlen, maxlen + 1):
        for seq in itertools.product(KINDS, repeat=n):
            body = pre + enc_seq(seq, len(prefix))
            for suf in suffixes:
                yield "bt.all\t" + hexs(body + enc_seq(suf, len(prefix) + n))


def stream(ctx, judge, name, cases, batch=400000):
    """run a (possibly huge) case stream in batches"""
    buf = []
    def go():
        impl, model = ctx.correspond(name, buf, nontrivial=nontrivial)
        judge.check(buf, impl, model, name)
    for c in cases:
        buf.append(c)
        if len(buf) >= batch:
            go(); buf = []
    if buf or True:
        go()


ALPHA = [0x00, 0x01, 0x03, 0x04, 0x0b, 0x0c, 0x0d, 0x0e, 0x0f, 0x14, 0x17, 0x02, 0x43, 0x67, 0x9c, 0x18, 0x2d, 0x82, 0xff]


def random_tokens(rng, n):
    """a random walk that mostly follows the grammar (key = value, containers balanced) but errs on purpose"""
    out = []
    depth = 0
    i = 0
    while i < n:
        x = rng.random()
        if x < 0.07:
            k = rng.choice(KINDS + ["idb"])
        elif x < 0.17 and depth > 0:
            k = "close"; depth -= 1
        elif x < 0.30:
            k = "open"; depth += 1
        elif x < 0.48:
            k = "equal"
        else:
            k = rng.choice(["id", "id", "id", "i32", "i32", "quoted", "quoted", "f32", "u32", "bool", "i64", "u64", "f64", "unquoted", "idb", "rgb"])
        out.append(k); i += 1
    if rng.random() < 0.7:
        out += ["close"] * depth
    return out


def gen_streams(ctx, judge, sizes):
    rng = ctx.rng
    L0, L1, ndocs, nrand, nbytes = sizes
    # 1. exhaustive from the top level
    stream(ctx, judge, "seq_top", exhaustive(L0))
    ctx.count("seq_top_maxlen", L0)
    # 2. exhaustive behind the contexts, with 0..2 closing brackets appended
    for ci, pre in enumerate(CONTEXTS):
        stream(ctx, judge, "seq_ctx", exhaustive(L1, prefix=pre, suffixes=((), ("close",), ("close", "close"))))
    ctx.count("seq_ctx_maxlen", L1)
    # 2b. ghost stress: every short body over {`{}`, `{`, `}`, `=`, id, i32, quoted} inside `id = { ... }` --
    #     clusters of empty containers next to '=' are where the "only empties" / mixed-container code lives.
    #     Independent oracle: an accepted tape keeps every container except empty `{}` pairs (ghosts).
    import itertools
    ALPH = [("open", "close"), ("open",), ("close",), ("equal",), ("id",), ("i32",), ("quoted",)]
    gl = 5 if L0 <= 4 else 6
    gcases, gmeta = [], []
    for L in range(1, gl + 1):
        for combo in itertools.product(ALPH, repeat=L):
            kinds = ("id", "equal", "open") + tuple(k for part in combo for k in part) + ("close",)
            gcases.append("bt.all\t" + hexs(enc_seq(kinds)))
            n_open = kinds.count("open")
            n_ghost = sum(1 for i in range(len(kinds) - 1) if kinds[i] == "open" and kinds[i + 1] == "close")
            gmeta.append(n_open - n_ghost)
    impl, model = ctx.correspond("ghost_stress", gcases, nontrivial=nontrivial)
    judge.check(gcases, impl, model, "ghost_stress")
    gb = len(impl) - len(gcases)
    for k, need_c in enumerate(gmeta):
        sp = split_all(impl[gb + k])
        if not sp:
            continue
        for which, res in (("optimised", sp[0]), ("reference", sp[1])):
            if res.startswith("OK"):
                have = sum(1 for t in res.split(" ")[1:] if t[:2] in ("A:", "O:"))
                if have < need_c:
                    judge.add("container-dropped", "%s parser accepted the input but its tape has %d containers where the token stream opens %d non-empty ones" % (which, have, need_c), gcases[k], impl[gb + k], ">= %d containers" % need_c)
    ctx.count("ghost_stress_maxlen", gl)
    # 3. documents with an independent expected tape
    docs = [gen_doc(rng) for _ in range(ndocs)]
    cases = ["bt.all\t" + hexs(b) for b, _ in docs]
    impl, model = ctx.correspond("docs", cases, nontrivial=nontrivial)
    judge.check(cases, impl, model, "docs")
    base = len(impl) - len(cases)
    if not judge.wf_only:
        for k, (b, exp) in enumerate(docs):
            s = split_all(impl[base + k])
            if s and s[1].strip() != exp.strip():
                judge.add("ref-not-faithful", "reference parse of a well-formed token stream is not the stream's tape", cases[k], impl[base + k], exp)
            ctx.count("doc_bytes_%d" % min(9, len(b) // 50))
    # 4. prefixes / corruptions of documents
    cases = []
    for b, _ in docs[: max(20, ndocs // 20)]:
        for cut in range(0, len(b), 1 if len(b) < 120 else 3):
            cases.append("bt.all\t" + hexs(b[:cut]))
        for _ in range(30):
            m = bytearray(b)
            p = rng.randrange(len(m))
            m[p] = rng.choice(ALPHA)
            cases.append("bt.all\t" + hexs(bytes(m)))
        for _ in range(10):
            p = rng.randrange(0, len(b) + 1, 2)
            ins = enc(rng.choice(KINDS + ["idb"]), rng.randrange(5))
            cases.append("bt.all\t" + hexs(b[:p] + ins + b[p:]))
    impl, model = ctx.correspond("doc_mutations", cases, nontrivial=nontrivial)
    judge.check(cases, impl, model, "doc_mutations")
    # 5. random token walks
    cases = ["bt.all\t" + hexs(enc_seq(random_tokens(rng, rng.choice([3, 6, 9, 14, 25, 40])))) for _ in range(nrand)]
    impl, model = ctx.correspond("random_tokens", cases, nontrivial=nontrivial)
    judge.check(cases, impl, model, "random_tokens")
    # 6. random byte strings over an id-heavy alphabet
    cases = []
    for _ in range(nbytes):
        n = rng.choice([1, 2, 3, 4, 6, 8, 10, 14, 20, 33])
        if rng.random() < 0.8:
            cases.append("bt.all\t" + hexs(bytes(rng.choice(ALPHA) for _ in range(n))))
        else:
            cases.append("bt.all\t" + hexs(bytes(rng.randrange(256) for _ in range(n))))
    impl, model = ctx.correspond("random_bytes", cases, nontrivial=nontrivial)
    judge.check(cases, impl, model, "random_bytes")
    # 6b. the same kind of input against the debug build (overflow checks, debug_assert! in set_parent_to_object / mixed_insert)
    if "debug" in PROFILES and not judge.wf_only:
        cases = ["bt.all\t" + hexs(enc_seq(random_tokens(rng, rng.choice([3, 6, 9, 14, 25])))) for _ in range(max(2000, nrand // 5))]
        cases += ["bt.all\t" + hexs(b) for b, _ in docs[:500]]
        impl, model = ctx.correspond("debug_profile", cases, nontrivial=nontrivial, profile="debug")
        judge.check(cases, impl, model, "debug_profile")
    # 7. parse into a previously used tape
    pool = [b for b, _ in docs[:300]] + [enc_seq(random_tokens(rng, 8)) for _ in range(200)]
    cases = ["bt.reuse\t%s\t%s" % (hexs(rng.choice(pool)), hexs(rng.choice(pool))) for _ in range(max(500, ndocs // 2))]
    impl, model = ctx.correspond("reuse", cases, nontrivial=nontrivial)
    judge.check(cases, impl, model, "reuse")
    # >>> a_c03
    if not judge.wf_only:
        me = _sys.modules[__name__]
        # 8. documents with mixed containers at any depth and their expected tape (classification, markers)
        mdocs = C03_mirror.run_mixed_docs(ctx, judge, me, max(1500, ndocs // 2))
        # 9. chains of parses into one tape, alternating the two entry points
        C03_mirror.run_chain(ctx, judge, pool + [b for b, _ in mdocs[:300]] + [b"", b"\x03\x00"], max(600, ndocs // 3))
        # 10. every accepted input of every stream above: the real tape against the real Lexer's token sequence
        C03_mirror.run_mirror(ctx, judge, judge.accepted, extra=[hexs(C03_mirror.witness_L(enc, EQUAL, OPEN, CLOSE))])
    # <<< a_c03
        # >>> s_c03 (wave 6)
        # 11. size ladders: one size-like dimension at a time up to 65536 (run lengths, fields, ghosts, depth, mixed tails,
        #     string lengths up to 65535, every token id, tape length vs capacity, used tapes longer / shorter), expected tape
        #     by construction, release and debug
        from props import C03_ladder
        C03_ladder.run_ladders(ctx, judge, me)
        # <<< s_c03


def run(ctx):
    judge = Judge(ctx)
    # the design's witness of finding B and the Coq witness of C03_fast_eq_ref_refuted, replayed every run
    wit = ["bt.all\t" + hexs(enc("i64", 0) + EQUAL + enc("i32", 0))]
    impl, model = ctx.correspond("witness_B", wit, nontrivial=nontrivial)
    judge.check(wit, impl, model, "witness_B")
    gen_streams(ctx, judge, ctx.scale((5, 4, 3000, 20000, 20000), (6, 4, 30000, 200000, 200000)))
    judge.flush()


def search(ctx):
    import random
    ctx.rng = random.Random(ctx.seed + 1)
    judge = Judge(ctx)
    gen_streams(ctx, judge, (4, 4, 20000, 100000, 100000))
    judge.flush()


CLAIM = {
    "text": "Coq theorems over a faithful Gallina model of BinaryTapeParser::parse::<ENABLE_OPTIMIZATION> (one definition with the const generic as a boolean; ParseState discriminants and LexemeId constants regenerated from the source each run): the optimised and the reference interpretation produce the same observation (tape or rejection) for ALL byte strings once the I64 id is excluded from the three id-class tests (model parameter fx), the unchanged code is refuted by a vm_compute witness (known finding B), and both interpretations only produce structurally sound tapes; model tied to the code by differential execution on exhaustive token sequences, documents, mutations and random bytes; oracles on the implementation: optimised = reference, reference = independently computed expected tape, structural checker on the real tapes; (wave 4) every accepted tape is a subsequence of the lexer's token sequence of the same bytes (theorem, unconditional) and equals it up to inserted `{}` pairs (theorem, unconditional since the fix for finding L: the only_empties test ignored an odd trailing token and dropped a value; the former witness is a regression example), checked on every accepted input of every stream with the real Lexer; mixed-container documents with expected tapes; used-tape chains across both entry points",
    "technique": "machine-checked proof in Coq over an executable model + model/implementation correspondence by extraction",
}
