"""C17 DOM iterators, lengths and groupings agree with each other."""
import re
from vlib import hexs, unhex

PROFILES = ["release", "debug"]

RULE = ("documents: generated Clausewitz text (nested objects/arrays, duplicate keys from a small pool, all 8 operators, "
        "headers, parameter blocks, mixed containers in both directions, empty {} ghosts, quoted/escaped/non-ASCII scalars, "
        "missing closing bracket, varied layout), one-byte mutations of them, and random strings over the significant "
        "alphabet; every input the real parser accepts is used. For each tape: the well-formedness checker of the model, "
        "then EVERY container/header token and the top level, with both encodings: fields_len, size hints, fields, "
        "remainder, field groups, read_object/read_array/read_scalar/read_str, values, len, tokens_len. "
        "non-trivial = the node has at least one field or value. "
        "Wave 4 (props/C17_iter.py): wide objects (12..32 fields over 2..6 keys) and deep documents (nesting 5..8); streams iter / leaf: "
        "FieldsIter, FieldGroupsIter and ValuesIter observed before the first and after EVERY next() (size hints, remainder()), fusedness, "
        "and token / tokens_len / read_scalar / read_str / read_string / read_object / read_array / Reader enum / ValueReader::decode "
        "on every value a node yields, whatever its token kind; oracles from the tape string alone")
TRUSTED = [  # note: TapeWf.tape_wf of every parsed tape is now a theorem (Props/C17_parser.v)
"HashMap<&[u8],Vec<_>> of FieldGroupsIter is modelled as an association list keyed by raw bytes (std HashMap trusted)",
           "Encoding::decode is a parameter of the model; the executable instances (Json.decode_w1252 / decode_utf8, incl. "
           "from_utf8_lossy) are stand-ins exercised by correspondence, verified by the C12 family",
           "the text parser itself: theorems assume TapeWf.tape_wf, whose boolean checker is run on every real tape (stream wf)"]
ASSUMPTIONS = ["tapes come from TextTape::parse (tape_wf); hand-made token lists are outside the property"]

KEYS = [b"a", b"b", b"c", b"name", b"core", b"10", b"unit", b"x"]
OPS = [b"=", b"=", b"=", b"=", b"<", b"<=", b">", b">=", b"!=", b"==", b"?=", b""]
SCALARS = [b"1", b"2", b"10", b"-5", b"yes", b"no", b"1.5", b"-0.0", b"0.25", b"abc", b"foo_bar", b"1444.11.11",
           b"18446744073709547616", b"-90071992547409097", b"9007199254740991", b"9007199254740992", b"9223372036854775808",
           b"18446744073709551615", b"18446744073709551616", b"+", b"-", b"-+5", b"+7", b".5", b"-.5", b"1.", b"0.1234567890123456789",
           b"1.00125", b"20405029553322.015", b"0.00000000000000000000001", b"0.0000000000000000000001", b"-9223372036854775808",
           b"Yes", b"YES", b"No", b"NO", b"y", b"n", b"true", b"false", b"yes1", b"h\xe9llo", b"\xc3\xa9t\xc3\xa9", b"\xff\xfe", b"\xe2\x82", b"@var", b"@[1+2]", b"$add$", b"a.b.c", b"007", b"1e5", b"-1.50000"]
QUOTED = [b'""', b'"x"', b'"no"', b'"No"', b'"-5"', b'"18446744073709551615"', b'"hello world"', b'"yes"', b'"01"', b'"a\\"b"', b'"tr\xe9s "', b'"back\\\\slash"', b'"1.5"', b'"line\nbreak"',
          b'"tab\t"', b'"\xc3\xa9"', b'"\xed\xa0\x80"', b'"ctl\x01\x1f"', b'"{}=#"', b'"remainder"', b'"type"',
          b'" lead"', b'"\ttab lead "', b'" "']   # a_dom (wave 4): leading / only whitespace inside quotes
HEADERS = [b"rgb", b"hsv", b"hsv360", b"LIST", b"list"]
ALPHABET = b'{}=<>!?"\\#[]@ \n\t;a1b2.-+yesno'


LONG_KEYS = [b"k" * n for n in (15, 16, 17, 31, 32, 33, 63, 64, 65)] + [b"province_modifier_" + b"x" * 20, b"province_modifier_" + b"x" * 19 + b"y",
             b"a_very_long_key_name_that_goes_past_thirty_two_bytes", b"a_very_long_key_name_that_goes_past_thirty_two_bytez"]


class Gen:
    def __init__(self, rng):
        self.rng = rng

    def ws(self):
        r = self.rng.random()
        if r < 0.7:
            return b" "
        if r < 0.8:
            return b"\n"
        if r < 0.85:
            return b"\t"
        if r < 0.9:
            return b"  "
        if r < 0.95:
            return b" #c\n"
        return b" ; "

    def scalar(self):
        r = self.rng.random()
        if r < 0.65:
            return self.rng.choice(SCALARS)
        if r < 0.9:
            return self.rng.choice(QUOTED)
        return str(self.rng.randrange(-2000, 200000)).encode()

    def key(self):
        r = self.rng.random()
        if r < 0.07:
            # long keys (around and beyond 16 / 32 / 64 bytes) from a small pool, so that they repeat inside one object at
            # different offsets (and alignments) of the input: grouping is by the raw key bytes, wherever they sit
            return self.rng.choice(LONG_KEYS)
        if r < 0.75:
            return self.rng.choice(KEYS)
        if r < 0.85:
            return self.rng.choice(QUOTED[1:6])
        return self.rng.choice(SCALARS[:12] + [b"@v"])

    def value(self, depth):
        r = self.rng.random()
        if depth <= 0 or r < 0.45:
            return self.scalar()
        if r < 0.60:
            return b"{" + self.ws() + self.fields(depth - 1, self.rng.randrange(0, 5)) + b"}"
        if r < 0.72:
            return b"{" + self.ws() + self.values(depth - 1, self.rng.randrange(0, 5)) + b"}"
        if r < 0.80:
            return self.rng.choice(HEADERS) + self.rng.choice([b" ", b""]) + b"{" + self.ws() + \
                (self.values(depth - 1, self.rng.randrange(0, 4)) if self.rng.random() < 0.7 else self.fields(depth - 1, self.rng.randrange(1, 3))) + b"}"
        if r < 0.88:    # object that turns into an array
            return b"{" + self.ws() + self.fields(depth - 1, self.rng.randrange(1, 4)) + self.values(depth - 1, self.rng.randrange(1, 4)) + \
                (self.fields(depth - 1, self.rng.randrange(0, 3)) if self.rng.random() < 0.4 else b"") + b"}"
        if r < 0.94:    # array that turns into key-value pairs
            return b"{" + self.ws() + self.values(0, self.rng.randrange(1, 3)) + self.fields(depth - 1, self.rng.randrange(1, 3)) + \
                (self.values(depth - 1, self.rng.randrange(0, 3)) if self.rng.random() < 0.5 else b"") + b"}"
        if r < 0.97:    # parameter blocks
            out = b"{" + self.ws()
            for _ in range(self.rng.randrange(1, 3)):
                nm = self.rng.choice([b"p", b"scaled_skill", b"a"])
                bang = b"!" if self.rng.random() < 0.4 else b""
                if self.rng.random() < 0.5:
                    out += b"[[" + bang + nm + b"]" + self.ws() + self.fields(0, self.rng.randrange(1, 3)) + b"]" + self.ws()
                else:
                    out += b"[[" + bang + nm + b"] " + self.rng.choice([b"$add$", b"v", b"1"]) + b" ]" + self.ws()
            if self.rng.random() < 0.5:
                out += self.fields(depth - 1, self.rng.randrange(0, 3))
            return out + b"}"
        return b"{" + self.ws() + b"{}" + self.ws() + self.values(depth - 1, self.rng.randrange(0, 3)) + b"}"

    def fields(self, depth, n):
        out = b""
        for _ in range(n):
            k = self.key()
            v = self.value(depth)
            op = self.rng.choice(OPS)
            if op == b"" and not v.startswith(b"{"):
                op = b"="
            sp = self.rng.choice([b"", b" "])
            out += k + sp + op + sp + v + self.ws()
            if self.rng.random() < 0.05:
                out += b"{}" + self.ws()
        return out

    def values(self, depth, n):
        out = b""
        for _ in range(n):
            out += self.value(depth) + self.ws()
        return out

    def document(self):
        d = self.fields(self.rng.randrange(0, 4), self.rng.randrange(0, 6))
        r = self.rng.random()
        if r < 0.06:      # one missing closing bracket at the end
            d += self.key() + b"={" + self.fields(1, self.rng.randrange(0, 3))
        elif r < 0.10:
            d = b"\xef\xbb\xbf" + d
        elif r < 0.13:
            d += b"}"
        return d

    def mutate(self, d):
        if not d:
            return d
        b = bytearray(d)
        for _ in range(self.rng.randrange(1, 3)):
            p = self.rng.randrange(len(b))
            r = self.rng.random()
            if r < 0.4:
                b[p] = self.rng.choice(ALPHABET)
            elif r < 0.7:
                del b[p]
                if not b:
                    break
            elif r < 0.9:
                b.insert(p, self.rng.choice(ALPHABET))
            else:
                b[p] ^= 1 << self.rng.randrange(8)
        return bytes(b)

    def noise(self):
        n = self.rng.randrange(1, 24)
        return bytes(self.rng.choice(ALPHABET) for _ in range(n))


FIXED = [b"", b"a=b", b"foo=bar", b"name=aaa name=bbb core=123 core=456 name=ccc name=ddd", b"levels={10 0=1 0=2}",
         b"brittany_area = { #5\n color = { 118  99  151 }\n 169 170 171 172 4384\n}", b"levels={a=b 10 c=d 20}",
         b"active_idea_groups={ }", b"color = rgb { 10 20 30 }", b"a=r{}", b"a{b=}", b"a{}b>{}", b"a{b=c d=E d}", b"a{}b>r{}",
         b"a{b=c d b}", b"a={b{}=2}", b"r={c=d=@{y=u}", b"a={{t c=d = b}}", b"a={{ b c == == = d e=f}}", b"a={10 b=c {} d=e}",
         b"a b {} c=d", b"a={b=c 10 {} d=e}", b"a = { b = c 10 { } d = e }", b"a > rgb {1}", b"a={ [[x] y ] [[!z] k=v ] }",
         b"generate_advisor = { [[scaled_skill] a=b ] [[!scaled_skill] c=d ]  }", b"foo = { [[add] $add$]}", b"a={b=c",
         b"a = b {} { c }", b"on_actions = {\n a\n delay = { days = { 5 10 }}\n b\n delay = { days = { 15 20 }}\n c\n}",
         b"x={a=b 10 c=d 20}", b"a = { 1 rgb { 2 } }", b"a = { b = 1 c rgb { 2 } }", b"a = { b=1 2 3 c = rgb { 1 } }",
         b"a = { b=1 2 3 {} c = rgb { 1 } }", b"m = { a b=c d }", b"m = { a b=c = }", b"m = { a = b c < }", b"@a=1 b=@[a+1]", b"a=b}", b"a={b=1} }"]


def gen_docs(ctx, n_struct, n_mut, n_noise):
    """deterministic list of candidate documents (bytes)"""
    g = Gen(ctx.rng)
    docs = list(FIXED)
    base = []
    for _ in range(n_struct):
        d = g.document()
        base.append(d)
        docs.append(d)
    for _ in range(n_mut):
        docs.append(g.mutate(ctx.rng.choice(base + FIXED)))
    for _ in range(n_noise):
        docs.append(g.noise())
    seen, out = set(), []
    for d in docs:
        if d not in seen and len(d) < 600:
            seen.add(d)
            out.append(d)
    return out


def parse_docs(ctx, docs, stream="parse"):
    """phase 1: the real parser's tapes.  Returns [(doc, tape_string, tokens)] for accepted documents."""
    cases = ["tt.parse\t%s" % hexs(d) for d in docs]
    impl, _ = ctx.correspond(stream, cases, model=False, nontrivial=lambda c, i: i.startswith("ok"))
    base = len(impl) - len(cases)
    out = []
    for k, d in enumerate(docs):
        o = impl[base + k]
        if o in ("PANIC", "ABORT", "HANG"):
            ctx.fail("parse-crash", "TextTape::from_slice(%r) = %s" % (d, o), [cases[k]], [o], "Ok/Err")
            continue
        if not o.startswith("ok "):
            ctx.count("rejected")
            continue
        parts = o.split(" ", 2)
        tape = parts[2] if len(parts) > 2 else "-"
        toks = [] if tape == "-" else tape.split(" ")
        if len(toks) > 160:
            continue
        ctx.count("accepted")
        out.append((d, tape, toks))
    return out


def node_indices(toks):
    return ["top"] + [str(i) for i, k in enumerate(toks) if k[:2] in ("A:", "O:", "H:")]


# ------------------------------------------------------------------ spec-level reference (Python) over the tape string
def cont_end(tok):
    return int(tok.split(":")[1]) if tok[:2] in ("A:", "O:") else None


def is_key(tok):
    return tok[:2] in ("U:", "Q:", "P:", "N:")


def ref_values(toks, s, e):
    out, i = [], s
    while i < e:
        out.append(i)
        ce = cont_end(toks[i])
        i = ce + 1 if ce is not None else i + 1
    return out


def ref_value_end(toks, v):
    ce = cont_end(toks[v])
    if ce is not None:
        return ce + 1
    if toks[v].startswith("H:"):
        return cont_end(toks[v + 1]) + 1
    return v + 1


def ref_fields(toks, s, e):
    """object grammar `(key [op] value)* [M item*]`: fields and where they stop"""
    out, i = [], s
    while i < e and toks[i] != "M":
        assert is_key(toks[i]), "grammar: key expected at %d" % i
        if toks[i + 1].startswith("OP:"):
            op, v = toks[i + 1][3:], i + 2
        else:
            op, v = "-", i + 1
        out.append((toks[i], op, v))
        i = ref_value_end(toks, v)
    return out, i


def parse_view(s):
    """O{...} / A{...} canonical views -> dict"""
    m = re.match(r"^O\{fl=(\d+),h=(\d+),f=\[(.*?)\],rem=\[(.*?)\]/(\d+)/(\d+),g=\[(.*?)\],gh=(\d+):([\d,]*),grem=\[(.*?)\],tl=(\d+),ks=\[(.*?)\],vs=\[(.*?)\]\}$", s)
    if m:
        sp = lambda x: x.split(";") if x else []
        return {"kind": "O", "fl": int(m.group(1)), "h": int(m.group(2)), "f": [tuple(x.split("/")) for x in sp(m.group(3))],
                "rem": [int(x) for x in sp(m.group(4))], "remlen": int(m.group(5)), "remtl": int(m.group(6)), "g": sp(m.group(7)),
                "gh": int(m.group(8)), "ghs": [int(x) for x in m.group(9).split(",") if x], "grem": [int(x) for x in sp(m.group(10))],
                "tl": int(m.group(11)), "ks": sp(m.group(12)), "vs": sp(m.group(13))}
    m = re.match(r"^A\{n=(\d+),v=\[(.*?)\],vs=\[(.*?)\],tl=(\d+),e=(\d),vh=(\d+)/(\d+|-)\}$", s)
    if m:
        return {"kind": "A", "n": int(m.group(1)), "v": [int(x) for x in m.group(2).split(";") if x], "vs": m.group(3).split(";") if m.group(3) else [],
                "tl": int(m.group(4)), "e": int(m.group(5)), "vlo": int(m.group(6)), "vhi": m.group(7)}
    return None


def split_node(o):
    """tok=.. tl=.. sc=.. str=.. obj=.. arr=.."""
    m = re.match(r"^tok=(\S+) tl=(\d+) sc=(\S+) str=(\S+) obj=(\S+) arr=(\S+)$", o)
    return m.groups() if m else None


def check_object(ctx, case, o, view, toks, s, e, what):
    fail = lambda key, msg, exp=None: ctx.fail(key, "%s: %s" % (what, msg), [case], [o], exp)
    fs = view["f"]
    if not (view["fl"] == view["h"] == len(fs)):
        fail("len-mismatch", "fields_len=%d size_hint=%d but fields() yields %d" % (view["fl"], view["h"], len(fs)))
    try:
        exp, r = ref_fields(toks, s, e)
    except (AssertionError, IndexError, TypeError) as ex:
        fail("grammar", "tape violates the object grammar: %s" % ex)
        return
    if [(k, op, str(v)) for (k, op, v) in exp] != [tuple(x) for x in fs]:
        fail("fields-spec", "fields() differ from the object grammar's fields", str(exp))
    # remainder is exactly the tail after the marker
    tail = ref_values(toks, r + 1, e) if r < e else []
    if view["rem"] != tail or view["grem"] != tail or view["remlen"] != len(tail):
        fail("remainder", "remainder %s (len %d) / groups remainder %s, the tail of the container is %s" % (view["rem"], view["remlen"], view["grem"], tail), str(tail))
    # groups partition the fields
    keyb = lambda tok: tok.split(":", 1)[1]
    order, buckets = [], {}
    for (k, op, v) in fs:
        kb = keyb(k)
        if kb not in buckets:
            buckets[kb] = []
            order.append((kb, k))
        buckets[kb].append("%s/%s" % (op, v))
    expg = ["%s%s%d(%s)" % (k, "1" if len(buckets[kb]) == 1 else "m", len(buckets[kb]), "+".join(buckets[kb])) for (kb, k) in order]
    if view["g"] != expg:
        fail("groups", "field_groups() is not the partition of fields() by raw key in first-appearance order", str(expg))
    if view["gh"] != len(expg) or view["ghs"] != list(range(len(expg) - 1, -1, -1)):
        fail("groups-hint", "field_groups size hints %d:%s for %d groups" % (view["gh"], view["ghs"], len(expg)))
    if view["tl"] != e - s:
        fail("tokens-len", "tokens_len %d, range is %d" % (view["tl"], e - s))


def check_array(ctx, case, o, view, toks, s, e, what):
    fail = lambda key, msg, exp=None: ctx.fail(key, "%s: %s" % (what, msg), [case], [o], exp)
    if not (view["n"] == len(view["v"]) == view["vlo"]) or view["vhi"] != str(view["n"]) or view["e"] != int(view["n"] == 0):
        fail("len-mismatch", "len=%d, values() yields %d, size_hint=(%d,%s), is_empty=%d" % (view["n"], len(view["v"]), view["vlo"], view["vhi"], view["e"]))
    exp = ref_values(toks, s, e)
    if view["v"] != exp:
        fail("values-spec", "values() differ from the top-level items of the range", str(exp))
    if view["tl"] != e - s:
        fail("tokens-len", "tokens_len %d, range is %d" % (view["tl"], e - s))


def check_node(ctx, case, o, toks, idx):
    if o in ("PANIC", "ABORT", "HANG"):
        ctx.fail("dom-crash", "DOM API crashes on node %s" % idx, [case], [o], "no panic")
        return
    if o == "UNREACH":
        ctx.fail("unreachable", "container %s is not reachable through fields()/values()/remainder()" % idx, [case], [o])
        return
    if idx == "top":
        v = parse_view(o)
        if not v:
            ctx.fail("format", "unparsable view", [case], [o]); return
        check_object(ctx, case, o, v, toks, 0, len(toks), "top")
        return
    parts = split_node(o)
    if not parts:
        ctx.fail("format", "unparsable node view", [case], [o]); return
    tok, tl, sc, st, ob, ar = parts
    i = int(idx)
    ce = cont_end(toks[i])
    if tok != toks[i]:
        ctx.fail("token", "token() of the value reader at %d is %s" % (i, tok), [case], [o], toks[i])
    if tok.startswith("O:"):
        mixed = tok.endswith(":1")
        check_object(ctx, case, o, parse_view(ob), toks, i + 1, ce, "object %d" % i)
        try:
            _, r = ref_fields(toks, i + 1, ce)
        except Exception:
            return
        check_array(ctx, case, o, parse_view(ar), toks, (r + 1) if mixed else (i + 1), ce, "object %d as array" % i)
        if int(tl) != ce - i - 1:
            ctx.fail("tokens-len", "value tokens_len %s" % tl, [case], [o], str(ce - i - 1))
    elif tok.startswith("A:"):
        v = parse_view(ob)
        # an array read as an object has no fields and its remainder is the whole array
        if v["f"] or v["fl"] or v["rem"] != ref_values(toks, i + 1, ce):
            ctx.fail("array-as-object", "array %d read as object: fields %s remainder %s" % (i, v["f"], v["rem"]), [case], [o])
        check_array(ctx, case, o, parse_view(ar), toks, i + 1, ce, "array %d" % i)
    elif tok.startswith("H:"):
        if ob != "E":
            ctx.fail("header-object", "a header reads as an object", [case], [o], "E")
        check_array(ctx, case, o, parse_view(ar), toks, i, ref_value_end(toks, i), "header %d" % i)
        if sc != tok[2:]:
            ctx.fail("scalar", "read_scalar of header", [case], [o], tok[2:])


def dom_cases(parsed):
    cases, meta = [], []
    for (d, tape, toks) in parsed:
        for enc in "wu":
            for idx in node_indices(toks):
                cases.append("dom.node\t%s\t%s\t%s\t%s" % (hexs(d), tape, enc, idx))
                meta.append((toks, idx))
    return cases, meta


def run(ctx):
    docs = gen_docs(ctx, ctx.scale(2200, 12000), ctx.scale(2600, 15000), ctx.scale(3000, 20000))
    ctx.count("documents", len(docs))
    parsed = parse_docs(ctx, docs)
    # the tape well-formedness checker of the model on every real tape
    wf = ["dom.wf\t%s\t%s" % (hexs(d), tape) for (d, tape, toks) in parsed]
    impl, mod = ctx.correspond("wf", wf, nontrivial=lambda c, i: True)
    base = len(impl) - len(wf)
    for k, c in enumerate(wf):
        if mod[base + k] != "0" and impl[base + k] == "0":
            ctx.fail("tape-not-wf", "a tape produced by the parser violates TapeWf.tape_wf (clause %s)" % mod[base + k], [c], [impl[base + k]], "0")
    # >>> a_dom (wave 4): wide objects (many duplicate keys) and deep documents join every stream below
    from props import C17_iter
    extra = parse_docs(ctx, C17_iter.extra_docs(ctx, ctx.scale(120, 1200), ctx.scale(120, 1200)), stream="parse_extra")
    ctx.count("extra documents (wide / deep)", len(extra))
    main_parsed = parsed
    parsed = parsed + extra
    # <<<
    cases, meta = dom_cases(parsed)
    for (toks, idx) in meta:
        ctx.count("node:" + ("top" if idx == "top" else toks[int(idx)][0]))
    impl, _ = ctx.correspond("node", cases, nontrivial=lambda c, i: ("/" in i and ("f=[U" in i or "f=[Q" in i or "f=[P" in i or "f=[N" in i)) or re.search(r"v=\[\d", i) is not None)
    base = len(impl) - len(cases)
    for k, c in enumerate(cases):
        check_node(ctx, c, impl[base + k], meta[k][0], meta[k][1])
    # the same observations with debug assertions and overflow checks on (debug_assert! in FieldsIter::next,
    # usize subtraction in tokens_len): a sample
    sample = [c for c in cases if ctx.rng.random() < 0.25]
    dimpl, _ = ctx.correspond("node_debug", sample, profile="debug", nontrivial=lambda c, i: "/" in i)
    db = len(dimpl) - len(sample)
    for k, c in enumerate(sample):
        if dimpl[db + k] in ("PANIC", "ABORT", "HANG"):
            ctx.fail("dom-crash", "DOM API crashes in a debug build", [c], [dimpl[db + k]], "no panic")
    # >>> a_dom (wave 4): iterators at every iteration point, value readers of every yielded value
    C17_iter.run_iter(ctx, main_parsed, extra)
    # <<<
    # >>> s_dom (wave 6): size / boundary ladders (one dimension at a time, expected counts by construction)
    from props import C17_ladder
    C17_ladder.run_ladder(ctx)
    # <<<


def search(ctx):
    import random
    ctx.rng = random.Random(ctx.seed + 17)
    old = ctx.tier
    ctx.tier = "thorough"
    try:
        run(ctx)
    finally:
        ctx.tier = old


CLAIM = {
    "text": "Coq theorems over an index-faithful Gallina model of text/dom.rs (every tokens[i], unwrap, usize subtraction and debug_assert is an explicit Panic site; loops on fuel): for every token list satisfying TapeWf.tape_wf (end pointers, Dyck nesting, header-then-container, object grammar `(key [op] value)* [M item*]`) and every object/array node, fields_len = |fields| = size hint, len = |values| = size hint, field_groups is the partition of fields by raw key in first-appearance order, remainder is exactly the tail after the MixedContainer marker, and no model function panics or runs out of fuel. tape_wf's boolean checker is run on every tape the real parser produces; the model is tied to the code by differential execution of the whole reader API on every container/header node of every accepted document with both encodings, and the same facts are checked on the implementation's outputs against a grammar-level Python reference",
    "wave4": "Props/C17_iter.v: the same agreements at every iteration point: FieldsIter::size_hint after k calls = fields left, ValuesIter::size_hint exact on both sides after k calls, FieldGroupsIter as the stateful loop over the inner cursor and the shrinking key map yields groups_spec with size hint = groups left after every call and ends with the cursor where fields() stops; remainder() defined at every cursor; read_array of a mixed object = remainder of its own fields(); a header read as an array = [header, container]; value reader answers per token kind",
    "note": "Trusted: Coq kernel, extraction (ExtrOcamlBasic only), harness; HashMap modelled as association list; Encoding::decode is a parameter of the model (executable stand-ins exercised only). That the parser only produces tape_wf tapes is proved by the tape family (C06); here it is an oracle.",
    "technique": "machine-checked proof in Coq over an executable model + model/implementation correspondence by extraction",
}

# a_dom (wave 4): the additional claim is part of the manifest text
CLAIM["text"] = CLAIM["text"] + ". Wave 4: " + CLAIM.pop("wave4")

# >>> s_dom (wave 6)
RULE = RULE + ("; wave 6 (props/C17_ladder.py): deterministic size ladders 0 1 2 3 7 8 9 15 16 17 31 32 33 63 64 65 127 128 129 255 256 257 1023 1024 1025 "
               "4095 4096 4097 65533..65536, one dimension at a time: fields / duplicates / groups (to 4097), key, header, parameter and scalar "
               "length (to 65536), key length x alignment x first differing byte, array (to 65536) and remainder length, triples x window phase, "
               "consecutive operators, nesting depth per container kind (to 1025), escaped / non-ASCII bytes per scalar (to 65536); streams ladder "
               "(with the model), ladder_big (oracles only: tape-string references + counts by construction), ladder_debug (every case, debug = release)")
# <<<
