"""C13 Date codecs are mutually inverse and date arithmetic is consistent."""
from vlib import hexs, unhex

RULE = ("dates sampled over all 65536 years x calendar days (stride by tier) plus boundary years; binary values: "
        "boundaries, strided sweep and random i32; strings: formatted dates, the four fast-path shapes with one-byte "
        "corruptions at every position, random strings over [0-9.+-x]; arithmetic: sampled (date, offset) pairs. "
        "non-trivial = the implementation accepted the input (a date came out) or the input is a corrupted fast-path shape")
TRUSTED = ["core::fmt integer formatting ({}, {:02}, {:04}) is modelled by Date.fmt_int and exercised by correspondence"]
ASSUMPTIONS = ["add_days / from_ymd panics on out-of-range results are documented API contracts (preconditions)"]

# >>> a_c13 (wave 4)
RULE += ("; wave 4 (props/C13_more.py): constructors of the four types over all small/boundary u8 (m, d, h); Ord/PartialOrd/Eq/Hash "
         "of the four types on neighbouring and random pairs; PdsDateFormatter in its three formats for the four types and parse back; "
         "FromStr, serde Deserialize (i32/str/borrowed str/String/other) and Serialize; RawDate::from_binary; add_days at the first/last "
         "representable day and around year 0 incl. the documented panics; independent date pairs; and implementation-only sweeps: every "
         "year x every calendar day (x every hour for a stride of years), every binary value of the window holding all accepted "
         "values plus blocks outside, every digit string of the four fast-path shapes, every byte at every position of every "
         "MM/M x DD/D string for a set of years")
CLAIM_WAVE4 = ("Also proved (Props/C13_more.v): constructors accept exactly their calendar and the accessors read the fields back; Ord is "
               "the lexicographic order of (year, month, day, hour) and Eq is equality; to_binary total with closed form for every i16 year; "
               "heuristics characterised; RawDate::from_binary; days_until total/antisymmetric/additive; day numbers injective; "
               "a.add_days(a.days_until(b)) = b for all valid a, b; add_days succeeds exactly inside the representable range; "
               "parse o game_fmt o parse = parse for the three typed dates.")
PROFILES = ["release", "debug"]   # a slice of the sweeps and the boundary arithmetic also run on the debug build
# <<< a_c13

# >>> s_c13 (wave 6)
RULE += ("; wave 6 (props/C13_size.py, audit/C13.md 'Size dimensions'): size ladders 0 1 2 3 7 8 9 .. 65535 65536, one dimension at a time: "
         "total text length (every length 0..40, then the ladder), year digit count 1..25 x sign x zero padding, month/day/hour of 1/2/3 "
         "digits with and without leading zeros, every hour text 0..30, trailing/leading runs, the plain-integer form at the i32/i64/u64 "
         "boundaries with zero padding, the text at every offset of a larger buffer, every u8 in each constructor argument, every "
         "(month, day, hour) of a RawDate x every year width in the three formats and parsed back, add_days offsets over the whole i32 "
         "ladder from the first/last representable day, days_until over every year distance up to 65535; release and debug builds")
# <<< s_c13

DPM = [0, 31, 28, 31, 30, 31, 30, 31, 31, 30, 31, 30, 31]


def valid_dates(ctx):
    years = set([-32768, -32767, -10000, -9999, -5001, -5000, -4999, -1000, -999, -100, -99, -10, -9, -1, 0, 1, 9, 10, 99, 100,
                 999, 1000, 1444, 1836, 1936, 2200, 9999, 10000, 32766, 32767])
    stride = ctx.scale(97, 7)
    y = -32768 + ctx.rng.randrange(stride)
    while y <= 32767:
        years.add(y)
        y += stride
    out = []
    for y in sorted(years):
        k = ctx.scale(6, 40)
        days = set([(1, 1), (12, 31), (2, 28), (3, 1), (10, 10), (1, 10), (11, 1)])
        for _ in range(k):
            m = ctx.rng.randrange(1, 13)
            days.add((m, ctx.rng.randrange(1, DPM[m] + 1)))
        for (m, d) in sorted(days):
            out.append((y, m, d))
    return out


def parse_ok(s):
    if not s.startswith("ok "):
        return None
    return tuple(int(x) for x in s.split()[1:])


def run(ctx):
    rng = ctx.rng
    nt = lambda c, i: i.startswith("ok") or i[:1].isdigit() or i[:1] == "-" and len(i) > 1
    dates = valid_dates(ctx)
    ctx.count("dates", len(dates))

    # ---- per-function stream: fast_digit_parse on digit words and near misses
    cases = []
    for _ in range(ctx.scale(4000, 60000)):
        b = bytearray(rng.choice(b"0123456789") for _ in range(8))
        r = rng.random()
        if r < 0.4:
            b[rng.randrange(8)] = rng.choice([0x2f, 0x3a, 0x00, 0xff, 0x2e, 0x40, 0x30 + 16, 0x29, 0x39 + 0x80, rng.randrange(256)])
        elif r < 0.5:
            b = bytearray(rng.randrange(256) for _ in range(8))
        cases.append("util.fdp\t%d" % int.from_bytes(b, "little"))
    impl, _ = ctx.correspond("fast_digit_parse", cases, nontrivial=lambda c, i: i != "none")
    for c, i in zip(cases[-len(cases):], impl[-len(cases):]):
        w = int(c.split("\t")[1]).to_bytes(8, "little")
        exp = str(int(w.decode())) if all(48 <= x <= 57 for x in w) else "none"
        if i != exp:
            ctx.fail("fdp", "fast_digit_parse(%s) = %s, decimal meaning %s" % (w.hex(), i, exp), [c], [i], exp)

    # ---- format -> parse round trips (Date short, DateHour short, UniformDate wide) + ISO components
    fmt_cases = []
    meta = []
    for (y, m, d) in dates:
        fmt_cases.append("date.fmt\tdate\t%d\t%d\t%d\t0" % (y, m, d)); meta.append(("date", y, m, d, 0))
        h = rng.randrange(1, 25)
        fmt_cases.append("date.fmt\tdh\t%d\t%d\t%d\t%d" % (y, m, d, h)); meta.append(("dh", y, m, d, h))
        if d <= 30:
            fmt_cases.append("date.fmt\tud\t%d\t%d\t%d\t0" % (y, m, d)); meta.append(("ud", y, m, d, 0))
    impl, _ = ctx.correspond("format", fmt_cases, nontrivial=lambda c, i: i != "invalid")
    parse_cases, pmeta = [], []
    base = len(impl) - len(fmt_cases)
    for k, (which, y, m, d, h) in enumerate(meta):
        o = impl[base + k]
        if o in ("invalid", "PANIC", "ABORT", "HANG") or " " not in o:
            ctx.fail("fmt-construct", "valid %s %d.%d.%d.%d could not be constructed/formatted: %s" % (which, y, m, d, h, o), [fmt_cases[k]], [o])
            continue
        g, iso = o.split(" ")
        exp_iso = "%04d-%02d-%02d" % (y, m, d) + ("T%02d" % (h - 1) if which == "dh" else "")
        if unhex(iso).decode("latin1") != exp_iso:
            ctx.fail("iso", "iso_8601 of %s %d.%d.%d.%d is %r, components say %r" % (which, y, m, d, h, unhex(iso), exp_iso), [fmt_cases[k]], [o], exp_iso)
        kind = {"date": "date.parse", "dh": "dh.parse", "ud": "ud.parse"}[which]
        parse_cases.append("%s\t%s" % (kind, g)); pmeta.append((which, y, m, d, h, k))
        if which == "date":
            # zero padded rendering of the same date must parse too
            wide = "%d.%02d.%02d" % (y, m, d)
            parse_cases.append("date.parse\t%s" % hexs(wide.encode())); pmeta.append((which, y, m, d, h, k))
    impl2, _ = ctx.correspond("parse_formatted", parse_cases, nontrivial=nt)
    base = len(impl2) - len(parse_cases)
    for j, (which, y, m, d, h, k) in enumerate(pmeta):
        got = parse_ok(impl2[base + j])
        if got != (y, m, d, h):
            ctx.fail("fmt-parse", "parse(game_fmt(%s %d.%d.%d.%d)) = %s" % (which, y, m, d, h, impl2[base + j]), [fmt_cases[k], parse_cases[j]], [impl2[base + j]], "ok %d %d %d %d" % (y, m, d, h))

    # ---- binary codec
    tb_cases, tmeta = [], []
    for (y, m, d) in dates:
        tb_cases.append("date.tobin\t%d\t%d\t%d" % (y, m, d)); tmeta.append((y, m, d, 0))
        h = rng.randrange(1, 25)
        tb_cases.append("dh.tobin\t%d\t%d\t%d\t%d" % (y, m, d, h)); tmeta.append((y, m, d, h))
    impl, _ = ctx.correspond("to_binary", tb_cases, nontrivial=lambda c, i: i.lstrip("-").isdigit())
    base = len(impl) - len(tb_cases)
    fb_cases, fmeta = [], []
    for k, (y, m, d, h) in enumerate(tmeta):
        o = impl[base + k]
        if y >= -5000:
            if not o.lstrip("-").isdigit():
                ctx.fail("tobin", "to_binary(%d.%d.%d.%d) = %s" % (y, m, d, h, o), [tb_cases[k]], [o]); continue
            fb_cases.append("%s\t%s" % ("dh.frombin" if h else "date.frombin", o)); fmeta.append((y, m, d, h, k))
    impl2, _ = ctx.correspond("from_binary_of_to_binary", fb_cases, nontrivial=nt)
    base = len(impl2) - len(fb_cases)
    for j, (y, m, d, h, k) in enumerate(fmeta):
        if parse_ok(impl2[base + j]) != (y, m, d, h):
            ctx.fail("bin-inverse", "from_binary(to_binary(%d.%d.%d.%d)) = %s" % (y, m, d, h, impl2[base + j]), [tb_cases[k], fb_cases[j]], [impl2[base + j]], "ok %d %d %d %d" % (y, m, d, h))

    # whole i32 range, sampled: never panics, accepted values re-encode to the same day/hour
    vals = set([0, 1, -1, 23, 24, 25, -24, 8759, 8760, 8761, 43800000, 43799999, 43800001, 56379360, 59611248, 60759371,
                2147483647, -2147483648, 2147483646, -2147483647, 330880896, 330880895, 330881000, 18, 43808760, 43791240])
    stride = ctx.scale(2 ** 32 // 6000, 2 ** 32 // 120000)
    v = -2 ** 31 + rng.randrange(stride)
    while v < 2 ** 31:
        vals.add(v); v += stride + rng.randrange(7)
    for _ in range(ctx.scale(3000, 60000)):
        vals.add(rng.randrange(0, 2 * 37768 * 365 * 24) - 24 * 365 * 10)
    vals = sorted(vals)
    fcases = []
    for v in vals:
        for kind in ("date.frombin", "dh.frombin", "date.frombinh", "dh.frombinh"):
            fcases.append("%s\t%d" % (kind, v))
    impl, _ = ctx.correspond("from_binary_sweep", fcases, nontrivial=nt)
    base = len(impl) - len(fcases)
    re_cases, rmeta = [], []
    for k, c in enumerate(fcases):
        o = impl[base + k]
        if o in ("PANIC", "ABORT", "HANG"):
            ctx.fail("frombin-panic", "%s panics" % c.replace("\t", " "), [c], [o], "Some/None")
        g = parse_ok(o)
        if g and c.startswith(("date.frombin\t", "dh.frombin\t")):
            s = int(c.split("\t")[1])
            if c.startswith("date."):
                re_cases.append("date.tobin\t%d\t%d\t%d" % g[:3]); rmeta.append((s - (s % 24), c))
            else:
                re_cases.append("dh.tobin\t%d\t%d\t%d\t%d" % g); rmeta.append((s, c))
    impl2, _ = ctx.correspond("to_binary_of_from_binary", re_cases, nontrivial=lambda c, i: True)
    base = len(impl2) - len(re_cases)
    for j, (exp, c) in enumerate(rmeta):
        if impl2[base + j] != str(exp):
            ctx.fail("bin-reencode", "%s accepted but re-encodes to %s (expected %d)" % (c.replace("\t", " "), impl2[base + j], exp), [c, re_cases[j]], [impl2[base + j]], str(exp))

    # ---- text parsing: fast-path shapes and corruptions; typed dates vs component-wise parser (RawDate)
    strs = set()
    for _ in range(ctx.scale(1500, 20000)):
        y = rng.choice([rng.randrange(0, 10000), rng.randrange(1000, 3000)])
        m = rng.randrange(0, 15); d = rng.randrange(0, 34)
        for f in ("%04d.%02d.%02d", "%04d.%d.%02d", "%04d.%02d.%d", "%04d.%d.%d", "%d.%d.%d", "-%d.%d.%d", "%d.%d.%d.5", "%04d.%02d.%02d.24", "%04d.%02d.%02d.0", "%d.%d.%d.25"):
            s = (f % (y, m, d)).encode()
            strs.add(s)
            if rng.random() < 0.5:
                b = bytearray(s)
                p = rng.randrange(len(b))
                b[p] = rng.choice(b"0123456789.+-x:/ \x00\xff9")
                strs.add(bytes(b))
            if rng.random() < 0.15:
                strs.add(s + rng.choice([b".", b"x", b"0", b" ", b".1", b"\n"]))
            if rng.random() < 0.1:
                strs.add(s[:rng.randrange(len(s))])
    # every single position corruption of one exemplar per shape
    for ex in (b"1444.11.11", b"1444.1.11", b"1444.11.1", b"1444.1.1", b"2200.02.28", b"0001.01.01"):
        for p in range(len(ex)):
            for ch in b"0123456789.+-x/:\x00\xff \t":
                b = bytearray(ex); b[p] = ch; strs.add(bytes(b))
    for _ in range(ctx.scale(2000, 30000)):
        strs.add(bytes(rng.choice(b"0123456789.+-x") for _ in range(rng.randrange(0, 14))))
    strs.update([b"43808760", b"-1", b"1", b"", b".", b"1.1.1", b"+144.11.11", b"+1444.11.11", b"1.01.01", b"1.1.1.1", b"99999.1.1", b"32768.1.1", b"-32768.1.1", b"-32769.1.1"])
    strs = sorted(strs)
    pcases = []
    for s in strs:
        h = hexs(s)
        for kind in ("date.parse", "dh.parse", "ud.parse", "raw.parse"):
            pcases.append("%s\t%s" % (kind, h))
    impl, _ = ctx.correspond("parse_strings", pcases, nontrivial=lambda c, i: i.startswith("ok") or len(c) > 24)
    base = len(impl) - len(pcases)
    import re as _re
    shape = _re.compile(rb"^(-?)(\d+)\.(\d{1,2})\.(\d{1,2})(?:\.(\d{1,2}))?\Z")
    plain = _re.compile(rb"^[+-]?\d*\Z")
    for k in range(0, len(pcases), 4):
        s = strs[k // 4]
        od, oh, ou, orw = (impl[base + k + t] for t in range(4))
        for o in (od, oh, ou, orw):
            if o in ("PANIC", "ABORT", "HANG"):
                ctx.fail("parse-panic", "parse(%r) panics" % s, pcases[k:k + 4], [od, oh, ou, orw])
        m = shape.match(s)
        gd, gh, gu, gr = parse_ok(od), parse_ok(oh), parse_ok(ou), parse_ok(orw)
        if m:
            sign = -1 if m.group(1) else 1
            y, mo, d = sign * int(m.group(2)), int(m.group(3)), int(m.group(4))
            hh = int(m.group(5)) if m.group(5) is not None else 0
            hour_ok = m.group(5) is None or (1 <= hh <= 24 and m.group(5)[:1] != b"0")
            inr = -32768 <= y <= 32767
            cal = inr and 1 <= mo <= 12 and 1 <= d <= DPM[mo]
            exp_d = (y, mo, d, 0) if cal and m.group(5) is None else None
            exp_h = (y, mo, d, hh) if cal and m.group(5) is not None and hour_ok else None
            exp_u = (y, mo, d, 0) if inr and 1 <= mo <= 12 and 1 <= d <= 30 and m.group(5) is None else None
            for nm, got, exp, o in (("Date", gd, exp_d, od), ("DateHour", gh, exp_h, oh), ("UniformDate", gu, exp_u, ou)):
                if got != exp:
                    ctx.fail("parse-lang", "%s::parse(%r) = %s, component-wise meaning %s" % (nm, s, o, exp), pcases[k:k + 4], [od, oh, ou, orw], str(exp))
        elif not plain.match(s):
            # neither Y.M.D[.H] nor a plain integer: a leading '+' year is the only tolerated extra
            # tolerated extras (all inside the accepted language proved in C13_parse_lang): a leading '+' year, and a
            # sign without digits, which to_i64_t reads as 0 ("-.1.1" is year 0 -- the documented "+" -> 0 quirk of C11)
            if not ((s[:1] == b"+" and shape.match(s[1:])) or (s[:1] in (b"+", b"-") and shape.match(b"0" + s[1:]))):
                for nm, got, o in (("Date", gd, od), ("DateHour", gh, oh), ("UniformDate", gu, ou), ("RawDate", gr, orw)):
                    if got is not None:
                        ctx.fail("parse-garbage", "%s::parse(%r) accepted: %s" % (nm, s, o), pcases[k:k + 4], [od, oh, ou, orw], "none")

    # ---- arithmetic
    acases, ameta = [], []
    for _ in range(ctx.scale(4000, 80000)):
        y, m, d = rng.choice(dates)
        n = rng.choice([rng.randrange(-400, 400), rng.randrange(-100000, 100000), rng.randrange(-3000000, 3000000)])
        dy = y * 365
        ord0 = sum(DPM[1:m]) + d - 1
        days = dy - ord0 if dy < 0 else dy + ord0
        nd = days + n
        # keep the computation on one side of year 0 and inside the i16 year range (documented panic otherwise)
        if dy >= 0 and not (0 <= nd < 32767 * 365):
            continue
        if dy < 0 and not (-32767 * 365 < nd <= -365):
            continue
        acases.append("date.add\t%d\t%d\t%d\t%d" % (y, m, d, n)); ameta.append((y, m, d, n))
    impl, _ = ctx.correspond("add_days", acases, nontrivial=nt)
    base = len(impl) - len(acases)
    ucases, umeta = [], []
    for k, (y, m, d, n) in enumerate(ameta):
        g = parse_ok(impl[base + k])
        if not g:
            ctx.fail("add-panic", "add_days(%d.%d.%d, %d) = %s" % (y, m, d, n, impl[base + k]), [acases[k]], [impl[base + k]]); continue
        ucases.append("date.until\t%d\t%d\t%d\t%d\t%d\t%d" % (y, m, d, g[0], g[1], g[2])); umeta.append((n, k, g))
        ucases.append("date.cmp\t%d\t%d\t%d\t%d\t%d\t%d" % (y, m, d, g[0], g[1], g[2])); umeta.append((n, k, g))
    impl2, _ = ctx.correspond("days_until_cmp", ucases, nontrivial=lambda c, i: True)
    base = len(impl2) - len(ucases)
    for j in range(0, len(ucases), 2):
        n, k, g = umeta[j]
        y = ameta[k][0]
        if impl2[base + j] != str(n):
            ctx.fail("add-until", "d=%s: d.days_until(d.add_days(%d)) = %s" % (acases[k].split("\t")[1:4], n, impl2[base + j]), [acases[k], ucases[j]], [impl2[base + j]], str(n))
        if y >= 1 and g[0] >= 1:
            exp = "lt" if n > 0 else ("gt" if n < 0 else "eq")
            if impl2[base + j + 1] != exp:
                ctx.fail("ord-sign", "ordering of %s and its add_days(%d) is %s" % (acases[k].split("\t")[1:4], n, impl2[base + j + 1]), [acases[k], ucases[j + 1]], [impl2[base + j + 1]], exp)

    # >>> a_c13 (wave 4): clauses audit/C13.md found uncovered (props/C13_more.py)
    from props import C13_more
    C13_more.run_more(ctx)
    # <<< a_c13

    # >>> s_c13 (wave 6): size / boundary ladders (props/C13_size.py)
    from props import C13_size
    C13_size.run_size(ctx)
    # <<< s_c13


def search(ctx):
    # widen: a second pass with a different seed and thorough sizes
    import random
    ctx.rng = random.Random(ctx.seed + 1)
    old = ctx.tier
    ctx.tier = "thorough"
    try:
        run(ctx)
    finally:
        ctx.tier = old

CLAIM = {
    "text": "Coq theorems over a bit-exact Gallina model of common/date.rs (Z arithmetic with the i32/i16/u8 widths written out, SWAR digit parsing on N mod 2^64, calendar tables regenerated from date.rs each run): binary codec inverse for all dates with year >= -5000; the model is tied to the code by differential execution of every date entry point (format, parse x4 types, from/to_binary, heuristics, add_days, days_until, Ord) on ~240k cases per quick run, and the property's own oracles (parse(fmt d)=d, ISO components, re-encode, fast path = component-wise meaning, arithmetic laws) are evaluated on the implementation",
    "note": "Trusted: Coq kernel, tools/gen_tables.py, extraction (ExtrOcamlBasic only), the Rust harness; core::fmt integer formatting is modelled (Date.fmt_int) and exercised, not verified. Theorems proved so far are listed in evidence (coverage.theorems); clauses not yet proved are carried by the correspondence + oracle streams only (DESIGN.md section 6/C13).",
    "technique": "machine-checked proof in Coq over an executable model + model/implementation correspondence by extraction",
}
