"""C17, iterator half (wave 4, a_dom): the iterators observed at every iteration point, and the
ValueReader / Reader API on every value a node yields (leaf tokens included).

Streams (harness/src/fam_domiter.rs, model coq/theories/DomIter.v):
  iter  dom.iter  FieldsIter (size hint + remainder at every point), FieldGroupsIter (group key,
                  size hint, remainder after every call), ValuesIter (size hint at every point), fusedness
  leaf  dom.leaf  token / tokens_len / read_scalar / read_str / read_string / read_object /
                  read_array / Reader enum / <ValueReader as Encoding>::decode on every value
Oracles are computed from the tape string alone (object grammar of props/C17.py), independent of the model.
Extra documents: wide objects (12..40 fields over 2..6 keys: groups with many members) and deep
documents (nesting 5..8 with headers, operators and mixed containers at every depth)."""
import re
from vlib import hexs, unhex

WKEYS = [b"a", b"b", b"core", b"name", b"10", b'"a"', b"unit", b"@v", b"cl\xe9", b'"\xc3\xa9t\xc3\xa9"', b'"k\\\"q"']
WOPS = [b"=", b"=", b"=", b"<", b">=", b"!=", b"?=", b"=="]
WVALS = [b"1", b"yes", b"x", b'"q r"', b'" lead"', b"h\xe9", b'"\xc3\xa9 "', b"{ 1 2 }", b"{ a=1 a=2 }", b"rgb { 1 2 3 }", b"{ }", b"hsv{ a=b }", b"-5", b"1.5", b"{ a=1 7 8 }"]


def wide_doc(rng):
    nk = rng.randrange(2, 7)
    keys = rng.sample(WKEYS, nk)
    n = rng.randrange(12, 33)
    out = b""
    for _ in range(n):
        out += rng.choice(keys) + rng.choice(WOPS) + rng.choice(WVALS) + b" "
    r = rng.random()
    if r < 0.35:       # wrap: a nested wide object, possibly mixed
        tail = b""
        if rng.random() < 0.6:
            tail = b" ".join(rng.choice([b"10", b"x", b"{ 1 }", b"y=z", b"rgb { 1 }"]) for _ in range(rng.randrange(1, 5))) + b" "
        out = b"w={ " + out + tail + b"} " + rng.choice(keys) + b"=1"
    return out


def deep_doc(rng):
    depth = rng.randrange(5, 9)

    def level(d):
        if d == 0:
            return rng.choice([b"1", b"x=y", b"a=1 a=2", b"1 2 3", b""])
        pre = rng.choice([b"", b"a=1 ", b"k=v k=w ", b"a<2 ", b"c=rgb{ 1 } "])
        inner = level(d - 1)
        form = rng.random()
        if form < 0.35:
            body = pre + b"n={ " + inner + b" } "
        elif form < 0.55:
            body = pre + b"n=hsv{ " + inner + b" } "
        elif form < 0.8:       # mixed: fields, then values, among them the next level
            body = (pre or b"a=1 ") + b"10 { " + inner + b" } 20 "
        else:
            body = b"{ " + inner + b" } x "
        post = rng.choice([b"", b"z=1 ", b"a=3 ", b""])
        return body + (post if form < 0.55 else b"")

    return level(depth)


def extra_docs(ctx, n_wide, n_deep):
    docs = []
    for _ in range(n_wide):
        docs.append(wide_doc(ctx.rng))
    for _ in range(n_deep):
        docs.append(deep_doc(ctx.rng))
    return docs


# ------------------------------------------------------------------ reference over the tape string
def cont_end(tok):
    return int(tok.split(":")[1]) if tok[:2] in ("A:", "O:") else None


def value_end(toks, v):
    ce = cont_end(toks[v])
    if ce is not None:
        return ce + 1
    if toks[v].startswith("H:"):
        return cont_end(toks[v + 1]) + 1
    return v + 1


def ref_values(toks, s, e):
    out, i = [], s
    while i < e:
        out.append(i)
        ce = cont_end(toks[i])
        i = ce + 1 if ce is not None else i + 1
    return out


def ref_fields(toks, s, e):
    """[(key_index, key_token, op, value_index)], stop index"""
    out, i = [], s
    while i < e and toks[i] != "M":
        if toks[i][:2] not in ("U:", "Q:", "P:", "N:"):
            raise ValueError("key expected at %d" % i)
        if toks[i + 1].startswith("OP:"):
            op, v = toks[i + 1][3:], i + 2
        else:
            op, v = "-", i + 1
        out.append((i, toks[i], op, v))
        i = value_end(toks, v)
    return out, i


def node_ranges(toks, idx):
    """(object range or None, array range or None) the reader API hands out for a node"""
    if idx == "top":
        return (0, len(toks)), None
    i = int(idx)
    t = toks[i]
    ce = cont_end(t)
    if t.startswith("O:"):
        orange = (i + 1, ce)
        if t.endswith(":1"):
            _, r = ref_fields(toks, i + 1, ce)
            return orange, (r + 1, ce)
        return orange, (i + 1, ce)
    if t.startswith("A:"):
        return (ce, ce), (i + 1, ce)
    if t.startswith("H:"):
        return None, (i, value_end(toks, i))
    return None, None


_COUNT_MEMO = {}      # s_dom (wave 6): number of values in [s, e), memoised per (tape, e): linear instead of quadratic on wide nodes


def count_values(toks, s, e):
    memo = _COUNT_MEMO.get((id(toks), e))
    if memo is None or memo[0] is not toks:
        if len(_COUNT_MEMO) > 64:
            _COUNT_MEMO.clear()
        memo = _COUNT_MEMO[(id(toks), e)] = (toks, {})
    cnt = memo[1]
    path, i = [], s
    while i < e and i not in cnt:
        path.append(i)
        ce = cont_end(toks[i])
        i = ce + 1 if ce is not None else i + 1
    n = cnt.get(i, 0) if i < e else 0
    for j in reversed(path):
        n += 1
        cnt[j] = n
    return cnt.get(s, 0) if s < e else 0


def rem_triple(toks, s, e):
    return "%d/%d/%s" % (e - s, count_values(toks, s, e), s if s < e else "-")


def check_iter(ctx, case, o, toks, idx):
    fail = lambda key, msg, exp=None: ctx.fail(key, "node %s: %s" % (idx, msg), [case], [o], exp)
    if o in ("PANIC", "ABORT", "HANG"):
        fail("dom-crash", "iterating the node crashes", "no panic"); return
    if o == "UNREACH":
        fail("unreachable", "container not reachable through the readers"); return
    m = re.match(r"^obj=(\S+) arr=(\S+)$", o)
    if not m:
        fail("format", "unparsable iter view"); return
    try:
        orange, arange = node_ranges(toks, idx)
    except (ValueError, IndexError, TypeError):
        return      # grammar violations are reported by the `node` stream
    ob, ar = m.groups()
    if (ob == "E") != (orange is None) or (ar == "E") != (arange is None):
        fail("reader-kind", "read_object / read_array accept the wrong token kinds"); return
    if orange is not None:
        s, e = orange
        mm = re.match(r"^F:(.*)\|G:(.*)\|z=(\d)$", ob)
        if not mm:
            fail("format", "unparsable object iter view"); return
        fpts = [p.split("/") for p in mm.group(1).split(";")]
        gpts = [p.rsplit("/", 4) for p in mm.group(2).split(";")]
        if mm.group(3) != "1":
            fail("iter-fused", "an exhausted iterator yields again / changes state, or GroupEntry::len() != values().count()")
        try:
            fs, r = ref_fields(toks, s, e)
        except (ValueError, IndexError):
            return
        n = len(fs)
        tail = rem_triple(toks, r + 1, e) if r < e else "0/0/-"
        if idx != "top" and toks[int(idx)].startswith("A:"):
            # an Array token read as an object: no fields, the remainder is the whole array
            tail = rem_triple(toks, int(idx) + 1, e)
        # FieldsIter: one point before the first next() and one after every next()
        if len(fpts) != n + 1:
            fail("iter-fields-count", "FieldsIter yields %d items, the object has %d fields" % (len(fpts) - 1, n), str(n)); return
        for k, p in enumerate(fpts):
            if int(p[0]) != n - k:
                fail("hint-after-next", "FieldsIter::size_hint after %d next() is %s, %d fields are left" % (k, p[0], n - k), str(n - k)); return
        for k, p in enumerate(fpts[:-1]):
            if "/".join(p[1:]) != rem_triple(toks, fs[k][0], e):
                fail("remainder-mid", "FieldsIter::remainder before field %d is not the rest of the container as values" % k, rem_triple(toks, fs[k][0], e)); return
        if "/".join(fpts[-1][1:]) != tail:
            fail("remainder", "FieldsIter::remainder after the last field is %s, the trailing array part is %s" % ("/".join(fpts[-1][1:]), tail), tail)
        # FieldGroupsIter: distinct keys in first-appearance order, hint = groups still to come
        order, seen, firsts = [], set(), []
        for (ki, ktok, op, v) in fs:
            kb = ktok.split(":", 1)[1]
            if kb not in seen:
                seen.add(kb)
                order.append(ktok)
                firsts.append(value_end(toks, v))
        g = len(order)
        if len(gpts) != g + 2:
            fail("groups-count", "FieldGroupsIter returns %d groups, the object has %d distinct keys" % (len(gpts) - 2, g), str(g)); return
        if gpts[0][0] != "-" or int(gpts[0][1]) != g:
            fail("groups-hint", "FieldGroupsIter::size_hint at creation is %s for %d groups" % (gpts[0][1], g), str(g))
        for k in range(g):
            p = gpts[k + 1]
            if p[0] != order[k]:
                fail("groups", "call %d of FieldGroupsIter::next returns key %s, the %d-th distinct key is %s" % (k, p[0], k, order[k]), order[k]); return
            if int(p[1]) != g - k - 1:
                fail("groups-hint", "FieldGroupsIter::size_hint after %d calls is %s, %d groups are left" % (k + 1, p[1], g - k - 1), str(g - k - 1)); return
        last = gpts[-1]
        if last[0] != "-" or int(last[1]) != 0:
            fail("groups-hint", "after the last group next() returns %s with size hint %s" % (last[0], last[1]), "-/0")
        if "/".join(last[2:]) != tail:
            fail("remainder", "FieldGroupsIter::remainder after the last group is %s, the trailing array part is %s" % ("/".join(last[2:]), tail), tail)
    if arange is not None:
        s, e = arange
        mm = re.match(r"^V:(.*)\|z=(\d)$", ar)
        if not mm:
            fail("format", "unparsable array iter view"); return
        if mm.group(2) != "1":
            fail("iter-fused", "an exhausted ValuesIter yields again or reports a non-zero size hint")
        pts = mm.group(1).split(";")
        n = len(ref_values(toks, s, e))
        if len(pts) != n + 1:
            fail("iter-values-count", "ValuesIter yields %d items, the range has %d" % (len(pts) - 1, n), str(n)); return
        for k, p in enumerate(pts):
            if p != "%d/%d" % (n - k, n - k):
                fail("hint-after-next", "ValuesIter::size_hint after %d next() is %s, %d values are left" % (k, p, n - k), "%d/%d" % (n - k, n - k)); return


def plain_ascii(raw):
    return all(32 < b < 127 and b != 92 for b in raw)


def expect_leaf(toks, i):
    """(tokens_len, scalar, str or None(unknown)/'E', obj, arr) of the value reader at i, from the tape alone"""
    t = toks[i]
    ce = cont_end(t)
    kind = t[:2]
    if kind in ("U:", "Q:", "P:", "N:", "H:"):
        raw = t[2:] if t[2:] else "-"
        sc = raw
        st = raw if plain_ascii(unhex(raw)) else None
    elif kind == "OP":
        sc, st = "E", {"0": "<", "1": "<=", "2": ">", "3": ">=", "4": "!=", "5": "==", "6": "=", "7": "?="}[t[3:]].encode().hex()
    else:
        sc, st = "E", "E"
    if kind == "O:":
        fs, r = ref_fields(toks, i + 1, ce)
        ob = "o%d/%d" % (ce - i - 1, len(fs))
        a_s = (r + 1) if t.endswith(":1") else (i + 1)
        ar = "a%d/%d" % (ce - a_s, len(ref_values(toks, a_s, ce)))
        tl = ce - i - 1
    elif kind == "A:":
        ob = "o0/0"
        ar = "a%d/%d" % (ce - i - 1, len(ref_values(toks, i + 1, ce)))
        tl = ce - i - 1
    elif kind == "H:":
        ob, ar, tl = "E", "a%d/2" % (value_end(toks, i) - i), 1
    else:
        ob, ar, tl = "E", "E", 1
    return tl, sc, st, ob, ar


def check_leaf(ctx, case, o, toks, idx):
    fail = lambda key, msg, exp=None: ctx.fail(key, "node %s: %s" % (idx, msg), [case], [o], exp)
    if o in ("PANIC", "ABORT", "HANG"):
        fail("dom-crash", "the value reader API crashes", "no panic"); return
    if o == "UNREACH":
        return
    if "MISMATCH" in o:
        fail("reader-variants", "read_str / read_string / Reader enum / ValueReader::decode disagree on the same value"); return
    try:
        orange, arange = node_ranges(toks, idx)
        fs = ref_fields(toks, *orange)[0] if orange else []
        vals = ref_values(toks, *arange) if arange else []
    except (ValueError, IndexError, TypeError):
        return
    parts = o.split(" ") if o else []
    if "|" not in parts:
        fail("format", "unparsable leaf view"); return
    bar = parts.index("|")
    fparts, vparts = parts[:bar], parts[bar + 1:]
    if len(fparts) != len(fs) or len(vparts) != len(vals):
        fail("leaf-count", "%d field values and %d array values observed, the node has %d and %d" % (len(fparts), len(vparts), len(fs), len(vals))); return

    def one(p, i, what):
        f = p.split(":")
        # idx : token(kind:payload[:flag]) : tl : sc : str : obj : arr : renum  -- the token itself contains ':'
        tokstr = toks[i]
        head = "%d:%s:" % (i, tokstr)
        if not p.startswith(head):
            fail("token", "%s: value reader sits on %s, expected index %d token %s" % (what, ":".join(f[:3]), i, tokstr), head); return False
        rest = p[len(head):].split(":")
        if len(rest) != 6:
            fail("format", "unparsable leaf %s" % p); return False
        tl, sc, st, ob, ar, renum = rest
        etl, esc, est, eob, ear = expect_leaf(toks, i)
        if int(tl) != etl:
            fail("tokens-len", "%s: tokens_len %s" % (what, tl), str(etl)); return False
        if sc != esc:
            fail("scalar", "%s: read_scalar gives %s" % (what, sc), esc); return False
        if (est is not None and st != est) or (est is None and st == "E"):
            fail("read-str", "%s: read_str gives %s" % (what, st), str(est)); return False
        if ob != eob:
            fail("read-object", "%s: read_object gives %s (tokens_len/fields_len)" % (what, ob), eob); return False
        if ar != ear:
            fail("read-array", "%s: read_array gives %s (tokens_len/len)" % (what, ar), ear); return False
        if renum != "%s/%s" % (st, sc):
            fail("reader-variants", "%s: Reader::Value gives %s, the value reader %s/%s" % (what, renum, st, sc)); return False
        return True

    for p, (ki, ktok, op, v) in zip(fparts, fs):
        m = re.match(r"^k([0-9a-f-]+)/([0-9a-f-]+)([0-7-])=(.*)$", p)
        if not m:
            fail("format", "unparsable field leaf %s" % p); return
        kraw = ktok.split(":", 1)[1] or "-"
        if m.group(2) != kraw or (plain_ascii(unhex(kraw)) and m.group(1) != kraw):
            fail("key", "key reader of field at %d gives %s/%s" % (ki, m.group(1), m.group(2)), kraw); return
        if m.group(3) != op:
            fail("fields-spec", "operator of field at %d is %s" % (ki, m.group(3)), op); return
        if not one(m.group(4), v, "value of field at %d" % ki):
            return
    for p, i in zip(vparts, vals):
        if not one(p, i, "array value at %d" % i):
            return


def run_iter(ctx, parsed, extra_parsed):
    """parsed: the documents of the main C17 run (sampled); extra_parsed: wide / deep documents (all)"""
    rng = ctx.rng
    cases, meta = [], []
    from props import C17
    for src, docs in (("main", parsed), ("extra", extra_parsed)):
        for (d, tape, toks) in docs:
            if src == "main" and rng.random() > ctx.scale(0.3, 1.0):
                continue
            enc = "u" if rng.random() < 0.3 else "w"
            for idx in C17.node_indices(toks):
                for kind in ("dom.iter", "dom.leaf"):
                    cases.append("%s\t%s\t%s\t%s\t%s" % (kind, hexs(d), tape, enc, idx))
                    meta.append((kind, toks, idx))
    ctx.count("iter/leaf cases", len(cases))
    ic = [c for c, m in zip(cases, meta) if m[0] == "dom.iter"]
    im = [m for m in meta if m[0] == "dom.iter"]
    lc = [c for c, m in zip(cases, meta) if m[0] == "dom.leaf"]
    lm = [m for m in meta if m[0] == "dom.leaf"]
    impl, _ = ctx.correspond("iter", ic, nontrivial=lambda c, i: ";" in i)
    base = len(impl) - len(ic)
    for k, c in enumerate(ic):
        check_iter(ctx, c, impl[base + k], im[k][1], im[k][2])
    impl, _ = ctx.correspond("leaf", lc, nontrivial=lambda c, i: len(i) > 3)
    base = len(impl) - len(lc)
    for k, c in enumerate(lc):
        check_leaf(ctx, c, impl[base + k], lm[k][1], lm[k][2])
    # debug profile (debug_assert in FieldsIter::next, usize subtraction in tokens_len): a sample
    sample = [c for c in ic if rng.random() < 0.15]
    dimpl, _ = ctx.correspond("iter_debug", sample, profile="debug", nontrivial=lambda c, i: ";" in i)
    db = len(dimpl) - len(sample)
    for k, c in enumerate(sample):
        if dimpl[db + k] in ("PANIC", "ABORT", "HANG"):
            ctx.fail("dom-crash", "iterating crashes in a debug build", [c], [dimpl[db + k]], "no panic")
