"""C19 wave 6 (s_c19): SIZE / BOUNDARY ladders of the truncation property.

Every other C19 stream cuts SMALL documents (<= 400 bytes, scalars <= 44 bytes, depth <= 5, <= 7 top-level fields, <= 43 tokens,
tuple targets of arity <= 3) at every offset.  A change that only misbehaves beyond a size boundary (a 16-byte block loop of a
scanner far from the start, a depth counter narrower than usize, a u16 length, a capped count of fields / elements, a buffer that
is refilled more than once inside one token, an input longer than 2^16) was invisible.  Here ONE dimension at a time is taken up
the ladder
    0 1 2 3 7 8 9 15 16 17 31 32 33 63 64 65 127 128 129 255 256 257 1023 1024 1025 4095 4096 4097 65533 65534 65535 65536
on an otherwise small document, and the document is cut at the offsets that matter for that dimension (ladder offsets inside
the long item, every offset around its start and end, every offset near the end of the document).

All expectations come from the BUILDER (the byte span of every lexeme and the tape / token list the document denotes are known
by construction); no model and no implementation output is used as a reference:
  text tape      accepted  =>  props/C19_view.consistent_tape against the builder's tape (one token free; one auto-closed top-level
                 OBJECT) AND the number of tokens is exactly the number of lexemes that start before the cut (nothing dropped);
  text readers   the tokens are the builder's tokens in order, all those that end before the cut are there, the last one may be
                 the unquoted scalar standing at the cut shortened to exactly its bytes before the cut; a cut inside a quoted
                 string / `@[..]` is never a clean end;
  binary lexer / slice reader / stream reader   exactly the complete tokens; clean end iff the cut is a token boundary;
  binary tape    accepted only AT a builder-recorded top-level boundary (+1 stray byte), tape = the first n expected tokens,
                 every boundary accepted (optimised, reference, from_slice);
  deserializers  dedoc.expected on the abstract document cut after its n-th complete field (binary: accepted only at a field
                 boundary; text: props/C19_typed.judge_cut_value for the field being cut), typed targets with FIXED-ARITY tuples
                 of arity 0..300 (seeded change C19_5 lived in the arity dimension), Option nests, sequences of tuples, ignored
                 containers of depth 0..300, structs of 0..300 fields, maps of 0..4097 entries, strings up to 65535 bytes.
Small cases also run on the extracted Coq models (correspondence); cases above BIG bytes run with model=False (the extracted
parsers are roughly quadratic there) and are judged by the independent oracle alone."""
import struct
from vlib import hexs
from props import C08 as B
from props import dedoc as D
from props.dedoc import hx
from props import C19_view as V
from props import C19_typed as TY

CRASH = ("PANIC", "ABORT", "HANG")
LADDER = [0, 1, 2, 3, 7, 8, 9, 15, 16, 17, 31, 32, 33, 63, 64, 65, 127, 128, 129, 255, 256, 257, 1023, 1024, 1025, 4095, 4096, 4097,
          65533, 65534, 65535, 65536]
BIG = 1000          # prefixes longer than this run without the extracted model (tape parsers)
BIG_TOK = 160       # the same for the token readers (the extracted streaming readers are the slowest models)


def lad(hi, lo=0):
    return [x for x in LADDER if lo <= x <= hi]


def lad_text(hi, lo=0):
    """lengths of text items (no u16 length prefix in the text format): the ladder up to 4097, then 65536 once"""
    return [x for x in LADDER if lo <= x <= hi and (x <= 4097 or x == 65536)]


def window(points, n, radius):
    """every offset within `radius` of each point, clipped to 0..n"""
    s = set()
    for p in points:
        for k in range(p - radius, p + radius + 1):
            if 0 <= k <= n:
                s.add(k)
    return s


# ====================================================================================== text builder
OPS = {"<": 0, "<=": 1, ">": 2, ">=": 3, "!=": 4, "==": 5, "=": 6, "?=": 7}


class TB:
    """a text document written lexeme by lexeme; records the tape it denotes (tt.parse syntax) with the byte offset at which
    every tape token's lexeme starts, the token-reader tokens with their spans, and the spans inside which a cut must never
    be read as a clean end (quoted strings, `@[..]`)."""

    def __init__(self, bom=False):
        self.out = bytearray(b"\xef\xbb\xbf" if bom else b"")
        self.tape, self.tstart = [], []
        self.rt, self.rspan = [], []
        self.stack = []
        self.hard = []
        self.points = [len(self.out)]        # offsets worth a window of cuts
        self.reader_ok = True

    def _tape(self, tok, start):
        self.tape.append(tok); self.tstart.append(start)

    def raw(self, b):
        self.out += b
        return self

    def mark(self):
        self.points.append(len(self.out))
        return self

    def word(self, b, tapekind="U"):
        s = len(self.out)
        self.out += b
        self._tape("%s:%s" % (tapekind, hexs(b)), s)
        self.rt.append("U:" + hexs(b)); self.rspan.append((s, len(self.out), b))
        if b.startswith(b"@["):
            self.hard.append((s, len(self.out)))
        return self

    def quoted(self, rawb):
        s = len(self.out)
        self.out += b'"' + rawb + b'"'
        self._tape("Q:" + hexs(rawb), s)
        self.rt.append("Q:" + hexs(rawb)); self.rspan.append((s, len(self.out), None))
        self.hard.append((s, len(self.out)))
        return self

    def op(self, o="="):
        s = len(self.out)
        self.out += o.encode()
        if o != "=":
            self._tape("OP:%d" % OPS[o], s)
        self.rt.append("OP:%d" % OPS[o]); self.rspan.append((s, len(self.out), None))
        return self

    def open(self, kind):
        s = len(self.out)
        self.out += b"{"
        self.stack.append((len(self.tape), kind))
        self._tape(None, s)
        self.rt.append("O"); self.rspan.append((s, s + 1, None))
        return self

    def close(self):
        idx, kind = self.stack.pop()
        s = len(self.out)
        self.out += b"}"
        self.tape[idx] = "%s:%d:0" % (kind, len(self.tape))
        self._tape("E:%d" % idx, s)
        self.rt.append("C"); self.rspan.append((s, s + 1, None))
        return self

    def param(self, name, undefined=False):
        """`[[name]` ... caller writes the value ... then endparam()"""
        s = len(self.out)
        self.out += b"[[" + (b"!" if undefined else b"") + name + b"]"
        self._tape(("N:" if undefined else "P:") + hexs(name), s)
        self.hard.append((s, len(self.out)))
        self.reader_ok = False               # the token readers know no parameter syntax
        return self

    def endparam(self):
        self.out += b"]"
        return self

    def kv(self, k, v, sep=b" "):
        self.word(k).op().word(v).raw(sep)
        return self

    def data(self):
        assert not self.stack
        return bytes(self.out)


# ------------------------------------------------------------------ text documents, one dimension each
def text_docs():
    """[(tag, TB, set of cuts)]"""
    out = []

    def add(tag, tb, cuts=None, radius=3, extra=()):
        d = tb.data()
        n = len(d)
        if n > 20000:
            radius = min(radius, 2)          # the cost of a case is the length of its prefix
        c = set(range(n + 1)) if cuts == "all" else window(tb.points + [n], n, radius)
        c |= {k for k in extra if 0 <= k <= n}
        out.append((tag, tb, c))

    def ladder_in(s, L):
        return [s + j for j in lad(L)] if L >= 64 else []          # short items: the windows around both ends cover them

    # unquoted value / key, quoted value (plain, with escapes), @[..], header, parameter name: LENGTH of the item
    for L in lad_text(65536, 1):
        for bom in ([False, True] if L in (1, 16, 17, 65536) else [False]):
            tb = TB(bom).word(b"k").op().mark()
            s = len(tb.out)
            tb.word(b"x" * L).mark().raw(b"\n").kv(b"y", b"z", b"\n")
            add("uval", tb, extra=ladder_in(s, L))
    for L in lad_text(65536, 1):
        tb = TB().mark()
        tb.word(b"w" * L).mark().op().word(b"v").raw(b" ").kv(b"y", b"z", b"")
        add("ukey", tb, extra=ladder_in(0, L))
    for L in lad_text(65536):
        for esc in ("", "head", "tail", "b16"):
            body = bytearray(b"q" * L)
            if esc == "head":
                if L < 2:
                    continue
                body[0:2] = b'\\"'
            elif esc == "tail":
                if L < 4:
                    continue
                body[L - 2:L] = b'\\"'
            elif esc == "b16":
                if L < 33:
                    continue
                body[15:17] = b"\\\\"; body[31:33] = b'\\"'
            tb = TB().word(b"k").op().mark()
            s = len(tb.out)
            tb.quoted(bytes(body)).mark().raw(b" ").kv(b"y", b"z", b"")
            add("qval" + ("-" + esc if esc else ""), tb, extra=ladder_in(s + 1, L))
    for L in lad_text(65536):
        tb = TB().word(b"k").op().mark()
        s = len(tb.out)
        tb.word(b"@[" + b"1" * L + b"]").mark().raw(b" ").kv(b"y", b"z", b"")
        add("expr", tb, extra=ladder_in(s + 2, L))
    for L in lad(4097, 1):
        tb = TB().word(b"k").op().mark()
        s = len(tb.out)
        tb.word(b"h" * L, "H").open("A").word(b"1").raw(b" ").word(b"2").close().mark().raw(b" ").kv(b"y", b"z", b"")
        add("header", tb, extra=ladder_in(s, L))
    for L in lad(4097, 1):
        for undef in ((False, True) if L in (1, 16, 17, 257) else (False,)):
            tb = TB().kv(b"a", b"b").mark()
            s = len(tb.out)
            tb.param(b"n" * L, undef).mark().word(b"v").endparam().mark().raw(b" ").kv(b"y", b"z", b"")
            add("param", tb, extra=ladder_in(s + 2, L))
    # white space run / comment: LENGTH of the gap
    for L in lad_text(65536):
        for unit in (b" ", b"\n", b"\t", b"\r\n", b" ;"):          # `;` is skipped between fields but does not end an unquoted scalar
            if L > 257 and unit not in (b" ", b"\r\n"):
                continue
            gap = (unit * L)[:L] if L else b""
            if L == 0:
                gap = b" "
            tb = TB().word(b"k").op().word(b"v").mark()
            s = len(tb.out)
            tb.raw(gap).mark().kv(b"y", b"z", b"")
            add("ws", tb, extra=ladder_in(s, L))
    for L in lad_text(65536):
        for closed in (True, False):
            tb = TB().word(b"k").op().word(b"v").raw(b" ").mark()
            s = len(tb.out)
            tb.raw(b"#" + b"c" * L)
            if closed:
                tb.mark().raw(b"\n").kv(b"y", b"z", b"")
            add("comment", tb, extra=ladder_in(s + 1, L))
    # DEPTH: open containers at the cut
    depths = [d for d in LADDER if d <= 300] + [130, 300]
    for Dp in sorted(set(depths)):
        for kind in ("obj", "arr", "objnoeq", "alt"):
            if kind in ("objnoeq", "alt") and Dp not in (1, 2, 3, 9, 17, 65, 130, 300):
                continue
            for bom in ([False, True] if Dp in (1, 2) else [False]):
                tb = TB(bom).kv(b"p", b"q").mark()
                if kind == "arr":
                    if Dp == 0:
                        continue
                    tb.word(b"a").op()
                    for _ in range(Dp):
                        tb.open("A")
                    tb.mark().word(b"1").raw(b" ").word(b"22").mark()
                else:
                    for i in range(Dp):
                        tb.word(b"a")
                        if kind == "obj" or (kind == "alt" and i % 2 == 0):
                            tb.op()
                        tb.open("O")
                        if kind != "obj":
                            tb.kv(b"f", b"g")          # `a{` must not be the first field of its container (the first separator decides object / array)
                    tb.mark().word(b"x").op().word(b"yy").mark()
                for i in range(Dp):
                    tb.close()
                    if i in (0, 1, Dp - 2, Dp - 1):
                        tb.mark()
                tb.raw(b" ").kv(b"z", b"w", b"")
                n = len(tb.out)
                add("depth-" + kind, tb, cuts="all" if Dp <= 8 else None, radius=4, extra=lad(n))
    # COUNT of completed top-level fields before the cut; the last field is an object (auto-close candidate)
    for N in lad_text(65536):
        tb = TB()
        for i in range(N):
            tb.word(b"k%d" % i).op().word(b"v%d" % i).raw(b"\n")
            if i + 1 in LADDER and (N == 4097 or i + 1 == 65535):
                tb.mark()
        tb.mark().word(b"last").op().open("O").kv(b"a", b"b").mark().word(b"c").op().quoted(b"d e").raw(b" ").close().mark()
        n = len(tb.out)
        add("fields", tb, cuts="all" if N <= 9 else None, radius=5, extra=[n - j for j in (range(26) if N <= 4097 else (0, 1, 2, 3, 4, 6, 8, 12, 13, 15, 18, 22))])
    # TAPE INDEX of the container being cut: exactly 65535 / 65536 / 65537 / 131072 (`k=v` is 2 tokens, `e={}` 3, the key of the container 1)
    for idx in (65535, 65536, 65537, 131072):
        tb = TB()
        n = 1
        if idx % 2 == 0:
            tb.word(b"e").op().open("A").close().raw(b"\n")
            n += 3
        i = 0
        while n < idx:
            tb.word(b"k%d" % i).op().word(b"v").raw(b"\n")
            n += 2; i += 1
        tb.mark().word(b"last").op().open("O")
        assert len(tb.tape) - 1 == idx
        tb.kv(b"a", b"b").mark().word(b"c").op().word(b"d").raw(b" ").mark().close().mark()
        add("tapeidx", tb, radius=1)
    # COUNT of fields inside the container being cut (object: auto-closed with N fields; array: never accepted)
    for N in lad(4097):
        tb = TB().kv(b"p", b"q").word(b"o").op().open("O" if N else "A").mark()          # `{}` is an empty array on the tape
        for i in range(N):
            tb.word(b"k").op().word(b"%d" % i).raw(b" ")
            if i + 1 in LADDER and N == 4097:
                tb.mark()
        tb.mark().close().mark()
        add("inobj", tb, radius=5)
        tb = TB().kv(b"p", b"q").word(b"o").op().open("A").mark()
        for i in range(N):
            tb.word(b"%d" % i).raw(b" ")
            if i + 1 in LADDER and N == 4097:
                tb.mark()
        tb.mark().close().mark()
        add("inarr", tb, radius=5)
    # document LENGTH: cut positions around 2^16 inside one long document, one per lexeme kind standing at 65536
    for shift in range(0, 14):
        tb = TB().raw(b" " * shift)
        while len(tb.out) < 65536 + 40:
            tb.word(b"ab").op().quoted(b"cd").raw(b" ").word(b"e").op(">=").open("A").word(b"1").raw(b" ").close().raw(b"\n")
        out.append(("long", tb, set(range(65534, 65539))))
    return out


def exact_tokens(tb, k):
    """number of tape tokens whose lexeme starts before the cut"""
    lo, hi = 0, len(tb.tstart)
    while lo < hi:
        mid = (lo + hi) // 2
        if tb.tstart[mid] < k:
            lo = mid + 1
        else:
            hi = mid
    return lo


def run_text_tape(ctx, docs):
    small, big = [], []
    for tag, tb, cuts in docs:
        d = tb.data()
        ctx.count("size_text_docs_" + tag.split("-")[0])
        for k in sorted(cuts):
            (big if k > BIG else small).append((tag, tb, d, k))
    for stream, items, model in (("size_text_tape", small, True), ("size_text_tape_big", big, False)):
        cases = ["tt.parse\t%s" % hexs(d[:k]) for (_, _, d, k) in items]
        impl, _ = ctx.correspond(stream, cases, model=model, nontrivial=lambda c, i: i.startswith("ok") and len(i) > 6)
        base = len(impl) - len(cases)
        for j, (tag, tb, d, k) in enumerate(items):
            o = impl[base + j]
            what = "%s document of %d bytes (%s...) cut at %d" % (tag, len(d), bytes(d[:24]), k)
            if o in CRASH:
                ctx.fail("size-text-trunc-crash", "tt.parse on the %s: %s" % (what, o), [cases[j]], [o]); continue
            if k == len(d):
                want = "ok %d %s" % (1 if d.startswith(b"\xef\xbb\xbf") else 0, " ".join(tb.tape) or "-")
                if o != want:
                    ctx.fail("size-text-complete", "tt.parse on the COMPLETE %s returned %s, the builder's tape is %s" % (what, o[:160], want[:160]), [cases[j]], [o], want[:2000])
                continue
            if not o.startswith("ok "):
                ctx.count("size_text_tape_refused"); continue
            ctx.count("size_text_tape_accepted")
            t = V.toks_of(o)
            why = V.consistent_tape(tb.tape, t)
            if not why and t:
                n = exact_tokens(tb, k)
                # the End token an auto-close appends has no lexeme in the prefix
                appended = t[-1].startswith("E:") and (not V.prefix_cut(t, tb.tape) or tb.tstart[len(t) - 1] >= k)
                got = len(t) - (1 if appended else 0)
                if got != n:
                    why = "%d tokens, but %d lexemes start before the cut (completed fields were dropped or invented)" % (got, n)
            if why:
                ctx.fail("size-text-trunc", "tt.parse on the %s accepted it as %s: %s" % (what, (o[:80] + " ... " + o[-120:]) if len(o) > 220 else o, why),
                         [cases[j]], [o if len(o) < 4000 else o[:2000] + " ... " + o[-2000:]], "an error, or the builder's tape cut short")


# ------------------------------------------------------------------ text token readers
def judge_reader(tb, k, o, undersized=False):
    s = o.rsplit(" ", 2)
    if len(s) == 3:
        P, end = (s[0].split(" ") if s[0] else []), s[1]
    elif len(s) == 2:
        P, end = [], s[0]
    else:
        return "unreadable output"
    if not s[-1].startswith("@"):
        return "unreadable output"
    ends_ok = ("END", "ERR:102") + (("ERR:101",) if undersized else ())
    if end not in ends_ok:
        return "terminal %s" % end
    lo = sum(1 for (a, b, _) in tb.rspan if b < k)
    hi = sum(1 for (a, b, _) in tb.rspan if a < k)
    if len(P) > hi:
        return "%d tokens, only %d lexemes start before the cut" % (len(P), hi)
    if len(P) < lo and not (undersized and end == "ERR:101"):
        return "%d tokens, but %d lexemes end before the last byte of the prefix (tokens were dropped)" % (len(P), lo)
    for i, t in enumerate(P):
        if t == tb.rt[i]:
            a, b, _ = tb.rspan[i]
            if b > k:
                return "token %d (%s...) is complete although its lexeme ends at %d, beyond the cut" % (i, t[:40], b)
            continue
        a, b, word = tb.rspan[i]
        if i == len(P) - 1 and word is not None and a < k < b and t == "U:" + hexs(word[:k - a]) and end == "END":
            continue
        return "token %d is %s..., the document has %s... there" % (i, t[:60], tb.rt[i][:60])
    if end == "END":
        for (a, b) in tb.hard:
            if a < k < b:
                return "clean end although the cut is inside the quoted string / @[..] at %d..%d" % (a, b)
    return None


def run_text_readers(ctx, docs):
    small, big = [], []
    nbig = 0
    for di, (tag, tb, cuts) in enumerate(docs):
        if not tb.reader_ok:
            continue
        d = tb.data()
        longest = max([b - a for (a, b, _) in tb.rspan] + [1])
        gap = 0
        for piece in bytes(d).split(b"\n"):
            if b"#" in piece:
                gap = max(gap, len(piece) - piece.index(b"#") + 2)
        cap = max(64, longest + 16, gap + 16)
        near_end = set(range(len(d) - 3, len(d) + 1)) | {p for p in tb.points}
        for k in sorted(cuts):
            h = hexs(d[:k])
            # the slice reader always; ONE streaming schedule per cut, rotating (full reads / 1-byte reads / mixed reads)
            cs = [("tr.slice\t%s" % h, False)]
            rot = (k + di) % 3 if k <= 4200 else 0
            if rot == 1 and (k <= 150 or k in near_end):
                cs.append(("tr.stream\t%d\t%s\t%s" % (cap, ",".join(["1"] * k) or "-", h), False))
            elif rot == 2:
                cs.append(("tr.stream\t%d\t%s\t%s" % (cap, "3,1,7,2,5,16,1,64", h), False))
            else:
                cs.append(("tr.stream\t%d\t-\t%s" % (cap, h), False))
            if tag in ("uval", "qval", "ws", "comment") and k in (65535, 65536, len(d)) and k > 4200:
                cs.append(("tr.stream\t%d\t%s\t%s" % (cap, ",".join(["4096", "1", "8191"] * 12), h), False))
            for c, u in cs:
                (big if k > BIG_TOK else small).append((tag, tb, d, k, c, u))
    # buffer size at the cut: one small document, every cut, capacity ladder (the longest lexeme has 9 bytes)
    tb = TB().word(b"ab").op().word(b"cd").raw(b" ").word(b"e").op().open("O").word(b"f").op().quoted(b"g h\\\"i").raw(b" ").word(b"i").op(">=").word(b"1").close() \
        .raw(b" #c\n ").word(b"jklmnopq").op().word(b"@[1+2]").raw(b"\n").word(b"r").raw(b" ").op("?=").word(b"s").raw(b"\t")
    d = tb.data()
    for cap in [10, 11, 12, 13, 14, 15, 16, 17, 31, 32, 33, 63, 64, 65, 127, 128, 129, 255, 256, 257, 1023, 1024, 1025, 4095, 4096, 4097, 32768, 65535, 65536]:
        for k in range(len(d) + 1):
            h = hexs(d[:k])
            sched = ("-", ",".join(["1"] * k) or "-", "5,1,3,9,2")[(k + cap) % 3]
            small.append(("bufsize", tb, d, k, "tr.stream\t%d\t%s\t%s" % (cap, sched, h), cap < 12))
    # a token larger than the buffer: BufferFull (or Eof), never a fabricated token
    for L in (64, 255, 4096):
        for cap in (L - 1, L, L + 1, L + 2):
            tb = TB().word(b"k").op().word(b"x" * L).raw(b" ").word(b"y").op().quoted(b"q" * L).raw(b" ").kv(b"z", b"w", b"")
            d = tb.data()
            for k in sorted(window([2, 2 + L, 5 + L, 7 + 2 * L, len(d)], len(d), 3)):
                (small if k <= BIG_TOK else big).append(("undersized", tb, d, k, "tr.stream\t%d\t-\t%s" % (cap, hexs(d[:k])), True))
    for stream, items, model in (("size_text_tokens", small, True), ("size_text_tokens_big", big, False)):
        cases = [c for (_, _, _, _, c, _) in items]
        impl, _ = ctx.correspond(stream, cases, model=model, nontrivial=lambda c, i: " END @" in i)
        base = len(impl) - len(cases)
        for j, (tag, tb, d, k, c, undersized) in enumerate(items):
            o = impl[base + j]
            kind = c.split("\t")[0] + ((" cap=%s sched=%s" % (c.split("\t")[1], c.split("\t")[2][:20])) if c.startswith("tr.stream") else "")
            what = "%s on the %s document of %d bytes (%s...) cut at %d" % (kind, tag, len(d), bytes(d[:24]), k)
            if o in CRASH:
                ctx.fail("size-text-lex-crash", "%s: %s" % (what, o), [c], [o]); continue
            why = judge_reader(tb, k, o, undersized)
            if why:
                ctx.fail("size-text-lex-trunc", "%s returned %s: %s" % (what, (o[:80] + " ... " + o[-100:]) if len(o) > 200 else o, why), [c],
                         [o if len(o) < 4000 else o[:2000] + " ... " + o[-2000:]], "the builder's tokens cut short")
            else:
                ctx.count("size_text_tokens_" + ("end" if " END @" in o else "err"))


# ====================================================================================== binary builder
def u16(x):
    return struct.pack("<H", x)


class BB:
    """a binary document written token by token: lexer tokens (C08 syntax) with their end offsets, the tape it denotes
    (C03 / bt.all syntax), top-level boundaries {offset: number of tape tokens}."""

    def __init__(self):
        self.out = bytearray()
        self.lt, self.lend = [], []
        self.tape = []
        self.stack = []
        self.bounds = {0: 0}
        self.points = [0]

    def _l(self, t):
        self.out += B.enc(t)
        self.lt.append(B.txt(t)); self.lend.append(len(self.out))

    def mark(self):
        self.points.append(len(self.out))
        return self

    def tok(self, t):
        """scalar token (C08 tuple)"""
        self._l(t)
        k = t[0]
        if k == "BOOL":
            self.tape.append("B:%d" % (1 if t[1] else 0))
        elif k in ("F32", "F64"):
            self.tape.append("%s:%s" % (k, t[1].hex()))
        elif k == "RGB":
            c = t[1]
            self.tape.append("RGB:%d,%d,%d,%s" % (c[0], c[1], c[2], "-" if len(c) == 3 else str(c[3])))
        else:
            self.tape.append(B.txt(t))
        return self

    def eq(self):
        self._l(("EQ",))
        return self

    def open(self, obj):
        self._l(("O",))
        self.stack.append((len(self.tape), obj))
        self.tape.append(None)
        return self

    def close(self):
        self._l(("C",))
        i, obj = self.stack.pop()
        self.tape[i] = "%s:%d" % ("O" if obj else "A", len(self.tape))
        self.tape.append("E:%d" % i)
        return self

    def ghost(self):
        self._l(("O",)); self._l(("C",))
        return self

    def top(self):
        """a top-level field (or ghost) just ended"""
        assert not self.stack
        self.bounds[len(self.out)] = len(self.tape)
        return self

    def field(self, key, val):
        self.tok(key).eq().tok(val).top()
        return self


def bin_docs():
    out = []

    def add(tag, bb, cuts=None, radius=4, extra=()):
        n = len(bb.out)
        if n > 20000:
            radius = min(radius, 2)
        c = set(range(n + 1)) if cuts == "all" else window(bb.points + [n], n, radius)
        c |= {k for k in extra if 0 <= k <= n}
        out.append((tag, bb, c))

    # string payload LENGTH (value, key; quoted, unquoted): inside the id, the length prefix, the payload
    for L in lad(65535):
        for kind in ("Q", "U"):
            if L in (65533, 65534) and kind != ("Q" if L % 2 else "U"):
                continue
            bb = BB().field(("T", 0x2d82), ("I32", 7)).tok(("T", 0x2d83)).eq().mark()
            s = len(bb.out)
            bb.tok((kind, b"s" * L)).top().mark().field(("T", 0x2d84), ("U32", 1))
            add("strval", bb, extra=[s + 4 + j for j in lad(L)] if L >= 64 else [])
            if kind == "U" and L not in (0, 1, 16, 255, 256, 65535):
                continue
            bb = BB().field(("T", 0x2d82), ("I32", 7)).mark()
            s = len(bb.out)
            bb.tok((kind, b"k" * L)).mark().eq().tok(("BOOL", True)).top().mark().field(("T", 0x2d84), ("U32", 1))
            add("strkey", bb, extra=[s + 4 + j for j in lad(L)] if L >= 64 else [])
    # every fixed-width token, every byte of it, behind 0 / 1 / 8 fields
    fixed = [("U32", 0xdeadbeef), ("U64", 2 ** 64 - 2), ("I32", -2), ("I64", -3), ("F32", b"\x01\x02\x03\x04"), ("F64", bytes(range(8))), ("BOOL", True), ("RGB", (1, 2, 3)),
             ("RGB", (1, 2, 3, 4)), ("T", 0x2d85), ("Q", b""), ("U", b"a")]
    for pre in (0, 1, 8):
        bb = BB()
        for i in range(pre):
            bb.field(("T", 0x3000 + i), ("I32", i))
        bb.mark()
        for i, t in enumerate(fixed):
            bb.tok(("T", 0x2e00 + i)).eq().tok(t).top()
        add("fixed", bb, cuts="all")
    # DEPTH of open containers at the cut: object chain, array chain
    for Dp in sorted(set([d for d in LADDER if d <= 300] + [130, 300])):
        bb = BB().field(("T", 0x2d82), ("I32", 7)).mark()
        for i in range(Dp):
            bb.tok(("T", 0x2d90)).eq().open(True)
        bb.mark().tok(("T", 0x2d91)).eq().tok(("I32", 5)).mark()
        for i in range(Dp):
            bb.close()
            if i in (0, 1, Dp - 2, Dp - 1):
                bb.mark()
        if Dp:
            bb.top()
        else:
            bb.top()
        bb.field(("T", 0x2d84), ("U32", 1))
        add("depth-obj", bb, cuts="all" if Dp <= 3 else None, radius=5, extra=lad(len(bb.out)))
        if Dp:
            bb = BB().field(("T", 0x2d82), ("I32", 7)).mark().tok(("T", 0x2d90)).eq()
            for i in range(Dp):
                bb.open(False)
            bb.mark().tok(("I32", 5)).tok(("I32", 6)).mark()
            for i in range(Dp):
                bb.close()
                if i in (0, 1, Dp - 2, Dp - 1):
                    bb.mark()
            bb.top().field(("T", 0x2d84), ("U32", 1))
            add("depth-arr", bb, cuts="all" if Dp <= 3 else None, radius=5, extra=lad(len(bb.out)))
    # COUNT of completed top-level fields; of elements / fields inside the container being cut; of leading ghosts
    for N in lad_text(65536):
        bb = BB()
        for i in range(N):
            bb.field(("T", 0x1000 + (i % 0x8000)), ("I32", i))
            if i + 1 in LADDER and (N == 4097 or i + 1 == 65535):
                bb.mark()
        bb.mark().tok(("T", 0x2d90)).eq().open(True).tok(("T", 0x2d91)).eq().tok(("Q", b"ab")).close().top().mark()
        add("fields", bb, cuts="all" if N <= 3 else None, radius=6, extra=[len(bb.out) - j for j in (range(20) if N <= 4097 else (0, 1, 2, 3, 4, 6, 8, 10, 12, 14, 16))])
    # TAPE INDEX of the container being cut: exactly 65535 / 65536 / 65537 / 131072
    for idx in (65535, 65536, 65537, 131072):
        bb = BB()
        n = 1
        if idx % 2 == 0:
            bb.tok(("T", 0x2d80)).eq().open(False).close().top()
            n += 3
        i = 0
        while n < idx:
            bb.field(("T", 0x1000 + (i % 0x8000)), ("I32", i))
            n += 2; i += 1
        bb.mark().tok(("T", 0x2d90)).eq().open(True)
        assert len(bb.tape) - 1 == idx
        bb.tok(("T", 0x2d91)).eq().tok(("I32", 1)).mark().tok(("T", 0x2d92)).eq().tok(("Q", b"ab")).mark().close().top().mark()
        add("tapeidx", bb, radius=2)
    for N in lad(4097):
        bb = BB().field(("T", 0x2d82), ("I32", 7)).tok(("T", 0x2d90)).eq().open(False).mark()
        for i in range(N):
            bb.tok(("I32", i))
            if i + 1 in LADDER and N == 4097:
                bb.mark()
        bb.mark().close().top().mark().field(("T", 0x2d84), ("U32", 1))
        add("inarr", bb, radius=5)
        bb = BB().field(("T", 0x2d82), ("I32", 7)).tok(("T", 0x2d90)).eq().open(True).mark()
        for i in range(max(N, 1)):
            bb.tok(("T", 0x1000 + i)).eq().tok(("I32", i))
            if i + 1 in LADDER and N == 4097:
                bb.mark()
        bb.mark().close().top().mark().field(("T", 0x2d84), ("U32", 1))
        add("inobj", bb, radius=5)
    for G in lad(300, 1):
        bb = BB().field(("T", 0x2d82), ("I32", 7)).mark()
        for i in range(G):
            bb.ghost().top()
            if i + 1 in LADDER and G == 300:
                bb.mark()
        bb.mark().field(("T", 0x2d84), ("U32", 1))
        add("ghosts", bb, cuts="all" if G <= 9 else None, radius=5)
    return out


def run_bin_tokens(ctx, docs):
    small, big = [], []
    for di, (tag, bb, cuts) in enumerate(docs):
        d = bytes(bb.out)
        longest = max(b - a for a, b in zip([0] + bb.lend[:-1], bb.lend))
        ctx.count("size_bin_docs_" + tag.split("-")[0])
        near_end = set(range(len(d) - 3, len(d) + 1)) | set(bb.points)
        for k in sorted(cuts):
            h = hexs(d[:k])
            cs = [("bl.lex\t%s" % h, 0), ("bl.rslice\t%s" % h, 0)]
            rot = (k + di) % 3 if k <= 4200 else 0
            if rot == 1 and (k <= 150 or k in near_end):
                cs.append(("bl.stream\t%s\t%d\t%s" % (h, longest + 7, ",".join(["1"] * k) or "-"), 0))
            elif rot == 2:
                cs.append(("bl.stream\t%s\t%d\t3,1,7,2,5,16,1,64" % (h, longest), 0))          # the buffer holds exactly the largest token
            else:
                cs.append(("bl.stream\t%s\t%d\t-" % (h, longest + 40), 0))
            if tag in ("strval", "strkey") and longest > 12:
                cs.append(("bl.stream\t%s\t%d\t-" % (h, longest - 1), longest - 1))          # one byte too small: BufferFull, never a token
            for c, under in cs:
                (big if k > BIG_TOK else small).append((tag, bb, d, k, c, under))
    for stream, items, model in (("size_bin_tokens", small, True), ("size_bin_tokens_big", big, False)):
        cases = [c for (_, _, _, _, c, _) in items]
        impl, _ = ctx.correspond(stream, cases, model=model, nontrivial=lambda c, i: "|END|" in i)
        base = len(impl) - len(cases)
        for j, (tag, bb, d, k, c, under) in enumerate(items):
            o = impl[base + j]
            kind = c.split("\t")[0]
            what = "%s on the %s document of %d bytes (%s...) cut at %d" % (kind, tag, len(d), d[:16].hex(), k)
            if o in CRASH:
                ctx.fail("size-lex-trunc-crash", "%s: %s" % (what, o), [c], [o]); continue
            p = o.split("|")
            if len(p) != 3:
                ctx.fail("size-lex-trunc-format", "%s: %s" % (what, o[:200]), [c], [o[:2000]]); continue
            ncomplete = sum(1 for e in bb.lend if e <= k)
            want = bb.lt[:ncomplete]
            got = [] if p[0] == "-" else p[0].split(" ")
            boundary = k == 0 or k in bb.lend
            short = lambda: (o[:80] + " ... " + o[-80:]) if len(o) > 200 else o
            if under:
                # a token that needs more than the buffer: the tokens before it, then an error
                nfit = 0
                prev = 0
                for e in bb.lend:
                    if e > k or e - prev > under:
                        break
                    nfit += 1; prev = e
                if got != bb.lt[:len(got)] or len(got) > ncomplete or len(got) < nfit or (p[1] == "END" and not (boundary and len(got) == ncomplete)):
                    ctx.fail("size-lex-trunc-tokens", "%s (buffer of %d bytes, one less than the largest token) returned %s" % (what, under, short()), [c], [o[:4000]], "a prefix of the complete tokens, then an error")
                continue
            if boundary:
                if got != want or p[1] != "END" or p[2] != str(k):
                    ctx.fail("size-lex-trunc-boundary", "%s (a token boundary) returned %s; expected exactly the %d complete tokens, a clean end and position %d" % (what, short(), len(want), k), [c], [o[:4000]],
                             "%d tokens|END|%d" % (len(want), k))
            elif p[1] == "END":
                ctx.fail("size-lex-trunc-clean-end", "%s (inside a token) reports a clean end of input: %s" % (what, short()), [c], [o[:4000]], "an error after %d tokens" % len(want))
            elif got != want:
                ctx.fail("size-lex-trunc-tokens", "%s (inside a token) returned %d tokens before the error, the prefix has %d complete tokens: %s" % (what, len(got), len(want), short()), [c], [o[:4000]], "%d tokens" % len(want))


def run_bin_tape(ctx, docs):
    from props import C03
    small, big = [], []
    for tag, bb, cuts in docs:
        d = bytes(bb.out)
        for k in sorted(cuts):
            (big if k > BIG else small).append((tag, bb, d, k))
    for stream, items, model in (("size_bin_tape", small, True), ("size_bin_tape_big", big, False)):
        cases = ["bt.all\t" + hexs(d[:k]) for (_, _, d, k) in items]
        impl, _ = ctx.correspond(stream, cases, model=model, nontrivial=lambda c, i: "OK " in i)
        base = len(impl) - len(cases)
        for j, (tag, bb, d, k) in enumerate(items):
            o = impl[base + j]
            what = "%s document of %d bytes (%s...) cut at %d" % (tag, len(d), d[:16].hex(), k)
            if o in CRASH or o.startswith("from_slice-differs"):
                ctx.fail("size-bintape-trunc-crash", "bt.all on the %s: %s" % (what, o[:160]), [cases[j]], [o[:2000]]); continue
            s = C03.split_all(o)
            if not s:
                ctx.fail("size-bintape-format", "bt.all on the %s: %s" % (what, o[:160]), [cases[j]], [o[:2000]]); continue
            n = bb.bounds.get(k, bb.bounds.get(k - 1))
            for which, res in (("optimised", s[0]), ("reference", s[1])):
                if res.startswith("OK"):
                    got = res.split(" ")[1:]
                    if n is None:
                        ctx.fail("size-bintape-trunc-accepted", "%s tape parser accepted the %s (not a top-level field boundary) with %d tokens" % (which, what, len(got)), [cases[j]], [o[:4000]], "an error")
                    elif got != bb.tape[:n]:
                        ctx.fail("size-bintape-trunc-fabricated", "%s tape parser on the %s returned %d tokens (...%s); the builder's tape up to that boundary has %d (...%s)"
                                 % (which, what, len(got), " ".join(got[-4:]), n, " ".join(bb.tape[max(0, n - 4):n])), [cases[j]], [o[:4000]], "the first %d tokens" % n)
                    else:
                        ctx.count("size_bin_tape_accepted")
                elif k in bb.bounds:
                    ctx.fail("size-bintape-trunc-refused", "%s tape parser refused the %s, a top-level field boundary (%d complete tokens)" % (which, what, n), [cases[j]], [o[:4000]], "the first %d tokens" % n)


# ====================================================================================== typed targets
def I(n, b="I32"):
    return {"t": "int", "v": n, "b": b}


def S(s, q=True):
    return {"t": "str", "v": s, "q": q, "b": "Q" if q else "U"}


def A(vs):
    return {"t": "arr", "v": list(vs)}


def O(fs):
    return {"t": "obj", "f": list(fs), "ghost": []}


def F(k, v, kb="Q"):
    return {"k": k, "kq": False, "kb": kb, "op": "=", "v": v}


def DOC(fs):
    d = O(fs)
    d["ids"] = {}
    return d


def st(*fields):
    return ("struct", [(n, m, sh, None) for (n, m, sh) in fields])


def nest_obj(depth, leaf):
    v = leaf
    for _ in range(depth):
        v = O([F("a", v)])
    return v


def nest_arr(depth, leaf):
    v = leaf
    for _ in range(depth):
        v = A([v])
    return v


def typed_docs():
    """[(tag, doc, shape, cut selector)]; selector: 'all' | 'ends' (around every field start / end and the ladder offsets)"""
    out = []
    i32 = ("i", 32)
    ar = [0, 1, 2, 3, 7, 8, 9, 15, 16, 17, 31, 32, 33, 63, 64, 65, 127, 128, 129, 255, 256, 257, 300]
    for n in ar:
        doc = DOC([F("name", S("ENG")), F("pos", A([I(i + 1) for i in range(n)])), F("tail", I(9))])
        sel = "all" if n <= 9 else "ends"
        tup = ("tup", [i32] * n)
        out.append(("tuple-opt", doc, st(("name", "", "str"), ("pos", "", ("opt", tup)), ("tail", "", ("opt", i32))), sel))
        if n in (0, 1, 2, 3, 8, 16, 33, 300):
            out.append(("tuple-req", doc, st(("name", "", "str"), ("pos", "", tup), ("tail", "", ("opt", i32))), sel))
            out.append(("tuple-optopt", doc, st(("name", "", ("opt", "str")), ("pos", "", ("opt", ("opt", tup)))), sel))
            out.append(("tuple-last", doc, st(("name", "", "str"), ("pos", "!", ("opt", tup))), sel))
        if n in (1, 2, 3, 8, 17, 64, 257):
            # tuple of tuples / sequence of tuples / tuple with a trailing sequence / map of tuples
            d2 = DOC([F("name", S("ENG")), F("pos", A([A([I(i), I(i + 1)]) for i in range(n)])), F("tail", I(9))])
            out.append(("tuple-of-tuples", d2, st(("name", "", "str"), ("pos", "", ("opt", ("tup", [("tup", [i32, i32])] * n))), ("tail", "", ("opt", i32))), sel))
            out.append(("seq-of-tuples", d2, st(("name", "", "str"), ("pos", "", ("opt", ("seq", ("tup", [i32, i32])))), ("tail", "", ("opt", i32))), sel))
            d3 = DOC([F("name", S("ENG")), F("pos", O([F("k%d" % i, A([I(i), I(i + 1)]), "U") for i in range(n)])), F("tail", I(9))])
            out.append(("map-of-tuples", d3, st(("name", "", "str"), ("pos", "", ("opt", ("map", ("tup", [i32, i32])))), ("tail", "", ("opt", i32))), sel))
    # the tuple IS the last bytes of the document (nothing behind its close), and a root-level map of tuples
    for n in (1, 2, 3, 4, 16, 300):
        doc = DOC([F("name", S("ENG")), F("pos", A([I(i + 1) for i in range(n)]))])
        out.append(("tuple-final", doc, st(("name", "", "str"), ("pos", "", ("opt", ("tup", [i32] * n)))), "all" if n <= 4 else "ends"))
        out.append(("tuple-rootmap", DOC([F("a", A([I(i) for i in range(n)]), "U"), F("b", A([I(i) for i in range(n)]), "U")]), ("map", ("tup", [i32] * n)), "all" if n <= 4 else "ends"))
    # DEPTH of an ignored / skipped / captured container
    for Dp in sorted(set([d for d in LADDER if d <= 300] + [130, 300])):
        for leaf, tag in ((O([F("x", I(1))]), "obj"), (A([I(1), I(2)]), "arr")):
            junk = nest_obj(Dp, leaf) if tag == "obj" else nest_arr(Dp, leaf)
            doc = DOC([F("name", S("ENG")), F("junk", junk), F("tail", I(9))])
            sel = "all" if Dp <= 3 else "ends"
            if Dp in (0, 1, 2, 3, 8, 16, 17, 64, 65, 128, 130, 255, 256, 257, 300):
                out.append(("deep-unknown-" + tag, doc, st(("name", "", "str"), ("tail", "", ("opt", i32))), sel))
            out.append(("deep-ign-" + tag, doc, st(("name", "", "str"), ("junk", "", "ign"), ("tail", "", ("opt", i32))), sel))
            if Dp in (0, 1, 2, 3, 16, 17, 64, 65, 130):
                out.append(("deep-any-" + tag, doc, st(("name", "", "str"), ("junk", "", ("opt", "any")), ("tail", "", ("opt", i32))), sel))
    # COUNT: struct fields, map entries, sequence elements
    for N in [n for n in ar]:
        doc = DOC([F("f%d" % i, I(i), "U") for i in range(N)] + [F("tail", I(9))])
        out.append(("struct-fields", doc, st(*([("f%d" % i, "", ("opt", i32)) for i in range(N)] + [("tail", "", ("opt", i32))])), "all" if N <= 3 else "ends"))
    for N in lad(4097):
        doc = DOC([F("k%d" % i, I(i), "U") for i in range(N)] + [F("tail", I(9))])
        out.append(("map-entries", doc, ("map", i32), "all" if N <= 3 else "ends"))
        doc = DOC([F("name", S("ENG")), F("xs", A([I(i) for i in range(N)])), F("tail", I(9))])
        out.append(("seq-elements", doc, st(("name", "", "str"), ("xs", "", ("opt", ("seq", i32))), ("tail", "", ("opt", i32))), "all" if N <= 3 else "ends"))
        doc = DOC([F("name", S("ENG"))] + [F("xs", I(i)) for i in range(N)] + [F("tail", I(9))])
        out.append(("collected", doc, st(("name", "", "str"), ("xs", "*", i32), ("tail", "", ("opt", i32))), "all" if N <= 3 else "ends"))
    # LENGTH of a string value / key
    for L in [x for x in lad(65535) if x <= 4097 or x == 65535]:
        doc = DOC([F("name", S("s" * L if L else "")), F("tail", I(9))])
        out.append(("string-value", doc, st(("name", "", ("opt", "str")), ("tail", "", ("opt", i32))), "ends"))
        if L:
            doc = DOC([F("a", I(1), "U"), F("k" * L, I(2), "U"), F("tail", I(9), "U")])
            out.append(("string-key", doc, ("map", i32), "ends"))
    return out


def rtext(v):
    t = v["t"]
    if t == "int":
        return b"%d" % v["v"]
    if t == "str":
        return (b'"' + v["v"].encode() + b'"') if (v["q"] or not v["v"]) else v["v"].encode()
    if t == "arr":
        return b"{ " + b"".join(rtext(e) + b" " for e in v["v"]) + b"}"
    if t == "obj":
        return b"{ " + b"".join(f["k"].encode() + b"=" + rtext(f["v"]) + b" " for f in v["f"]) + b"}"
    raise ValueError(t)


def pick_cuts(spans, n, sel, inner=()):
    if sel == "all":
        return set(range(n + 1))
    idx = set([0, 1, len(spans) - 2, len(spans) - 1])
    if len(spans) in (301, 4098, 4099):
        idx |= set(x - 1 for x in LADDER if 1 <= x <= len(spans))          # the longest document of a count ladder: every rung on the way
    elif len(spans) <= 10:
        idx |= set(range(len(spans)))
    pts = [0, n]
    for i in sorted(idx):
        if 0 <= i < len(spans):
            pts += [spans[i][0], spans[i][1]]
    c = window(pts, n, 2 if len(spans) > 40 else 4)
    if spans:
        a, b = spans[-1]
        c |= window([b], n, 10)
    c |= set(x for x in lad(n))
    c |= set(x for x in inner if 0 <= x <= n)
    if n > 20000:
        c = set(k for k in c if k < 4200 or k in window(pts, n, 2) or k in LADDER)
    return c


class LazyExp:
    """dedoc.expected(shape, first n fields) computed on demand (a document of 4098 fields is cut at a few dozen places only)"""

    def __init__(self, sh, doc, M):
        self.sh, self.doc, self.M, self.memo = sh, doc, M, {}

    def __getitem__(self, n):
        if n < 0:
            n += len(self.doc["f"]) + 1
        if n not in self.memo:
            self.memo[n] = D.expected(self.sh, TY.sub(self.doc, n), self.M)
        return self.memo[n]


def run_typed(ctx, docs):
    tcases, tmeta, tgroups = [], [], []
    bcases, bmeta, bgroups = [], [], []
    for gi, (tag, doc, sh, sel) in enumerate(docs):
        shs = D.shape_str(sh)
        nf = len(doc["f"])
        ctx.count("size_typed_docs_" + tag.split("-")[0])
        # ---- text
        enc = "utf8" if gi % 2 else "w1252"
        M = D.Mode("text", enc=enc)
        pieces = [f["k"].encode() + b"=" + rtext(f["v"]) for f in doc["f"]]
        data, spans = bytearray(), []
        for i, p in enumerate(pieces):
            s = len(data)
            data += p
            spans.append((s, len(data)))
            data += b"\n" if i % 2 else b" "
        data = bytes(data)
        exps = LazyExp(sh, doc, M)
        if not exps[-1].startswith("ERR"):
            longest = max([len(p) for p in pieces if b"{" not in p] + [20])
            mt = max(64, longest + 16)
            inner = []
            for (a, b) in spans:
                if b - a > 600:
                    inner += [a + x for x in lad(b - a)] + [b - x for x in lad(min(b - a, 300))]
            g = len(tgroups)
            tgroups.append((tag, doc, data, spans, exps, shs))
            for k in sorted(pick_cuts(spans, len(data), sel, inner)):
                rot = (k + gi) % 2
                paths = ["slice", ("tape", "objreader")[rot], ("reader:%d:-" % mt, "reader:%d:1*" % mt if k <= 3000 else "reader:%d:4096,1,8191*" % mt)[1 - rot]]
                if sel == "all":
                    paths = ["slice", "tape", "objreader", "reader:%d:-" % mt, "reader:%d:1*" % mt]
                for p in paths:
                    tcases.append("\t".join(["de.text", p, enc, shs, hexs(data[:k])])); tmeta.append((g, k, p))
        # ---- binary
        fl = "raw" if gi % 3 == 0 else "eu4"
        Mb = D.Mode("bin", flavor=fl, strategy="error", known=set(), ids={})
        out, bounds, bsp = bytearray(), {0: 0}, []
        for i in range(nf):
            s = len(out)
            out += D.render_bin(TY.one(doc, i), fl)
            bsp.append((s, len(out)))
            bounds[len(out)] = i + 1
            if tag in ("tuple-opt", "struct-fields") and i == 0 and gi % 4 == 0:
                out += D.OPEN + D.CLOSE
                bounds[len(out)] = i + 1
        out = bytes(out)
        bexps = LazyExp(sh, doc, Mb)
        if not bexps[-1].startswith("ERR"):
            longest = 20
            for x in D.walk(doc):
                if x["t"] == "str":
                    longest = max(longest, len(x["v"]) + 4)
                elif x["t"] == "obj":
                    longest = max([longest] + [len(f["k"]) + 4 for f in x["f"]])
            mt = longest + 24
            inner = []
            for (a, b) in bsp:
                if b - a > 600:
                    inner += [a + x for x in lad(b - a)] + [b - x for x in lad(min(b - a, 300))]
            g = len(bgroups)
            bgroups.append((tag, doc, out, bounds, bexps, shs))
            for k in sorted(pick_cuts(bsp, len(out), sel, inner)):
                rot = (k + gi) % 2
                paths = ["tape", "slice", ("reader:%d:-" % mt, "reader:%d:1*" % mt if k <= 3000 else "reader:%d:4096,1,8191*" % mt)[rot]]
                if sel == "all":
                    paths = ["tape", "slice", "reader:%d:-" % mt, "reader:%d:1*" % mt]
                for p in paths:
                    bcases.append("\t".join(["de.bin", p, "error", "map:-", fl, shs, hexs(out[:k])])); bmeta.append((g, k, p))
    # ---- text verdicts
    impl, _ = ctx.correspond("size_typed_text", tcases, model=False, nontrivial=lambda c, i: i.startswith("("))
    base = len(impl) - len(tcases)
    good = set()
    for j, (g, k, p) in enumerate(tmeta):
        tag, doc, data, spans, exps, shs = tgroups[g]
        if k == len(data):
            if impl[base + j] == exps[-1]:
                good.add((g, p))
            else:
                # unlike the random documents of props/C19_typed.py these are fixed and plain: every path reads the complete document
                # as the specification says (0 exceptions on the unchanged code), so a difference is a finding, not a reason to skip
                ctx.fail("size-typed-text-complete", "%s path on the COMPLETE %s document of %d bytes (%s...), target %s, returned %s; the specification gives %s"
                         % (p, tag, len(data), data[:30], shs[:80], impl[base + j][:160], exps[-1][:160]), [tcases[j]], [impl[base + j][:4000]], exps[-1][:4000])
    for j, (g, k, p) in enumerate(tmeta):
        o = impl[base + j]
        tag, doc, data, spans, exps, shs = tgroups[g]
        what = "%s path, %s document of %d bytes (%s...), target %s, cut at %d" % (p, tag, len(data), data[:30], shs[:80], k)
        if o in CRASH:
            ctx.fail("size-typed-text-crash", "%s: %s" % (what, o), [tcases[j]], [o]); continue
        if o.startswith("ERR") or (g, p) not in good:
            continue
        ctx.count("size_typed_text_accepted")
        n = sum(1 for (s, e) in spans if e <= k)
        cutting = n < len(spans) and spans[n][0] < k
        if not cutting:
            if o != exps[n]:
                ctx.fail("size-typed-text-fabricated", "%s (after %d complete fields, no field being cut) returned %s; the complete fields give %s" % (what, n, o[:160], exps[n][:160]), [tcases[j]], [o[:4000]], exps[n][:4000])
            continue
        why = TY.judge_cut_value(o, exps[n], exps[n + 1], hx(doc["f"][n]["k"]))
        if why:
            ctx.fail("size-typed-text-fabricated", "%s (inside field %d `%s`) returned %s: %s" % (what, n, doc["f"][n]["k"][:20], o[:160], why), [tcases[j]], [o[:4000]], exps[n][:4000])
    # ---- binary verdicts
    impl, _ = ctx.correspond("size_typed_bin", bcases, model=False, nontrivial=lambda c, i: i.startswith("("))
    base = len(impl) - len(bcases)
    good = set()
    for j, (g, k, p) in enumerate(bmeta):
        tag, doc, data, bounds, exps, shs = bgroups[g]
        if k == len(data):
            if impl[base + j] == exps[-1]:
                good.add((g, p))
            else:
                ctx.fail("size-typed-bin-complete", "%s path on the COMPLETE %s document of %d bytes (%s...), target %s, returned %s; the specification gives %s"
                         % (p, tag, len(data), data[:16].hex(), shs[:80], impl[base + j][:160], exps[-1][:160]), [bcases[j]], [impl[base + j][:4000]], exps[-1][:4000])
    for j, (g, k, p) in enumerate(bmeta):
        o = impl[base + j]
        tag, doc, data, bounds, exps, shs = bgroups[g]
        what = "%s path, %s document of %d bytes (%s...), target %s, cut at %d" % (p, tag, len(data), data[:16].hex(), shs[:80], k)
        if o in CRASH:
            ctx.fail("size-typed-bin-crash", "%s: %s" % (what, o), [bcases[j]], [o]); continue
        if o.startswith("ERR"):
            continue
        n = bounds.get(k, bounds.get(k - 1))
        if (g, p) not in good and n is not None:
            continue          # no reference value for this path (reported above); the acceptance rule below needs none
        if n is None:
            ctx.fail("size-typed-bin-accepted", "%s (inside a container / payload / between a key and the end of its value) accepted as %s" % (what, o[:160]), [bcases[j]], [o[:4000]], "an error")
        elif o != exps[n]:
            ctx.fail("size-typed-bin-fabricated", "%s (after %d complete fields) returned %s; the complete fields give %s" % (what, n, o[:160], exps[n][:160]), [bcases[j]], [o[:4000]], exps[n][:4000])
        else:
            ctx.count("size_typed_bin_accepted")


def run_part(ctx):
    tdocs = text_docs()
    run_text_tape(ctx, tdocs)
    run_text_readers(ctx, tdocs)
    bdocs = bin_docs()
    run_bin_tokens(ctx, bdocs)
    run_bin_tape(ctx, bdocs)
    run_typed(ctx, typed_docs())
