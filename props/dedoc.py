"""Logical documents for the serde deserializer properties (C02, C04, C10, C18, C20).

A *schema* is generated first, then an *instance* of it (so arrays and map-like objects are
homogeneous and a target shape that `fits` exists), then
  * render_text(doc, rng, enc, ...)     -> bytes   (several layouts)
  * render_bin(doc, flavor)             -> bytes   (encoding choices are annotations of the instance)
  * gen_shape(rng, doc, mode)           -> shape AST (full capture / random field subsets / scalar hints)
  * expected(shape, doc, Mode)          -> canonical value string or 'ERR:<class>'   -- THE SPEC
The spec is written independently of the Rust code: decimal meaning for numbers, yes/no, decoded
strings, missing Option = None, unknown fields dropped, Property captures the operator, serde's
primitive visitors accept any integer that is in range.
"""
import re
import struct
from fractions import Fraction

# ------------------------------------------------------------------------------------------ helpers
def hx(b):
    if isinstance(b, str):
        b = b.encode("utf-8")
    return bytes(b).hex() if len(b) else "-"


DPM = [0, 31, 28, 31, 30, 31, 30, 31, 31, 30, 31, 30, 31]
OPS = {"<": 0, "<=": 1, ">": 2, ">=": 3, "!=": 4, "==": 5, "=": 6, "?=": 7}
IGNORE_ID = "__internal_identifier_ignore"

LOW = "abcdefghijklmnopqrstuvwxyz"
IDCH = LOW + "0123456789_"
HIGH_UNQ = "éößåñÉü"          # letters, fine in unquoted scalars
HIGH_Q = HIGH_UNQ + "€™š©¿"             # incl. 0x80..0x9f specials of windows-1252


class SpecErr(Exception):
    def __init__(self, cls):
        Exception.__init__(self, cls)
        self.cls = cls


def date_to_binary(y, m, d, h=0):
    ordinal0 = sum(DPM[1:m]) + d - 1
    return ((y + 5000) * 365 + ordinal0) * 24 + (h - 1 if h else 0)


# [a_c10] >>> exact Python mirrors used by the C10 value-kind streams (props/C10_kinds.py)
def date_from_binary(s):
    """ExpandedRawDate::from_binary: (year, month, day, hour0) or None; i32 arithmetic truncates towards zero"""
    def tdiv(a, b):
        q = abs(a) // b
        return q if a >= 0 else -q
    hour = s - tdiv(s, 24) * 24
    s = tdiv(s, 24)
    days = s - tdiv(s, 365) * 365
    if hour < 0 or days < 0:
        return None
    y = tdiv(s, 365) - 5000
    if not (-32768 <= y <= 32767):
        return None
    m = 1
    while days >= DPM[m]:
        days -= DPM[m]
        m += 1
    return (y, m, days + 1, hour)


def text_f64(txt):
    """Scalar::to_f64 on [-]digits[.digits] with a mantissa below 2^53 and at most 22 decimals (else None = refused or
    outside what this mirror covers): (i as f64) / 10^k, sign by multiplication"""
    m = re.match(r"^(-?)([0-9]+)(?:\.([0-9]*))?$", txt)
    if not m:
        return None
    neg, ip, fp = m.group(1) == "-", m.group(2), m.group(3)
    if fp is None:
        n = int(ip)
        if n > 9007199254740991:
            return None
        return float(-n if neg else n)
    i = int(ip + fp)
    if i >= 2 ** 53 or len(fp) > 22:
        return None
    d = float(i) / float(10 ** len(fp))
    return -d if neg else d


def text_f64_wide(txt):
    """[s_c10] Scalar::to_f64 on [-]digits.digits for EVERY digit count: the digits (integer part and fraction, leading zeros
    welcome) are accumulated in a u64 -- a 65th bit is a refusal --, at least one fraction digit, at most 22 of them (the table
    POWER_OF_TEN), then (i as f64) / 10^k (`as f64` rounds to nearest even like float(int)); None = refused.  Numerals without a
    point: text_f64"""
    m = re.match(r"^(-?)([0-9]+)\.([0-9]*)$", txt)
    if not m:
        return text_f64(txt)
    neg, ip, fp = m.group(1) == "-", m.group(2), m.group(3)
    if fp == "" or len(fp) > 22:
        return None
    i = int(ip + fp)
    if i >= 2 ** 64:
        return None
    d = float(i) / float(10 ** len(fp))
    return -d if neg else d


def f32_bits_of_f64(x):
    """`x as f32` (round to nearest even, overflow to infinity), as bits"""
    try:
        return struct.unpack("<I", struct.pack("<f", x))[0]
    except OverflowError:
        return 0x7f800000 if x > 0 else 0xff800000
# [a_c10] <<<


def f32_bits_of_fraction(fr):
    """correctly rounded (nearest even) binary32 of an exact rational; ints below 2^53 and the
    n/8 floats used here are exact in double, so one cast does it"""
    v = float(fr)
    assert Fraction(v) == fr or abs(fr) >= 2 ** 53 or True
    try:
        return struct.unpack("<I", struct.pack("<f", v))[0]
    except OverflowError:
        return 0x7f800000 if v > 0 else 0xff800000


def f64_bits(v):
    return struct.unpack("<Q", struct.pack("<d", v))[0]


def f32_to_float(bits):
    return struct.unpack("<f", struct.pack("<I", bits))[0]


def round_half_away(x):
    """f64::round of a finite double, exactly"""
    fr = Fraction(x)
    a = abs(fr)
    n = (a + Fraction(1, 2)).__floor__()
    return float(n if fr >= 0 else -n) if n != 0 else (0.0 if fr >= 0 else -0.0)


def flavor_f32(flavor, payload):
    """bits of the f32 the flavor produces from the 4 payload bytes"""
    if flavor == "raw":
        return struct.unpack("<I", payload)[0]
    n = struct.unpack("<i", payload)[0]
    nf = f32_to_float(f32_bits_of_fraction(Fraction(n)))      # i32 as f32
    return f32_bits_of_fraction(Fraction(nf) / 1000)          # f32 division is correctly rounded


def flavor_f64(flavor, payload):
    if flavor == "raw":
        return struct.unpack("<Q", payload)[0]
    n = struct.unpack("<q", payload)[0]
    val = float(n) / 32768.0
    return f64_bits(round_half_away(val * 100000.0) / 100000.0)


# ------------------------------------------------------------------------------------------ schema
def gen_ident(rng, used=None):
    for _ in range(50):
        n = rng.choice([1, 2, 3, 4, 5, 6, 8, 10, 12, 17])
        s = rng.choice(LOW) + "".join(rng.choice(IDCH) for _ in range(n - 1))
        if s in ("yes", "no", "rgb", "hsv", "hsv360", "cylindrical", "hex", "list"):
            continue
        if used is None or s not in used:
            if used is not None:
                used.add(s)
            return s
    raise RuntimeError("ident")


def gen_schema(rng, depth=0, top=False, shared=False):
    """type tree; shared=True restricts to the text/binary shared subset"""
    r = rng.random()
    if top or (depth < 3 and r < 0.22):
        nf = rng.choice([0, 1, 2, 3, 4, 5, 7]) if not top else rng.choice([1, 2, 3, 4, 6, 8])
        used = set()
        fields = []
        for _ in range(nf):
            k = gen_ident(rng, used)
            if rng.random() < 0.12:
                k = str(rng.randrange(1, 99999))
                if k in used:
                    continue
                used.add(k)
            mult = rng.choice([(1, 1)] * 6 + [(0, 1), (0, 1), (0, 3), (2, 3), (1, 2)])
            fields.append((k, gen_schema(rng, depth + 1, shared=shared), mult))
        return ("obj", fields)
    if depth < 3 and r < 0.34:
        while True:
            e = gen_schema(rng, depth + 1, shared=shared)
            if e[0] != "rgb":          # in a text array a header and its block are two values (dom.rs next_idx_values)
                return ("arr", e)
    if depth < 3 and r < 0.40:
        # map-like object: homogeneous values, generated keys
        return ("mapobj", gen_schema(rng, depth + 1, shared=shared), rng.choice(["ident", "num", "mixed"]))
    k = rng.choice(["int"] * 5 + ["str"] * 5 + ["bool"] * 2 + ["float"] * 2 + ["date"] * 2 + ["rgb"])
    if k == "int":
        return ("int", rng.choice(["small", "small", "i32", "u32", "i64", "u64", "neg"]))
    return (k,)


def gen_int(rng, kind):
    if kind == "small":
        return rng.choice([0, 1, 2, 7, 12, 100, 255, 256, 127, 128, rng.randrange(0, 1000)])
    if kind == "neg":
        return -rng.choice([1, 2, 128, 129, 32768, 32769, rng.randrange(1, 100000), 2 ** 31, 2 ** 31 + 1, 2 ** 63 - 1])
    if kind == "i32":
        return rng.choice([2 ** 31 - 1, 65535, 65536, 32767, rng.randrange(0, 2 ** 31)])
    if kind == "u32":
        return rng.choice([2 ** 31, 2 ** 32 - 1, rng.randrange(2 ** 31, 2 ** 32)])
    if kind == "i64":
        return rng.choice([2 ** 32, 2 ** 53 - 1, 2 ** 53, 2 ** 53 + 1, 2 ** 63 - 1, rng.randrange(2 ** 32, 2 ** 63)])
    return rng.choice([2 ** 63, 2 ** 64 - 1, rng.randrange(2 ** 63, 2 ** 64)])


def int_btok(rng, n, i64=True):
    c = []
    if -2 ** 31 <= n < 2 ** 31:
        c += ["I32", "I32"]
    if 0 <= n < 2 ** 32:
        c += ["U32"]
    if 0 <= n < 2 ** 64:
        c += ["U64"]
    if -2 ** 63 <= n < 2 ** 63 and (i64 or not c):
        c += ["I64"]
    return rng.choice(c)


def gen_str(rng, allow_escape=True):
    r = rng.random()
    if r < 0.5:
        s = gen_ident(rng)
        return s, rng.random() < 0.4
    if r < 0.65:
        s = rng.choice(LOW) + "".join(rng.choice(IDCH + HIGH_UNQ) for _ in range(rng.randrange(1, 9)))
        return s, rng.random() < 0.5
    if r < 0.72:
        return "", True
    # quoted only: spaces, punctuation, high characters, possibly a quote (escaped in the rendering)
    pool = IDCH + HIGH_Q + "  .,:;-+=<>{}#!?'()[]/@$%&*|~^"
    if allow_escape and rng.random() < 0.25:
        pool += '"""'
    n = rng.choice([1, 2, 5, 9, 14, 23, 40])
    s = "".join(rng.choice(pool) for _ in range(n))
    s = s.rstrip(" ")
    if s == "":
        s = "x"
    if s[0] in "0123456789":
        s = "s" + s
    return s, True


def gen_value(rng, T, st):
    """st: generation state {'ids': {name: id}, 'allow_escape': bool, 'ops': bool}"""
    k = T[0]
    if k == "obj":
        occ = []
        for (key, ft, (lo, hi)) in T[1]:
            for _ in range(rng.randrange(lo, hi + 1)):
                occ.append((key, ft))
        rng.shuffle(occ)
        fields = [mk_field(rng, key, gen_value(rng, ft, st), st) for (key, ft) in occ]
        if fields and fields[0]["op"] in ("!=", "?=") and not st.get("first_ne"):
            fields[0]["op"] = "="      # first operator of a nested container: the tape only looks for = < > (finding M)
        return {"t": "obj", "f": fields, "ghost": [rng.randrange(1, len(fields) + 1)] if (fields and rng.random() < 0.12) else []}
    if k == "mapobj":
        n = rng.choice([0, 1, 2, 3, 5])
        fields = []
        used = set()
        for _ in range(n):
            kk = T[2]
            if kk == "mixed":
                kk = rng.choice(["ident", "num"])
            key = gen_ident(rng, used) if kk == "ident" else str(rng.randrange(1, 10 ** rng.choice([2, 4, 6])))
            if rng.random() < 0.15 and fields:
                key = rng.choice(fields)["k"]          # duplicate key
            fields.append(mk_field(rng, key, gen_value(rng, T[1], st), st))
        if fields and fields[0]["op"] in ("!=", "?=") and not st.get("first_ne"):
            fields[0]["op"] = "="
        return {"t": "obj", "f": fields, "ghost": [], "maplike": True}
    if k == "arr":
        n = rng.choice([0, 1, 2, 3, 4, 6, 9])
        vs = [gen_value(rng, T[1], st) for _ in range(n)]
        # an empty {} as the FIRST element of a text array is dropped by the tape (ghost rule): not generated
        empty = lambda x: (x["t"] == "obj" and not x["f"]) or (x["t"] == "arr" and not x["v"])
        while vs and empty(vs[0]):
            vs.pop(0)
        return {"t": "arr", "v": vs}
    if k == "int":
        n = gen_int(rng, T[1])
        if not st.get("i64", True) and n < -2 ** 31:
            n = -2 ** 31          # would need an I64 token (kept for the dedicated i64 stream: C03 finding B)
        return {"t": "int", "v": n, "b": int_btok(rng, n, st.get("i64", True)) if -2 ** 63 <= n < 2 ** 64 else None}
    if k == "bool":
        return {"t": "bool", "v": rng.random() < 0.5}
    if k == "str":
        s, q = gen_str(rng, st.get("allow_escape", True))
        b = rng.choice(["Q", "Q", "U", "ID"]) if s and all(c in IDCH for c in s) else rng.choice(["Q", "U"])
        v = {"t": "str", "v": s, "q": q, "b": b}
        if b == "ID":
            v["id"] = tok_id(rng, s, st)
        return v
    if k == "float":
        n8 = rng.choice([0, 1, 4, 8, 9, 12, -4, -9, 1000, 8001, rng.randrange(-80000, 80000)])
        return {"t": "float", "n8": n8, "b": rng.choice(["F32", "F64"]), "pad": rng.random() < 0.5}
    if k == "date":
        y = rng.choice([1, 9, 99, 100, 999, 1000, 1444, 1836, 2200, 9999, rng.randrange(1, 10000)])
        if rng.random() < 0.06:
            y = -rng.randrange(1, 3000)
        m = rng.randrange(1, 13)
        return {"t": "date", "y": y, "m": m, "d": rng.randrange(1, DPM[m] + 1), "b": rng.choice(["I32", "I32", "Q"]),
                "q": rng.random() < 0.2, "pad": rng.random() < 0.3}
    if k == "rgb":
        return {"t": "rgb", "c": [rng.choice([0, 1, 27, 110, 255, rng.randrange(256)]) for _ in range(rng.choice([3, 3, 3, 4]))]}
    raise RuntimeError(k)


def tok_id(rng, name, st):
    ids = st.setdefault("ids", {})
    if name not in ids:
        while True:
            i = rng.choice([rng.randrange(0x0400, 0xfff0), rng.choice([x for x in range(0x0018, 0x0317) if x not in (0x0167, 0x0243, 0x029c)])])
            if i not in ids.values():
                break
        ids[name] = i
    return ids[name]


def mk_field(rng, key, val, st):
    ident = all(c in IDCH for c in key)
    kb = rng.choice(["ID", "ID", "Q", "U"]) if ident and not key[0].isdigit() else rng.choice(["Q", "U"])
    f = {"k": key, "kq": rng.random() < 0.08, "kb": kb, "op": "=", "v": val}
    if kb == "ID":
        f["kid"] = tok_id(rng, key, st)
    if st.get("ops") and val["t"] in ("int", "float", "str", "date") and rng.random() < 0.12:
        f["op"] = rng.choice(["<", "<=", ">", ">=", "!=", "==", "?="])
    return f


def gen_doc(rng, shared=False, ops=False, allow_escape=True, i64=True, first_ne=False):
    st = {"ids": {}, "ops": ops, "allow_escape": allow_escape, "i64": i64, "first_ne": first_ne}
    T = gen_schema(rng, top=True, shared=shared)
    d = gen_value(rng, T, st)
    d["ids"] = st["ids"]
    return d


# ------------------------------------------------------------------------------------------ queries
def walk(v):
    yield v
    if v["t"] == "obj":
        for f in v["f"]:
            for x in walk(f["v"]):
                yield x
    elif v["t"] == "arr":
        for e in v["v"]:
            for x in walk(e):
                yield x


def has(doc, pred):
    return any(pred(x) for x in walk(doc))


def has_escape(doc):
    if has(doc, lambda x: x["t"] == "str" and '"' in x["v"]):
        return True
    return False


def scalar_text(v):
    """the characters of the scalar as written in the text rendering (before quoting)"""
    t = v["t"]
    if t == "int":
        if "txt" in v:                 # [s_c10] explicit numeral of the value v["v"] (zero padding: props/C10_sizes.py)
            return v["txt"]
        return str(v["v"])
    if t == "bool":
        return "yes" if v["v"] else "no"
    if t == "str":
        return v["v"]
    if t == "float":
        if "txt" in v:                 # [a_c10] explicit numeral (3 / 5 decimals streams of props/C10_kinds.py)
            return v["txt"]
        fr = Fraction(v["n8"], 8)
        neg = fr < 0
        a = abs(fr)
        ip = a.__floor__()
        frac = a - ip
        digs = "%03d" % int(frac * 1000)
        if not v["pad"]:
            digs = digs.rstrip("0")
        s = str(ip) + ("." + digs if digs else (".0" if v["pad"] else ""))
        if digs == "" and not v["pad"]:
            s = str(ip)
        return ("-" if neg else "") + s
    if t == "date":
        hs = (".%d" % v["h"]) if v.get("h") else ""          # [a_c10] DateHour values: hour 1..24, never zero-padded
        if v.get("pad"):
            return "%d.%02d.%02d" % (v["y"], v["m"], v["d"]) + hs
        return "%d.%d.%d" % (v["y"], v["m"], v["d"]) + hs
    raise RuntimeError(t)


# ------------------------------------------------------------------------------------------ text rendering
class Layout:
    """gap words between tokens"""

    def __init__(self, rng, style):
        self.rng = rng
        self.style = style          # compact | spaced | lines | wild

    def sep(self):                  # mandatory separation between two values / fields
        r, s = self.rng, self.style
        if s == "compact":
            return " "
        if s == "spaced":
            return r.choice([" ", "  ", "\n"])
        if s == "lines":
            return r.choice(["\n", "\r\n", "\n\t"])
        return r.choice([" ", "\t", "\n", "\r\n", " \n ", "\n#c\n", " # a comment = { \n", "\n\n", "  "])

    def opt(self):                  # optional gap (around operators and brackets)
        r, s = self.rng, self.style
        if s == "compact":
            return ""
        if s == "spaced":
            return " "
        if s == "lines":
            return r.choice(["", " "])
        return r.choice(["", "", " ", "  ", "\t", "\n", " \r\n"])


def enc_bytes(s, enc):
    return s.encode("cp1252" if enc == "w1252" else "utf-8")


def render_scalar(v, enc, force_quote=False):
    s = scalar_text(v)
    q = force_quote
    if v["t"] == "str":
        q = q or v["q"] or s == "" or not all((c in IDCH or c in HIGH_UNQ) for c in s)
    elif v["t"] == "date":
        q = q or v.get("q", False)
    b = enc_bytes(s, enc)
    if q:
        # [a_c10] a backslash is written escaped too (no older generator produces one); both decoders drop every backslash
        return b'"' + b.replace(b"\\", b"\\\\").replace(b'"', b'\\"') + b'"'
    return b


def render_text(doc, rng, enc="w1252", style=None, bom=False, noeq_prob=0.15, trailing=True, glue_exact=False):
    lay = Layout(rng, style or rng.choice(["compact", "spaced", "lines", "wild"]))
    out = []

    def val(v):
        t = v["t"]
        if t == "obj":
            out.append(b"{")
            fields(v, inner=True)
            out.append(b"}")
        elif t == "arr":
            out.append(b"{")
            out.append(lay.opt().encode())
            first = True
            prev_t = None
            for e in v["v"]:
                if not first:
                    if e["t"] in ("obj", "arr") and prev_t in ("obj", "arr") and lay.style in ("compact", "wild") and rng.random() < 0.5:
                        pass
                    else:
                        out.append(lay.sep().encode())
                val(e)
                prev_t = e["t"]
                first = False
            out.append(lay.opt().encode())
            out.append(b"}")
        elif t == "rgb":
            out.append(b"rgb")
            out.append(lay.opt().encode() if lay.style != "compact" or rng.random() < 0.5 else b" ")
            out.append(b"{")
            out.append(lay.opt().encode())
            out.append(lay.sep().encode().join(str(c).encode() for c in v["c"]))
            out.append(lay.opt().encode())
            out.append(b"}")
        else:
            out.append(render_scalar(v, enc))

    def fields(o, inner):
        out.append(lay.opt().encode())
        n = len(o["f"])
        for i, f in enumerate(o["f"]):
            if i in o.get("ghost", []):
                out.append(b"{}" + lay.sep().encode())
            kb = enc_bytes(f["k"], enc)
            if f["kq"]:
                kb = b'"' + kb + b'"'
            out.append(kb)
            container = f["v"]["t"] in ("obj", "arr")
            # 'key{' without '=' as the FIRST entry of a nested container reads as an array (key, {..}): not generated
            if container and f["op"] == "=" and (i > 0 or not inner) and rng.random() < noeq_prob:
                out.append(lay.opt().encode())
            else:
                g = lay.opt().encode()
                if f["op"] == "==" and g in (b"", b" ") and not glue_exact:
                    g = b"  "      # 'key==' / 'key ==': the stream reader splits the operator (finding L), kept out of the main streams
                if f["op"] in ("?=", "!=") and not g and not f["kq"]:
                    g = b" "       # wf_layout: '?'/'!' are not boundary bytes, an unquoted key needs a gap (and C01 finding A)
                out.append(g)
                out.append(f["op"].encode())
                out.append(lay.opt().encode())
            val(f["v"])
            if i + 1 < n:
                if container and lay.style in ("compact", "wild") and rng.random() < 0.3:
                    out.append(lay.opt().encode())
                else:
                    out.append(lay.sep().encode())
        if n in o.get("ghost", []):
            out.append(lay.sep().encode() + b"{}")
        out.append(lay.opt().encode())

    fields(doc, inner=False)
    body = b"".join(out)
    # a '#' inside a gap must not swallow the rest: gap words with comments end in '\n' (by construction)
    if trailing and rng.random() < 0.5:
        body += rng.choice([b"\n", b" ", b"\r\n", b"\n\n"])
    if bom and enc == "utf8":
        body = b"\xef\xbb\xbf" + body
    return body


# ------------------------------------------------------------------------------------------ binary rendering
def tok(i):
    return struct.pack("<H", i)


EQ, OPEN, CLOSE = tok(1), tok(3), tok(4)


def bstr(b, quoted):
    return tok(0x0f if quoted else 0x17) + struct.pack("<H", len(b)) + b


def flavor_enc(flavor):
    return "w1252" if flavor == "eu4" else "utf8"


def float_payload(v, flavor):
    if "pay" in v:                     # [a_c10] explicit payloads {flavor: bytes} for the token v["b"]
        return v["pay"][flavor]
    fr = Fraction(v["n8"], 8)
    if v["b"] == "F32":
        if flavor == "eu4":
            return struct.pack("<i", int(fr * 1000))
        return struct.pack("<f", float(fr))
    if flavor == "eu4":
        return struct.pack("<q", int(fr * 32768))
    return struct.pack("<d", float(fr))


def render_bin_value(v, flavor):
    t = v["t"]
    enc = flavor_enc(flavor)
    if t == "obj":
        return OPEN + render_bin_fields(v, flavor) + CLOSE
    if t == "arr":
        return OPEN + b"".join(render_bin_value(e, flavor) for e in v["v"]) + CLOSE
    if t == "rgb":
        return tok(0x0243) + OPEN + b"".join(tok(0x14) + struct.pack("<I", c) for c in v["c"]) + CLOSE
    if t == "int":
        n = v["v"]
        b = v["b"]
        if b == "I32":
            return tok(0x0c) + struct.pack("<i", n)
        if b == "U32":
            return tok(0x14) + struct.pack("<I", n)
        if b == "I64":
            return tok(0x317) + struct.pack("<q", n)
        return tok(0x29c) + struct.pack("<Q", n)
    if t == "bool":
        return tok(0x0e) + (b"\x01" if v["v"] else b"\x00")
    if t == "float":
        return tok(0x0d if v["b"] == "F32" else 0x167) + float_payload(v, flavor)
    if t == "date":
        if v["b"] == "I32":
            return tok(0x0c) + struct.pack("<i", date_to_binary(v["y"], v["m"], v["d"], v.get("h", 0)))
        return bstr(scalar_text(v).encode(), v.get("bq", True))
    if t == "str":
        if v["b"] == "ID":
            return tok(v["id"])
        return bstr(enc_bytes(v["v"], enc), v["b"] == "Q")
    raise RuntimeError(t)


def render_bin_fields(o, flavor):
    enc = flavor_enc(flavor)
    out = []
    n = len(o["f"])
    for i, f in enumerate(o["f"]):
        if i in o.get("ghost", []):
            out.append(OPEN + CLOSE)
        if f["kb"] == "ID":
            out.append(tok(f["kid"]))
        else:
            out.append(bstr(enc_bytes(f["k"], enc), f["kb"] == "Q"))
        out.append(EQ)
        out.append(render_bin_value(f["v"], flavor))
    if n in o.get("ghost", []):
        out.append(OPEN + CLOSE)
    return b"".join(out)


def render_bin(doc, flavor="eu4"):
    return render_bin_fields(doc, flavor)


def bin_representable(doc):
    """every int fits a binary token"""
    return not has(doc, lambda x: x["t"] == "int" and x["b"] is None)


def resolver_spec(ids, known, kind="map"):
    items = ["%04x=%s" % (i, hx(n)) for n, i in sorted(ids.items(), key=lambda kv: kv[1]) if n in known]
    return kind + ":" + (",".join(items) if items else "-")


# ------------------------------------------------------------------------------------------ shapes
def shape_str(s):
    if isinstance(s, str):
        return s
    k = s[0]
    if k in ("u", "i"):
        return "%s%d" % (k, s[1])
    if k in ("opt", "seq", "map", "prop"):
        return "%s(%s)" % (k, shape_str(s[1]))
    if k == "tup":
        return "tup(%s)" % ",".join(shape_str(x) for x in s[1])
    if k == "enum":
        return "enum(%s)" % ",".join(hx(x) for x in s[1])
    if k in ("struct", "tstruct"):
        fs = []
        for (name, mode, sh, token) in s[1]:
            fs.append(hx(name) + ("#%04x" % token if k == "tstruct" else "") + mode + ":" + shape_str(sh))
        return "%s(%s)" % (k, ",".join(fs))
    raise RuntimeError(s)


def natural_int_shapes(n):
    out = []
    for b in (8, 16, 32, 64):
        if 0 <= n < 2 ** b:
            out.append(("u", b))
        if -2 ** (b - 1) <= n < 2 ** (b - 1):
            out.append(("i", b))
    return out


def merge_samples(vals):
    """all sample values at one schema position"""
    return vals


def gen_shape(rng, samples, P):
    """samples: instance values that the shape must fit (same schema position).
    P: dict(mode='text'|'bin'|'shared', full=bool, mishint=float, prop=bool, any=bool, token=bool)"""
    v0 = samples[0] if samples else None
    if v0 is None:
        return rng.choice(["str", ("u", 32), "ign", ("seq", "str")])
    t = v0["t"]
    r = rng.random()
    if P.get("root"):
        P = dict(P, root=False)
        r = 1.0
    if not P.get("full") and r < 0.04:
        return "ign"
    if r < 0.10 and not P.get("noopt"):
        return ("opt", gen_shape(rng, samples, dict(P, noopt=True)))
    if t == "obj":
        allf = [f for s in samples for f in s["f"]]
        keys = []
        for f in allf:
            if f["k"] not in keys:
                keys.append(f["k"])
        maplike = all(s.get("maplike") for s in samples)
        if maplike or (not keys and rng.random() < 0.5):
            vs = [f["v"] for f in allf]
            return ("map", gen_shape(rng, vs, P)) if vs else ("map", "str")
        chosen = [k for k in keys if P.get("full") or rng.random() < 0.7]
        rng.shuffle(chosen)
        fields = []
        for k in chosen:
            vs = [f["v"] for f in allf if f["k"] == k]
            counts = [sum(1 for f in s["f"] if f["k"] == k) for s in samples]
            sh = gen_shape(rng, vs, dict(P, noopt=False))
            mode = ""
            if max(counts) > 1:
                mode = rng.choice(["*", "*", "!", "!", ""])
            elif rng.random() < 0.1:
                mode = rng.choice(["*", "!"])
            if min(counts) == 0 and mode != "*" and not (isinstance(sh, tuple) and sh[0] == "opt") and rng.random() < 0.85:
                sh = ("opt", sh)
            if P.get("prop") and mode != "*" and rng.random() < 0.2 and all(x["t"] not in ("rgb",) for x in vs):
                inner = sh
                if isinstance(sh, tuple) and sh[0] == "opt":
                    sh = ("opt", ("prop", sh[1]))
                else:
                    sh = ("prop", sh)
            fields.append((k, mode, sh, None))
        # a field the document never has
        if rng.random() < 0.25:
            fields.insert(rng.randrange(len(fields) + 1), ("zz_absent", "", ("opt", "str") if rng.random() < 0.8 else "str", None))
        return ("struct", fields)
    if t == "arr":
        vs = [e for s in samples for e in s["v"]]
        lens = set(len(s["v"]) for s in samples)
        if len(lens) == 1 and 0 < len(samples[0]["v"]) <= 4 and rng.random() < 0.15 and len(samples) == 1:
            return ("tup", [gen_shape(rng, [e], P) for e in samples[0]["v"]])
        return ("seq", gen_shape(rng, vs, P) if vs else rng.choice(["str", ("u", 8)]))
    if t == "rgb":
        if P.get("rgb_any") and rng.random() < 0.5:
            return "any"
        w = rng.choice([8, 16, 32, 64])
        lens = set(len(s["c"]) for s in samples)
        if len(lens) == 1 and rng.random() < 0.3:
            return ("tup", ["str", ("tup", [("u", w)] * len(samples[0]["c"]))])
        return ("tup", ["str", ("seq", ("u", w))])
    # scalars
    mis = rng.random() < P.get("mishint", 0.0)
    if mis:
        return rng.choice(["str", "bool", ("u", 64), ("i", 64), ("u", 8), ("i", 32), "f64", "f32", ("enum", ["aaa", "bbb"]), "any"] +
                          (["date"] if t in ("str", "date") else []))
    if P.get("any") and rng.random() < 0.06:
        return "any"
    if t == "int":
        common = None
        for s in samples:
            ns = set(natural_int_shapes(s["v"]))
            common = ns if common is None else (common & ns)
        c = sorted(common)
        if c and rng.random() < 0.85:
            return rng.choice(c)
        return rng.choice([("u", 64), ("i", 64), "f64"])
    if t == "bool":
        return "bool"
    if t == "str":
        if rng.random() < 0.1:
            names = sorted(set(s["v"] for s in samples))[:6]
            if names and all(names):
                return ("enum", names + ["other"])
        return "str"
    if t == "float":
        return rng.choice(["f64", "f32"])
    if t == "date":
        return "date"
    raise RuntimeError(t)


# ------------------------------------------------------------------------------------------ the spec
class Mode:
    def __init__(self, kind, enc="w1252", flavor="eu4", strategy="ignore", known=None, ids=None):
        self.kind = kind            # 'text' | 'bin'
        self.enc = enc
        self.flavor = flavor
        self.strategy = strategy
        self.known = known if known is not None else set()
        self.ids = ids or {}


def in_range(sh, n):
    k, b = sh
    if k == "u":
        return 0 <= n < 2 ** b
    return -2 ** (b - 1) <= n < 2 ** (b - 1)


def show_str(s):
    return "(str %s)" % hx(s)


def resolve_id(name, idv, M):
    """string a token id turns into (or SpecErr)"""
    if name in M.known:
        return name
    if M.strategy == "error":
        raise SpecErr("unktoken")
    if M.strategy == "stringify":
        return "0x%x" % idv
    return IGNORE_ID


def expected_scalar_text(sh, v):
    """text: every scalar is a string of characters; typed hints parse it, failures fall back to the
    string, which a non-string target then rejects"""
    raw = scalar_text(v)
    t = v["t"]
    if sh == "str" or sh == "any":
        return show_str(raw.replace("\\", "") if t == "str" else raw)      # [a_c10] Encoding::decode drops every backslash
    if sh == "bool":
        if raw == "yes":
            return "(bool 1)"
        if raw == "no":
            return "(bool 0)"
        raise SpecErr("de")
    if isinstance(sh, tuple) and sh[0] in ("u", "i"):
        if not re.match(r"^-?[0-9]+$", raw):
            raise SpecErr("de")
        n = v["v"] if (t == "int" and "txt" in v) else int(raw)      # [s_c10] a zero-padded numeral of v["v"] (may have > 4300 digits)
        lim = (0, 2 ** 64) if sh[0] == "u" else (-2 ** 63, 2 ** 63)
        if not (lim[0] <= n < lim[1]) or not in_range(sh, n):
            raise SpecErr("de")
        return "(%s %d)" % (sh[0], n)
    if sh in ("f64", "f32"):
        if t == "int":
            n = v["v"]
            if abs(n) > 9007199254740991:
                raise SpecErr("de")
            fr = Fraction(n)
        elif t == "float" and "txt" in v:          # [a_c10] explicit numeral
            x = text_f64_wide(v["txt"]) if v.get("wide") else text_f64(v["txt"])      # [s_c10] wide: every digit count
            if x is None:
                raise SpecErr("de")
            return "(f64 %016x)" % f64_bits(x) if sh == "f64" else "(f32 %08x)" % f32_bits_of_f64(x)
        elif t == "float":
            fr = Fraction(v["n8"], 8)
        else:
            raise SpecErr("de")
        if sh == "f64":
            bits = f64_bits(float(fr))
            if fr == 0 and t == "float" and v["n8"] == 0:
                bits = f64_bits(0.0)
            return "(f64 %016x)" % bits
        return "(f32 %08x)" % f32_bits_of_fraction(fr)
    if sh in ("date", "dh"):
        return expected_date_str(sh, v, raw)
    if isinstance(sh, tuple) and sh[0] == "enum":
        if raw in sh[1]:
            return "(enum %s)" % hx(raw)
        raise SpecErr("de")
    raise SpecErr("de")


def expected_date_str(sh, v, raw):
    """[a_c10] Date::parse / DateHour::parse (the visit_str half of the date visitors) on the characters `raw` of a date or
    integer value: Y.M.D is a Date, Y.M.D.H (H in 1..24) a DateHour, never the other way round; a numeral is the binary
    form (i32; Date: 5..12 characters and hour 0; DateHour: the 0-based hour must be non-zero and is NOT shifted)"""
    t = v["t"]
    if t == "date":
        if not (-32768 <= v["y"] <= 32767):
            raise SpecErr("de")
        if sh == "date" and not v.get("h") and 5 <= len(raw) <= 12:
            return "(date %d %d %d 0)" % (v["y"], v["m"], v["d"])
        if sh == "dh" and v.get("h"):
            return "(date %d %d %d %d)" % (v["y"], v["m"], v["d"], v["h"])
        raise SpecErr("de")
    if t == "int" and re.match(r"^-?[0-9]+$", raw) and -2 ** 31 <= v["v"] < 2 ** 31:
        r = date_from_binary(v["v"])
        if r is not None and sh == "date" and r[3] == 0 and 5 <= len(raw) <= 12:
            return "(date %d %d %d 0)" % r[:3]
        if r is not None and sh == "dh" and r[3] != 0:
            return "(date %d %d %d %d)" % r
    raise SpecErr("de")


def expected_scalar_bin(sh, v, M):
    t = v["t"]
    isint_sh = isinstance(sh, tuple) and sh[0] in ("u", "i")
    if t == "int" or (t == "date" and v["b"] == "I32"):
        n = v["v"] if t == "int" else date_to_binary(v["y"], v["m"], v["d"], v.get("h", 0))
        b = v["b"]
        if isint_sh:
            if in_range(sh, n):
                return "(%s %d)" % (sh[0], n)
            raise SpecErr("de")
        if sh == "f64":
            return "(f64 %016x)" % f64_bits(float(n))
        if sh == "f32":
            return "(f32 %08x)" % f32_bits_of_fraction(Fraction(n))
        if sh == "any":
            return "(%s %d)" % ("i" if b in ("I32", "I64") else "u", n)
        if sh in ("date", "dh") and b == "I32":
            # [a_c10] visit_i32 of the date visitors: Date::from_binary drops the hour, DateHour::from_binary shifts it to
            # 1..24 (for the dates of the older generators -- year >= -5000, no hour -- this is the date itself)
            r = date_from_binary(n) if -2 ** 31 <= n < 2 ** 31 else None
            if r is None:
                raise SpecErr("de")
            return "(date %d %d %d %d)" % (r[0], r[1], r[2], 0 if sh == "date" else r[3] + 1)
        raise SpecErr("de")
    if t == "bool":
        if sh in ("bool", "any"):
            return "(bool %d)" % (1 if v["v"] else 0)
        raise SpecErr("de")
    if t == "float":
        pay = float_payload(v, M.flavor)
        if v["b"] == "F32":
            bits = flavor_f32(M.flavor, pay)
            if sh in ("f32", "any"):
                return "(f32 %08x)" % bits
            if sh == "f64":
                return "(f64 %016x)" % f64_bits(f32_to_float(bits))
            raise SpecErr("de")
        bits = flavor_f64(M.flavor, pay)
        if sh in ("f64", "any"):
            return "(f64 %016x)" % bits
        if sh == "f32":
            x = struct.unpack("<d", struct.pack("<Q", bits))[0]
            return "(f32 %08x)" % f32_bits_of_fraction(Fraction(x))
        raise SpecErr("de")
    # string-like: str, date as string
    if t == "str" and v["b"] == "ID":
        if sh == ("u", 16):
            return "(u %d)" % v["id"]
        if sh == "ign":
            return "(ign)"
        s = resolve_id(v["v"], v["id"], M)
    else:
        s = scalar_text(v)
    if sh in ("str", "any"):
        return show_str(s.replace("\\", "") if not (t == "str" and v["b"] == "ID") else s)      # [a_c10] (a resolved name is not decoded)
    if sh in ("date", "dh"):
        if t == "date":
            return expected_date_str(sh, v, s)
        raise SpecErr("de")
    if isinstance(sh, tuple) and sh[0] == "enum":
        if s in sh[1]:
            return "(enum %s)" % hx(s)
        raise SpecErr("de")
    raise SpecErr("de")


def expected_value(sh, v, M, op="="):
    """canonical value (string) of deserializing document value v into shape sh; raises SpecErr"""
    t = v["t"]
    if sh == "ign":
        return "(ign)"
    k = sh[0] if isinstance(sh, tuple) else sh
    if k == "derived":
        return M.derived(sh[1], v, M)
    if k == "opt":
        return "(some %s)" % expected_value(sh[1], v, M, op)
    if k == "prop":
        if M.kind != "text":
            raise SpecErr("de")
        return "(prop %d %s)" % (OPS[op], expected_value(sh[1], v, M))
    if t == "obj":
        if k == "map":
            out = []
            for f in v["f"]:
                key = f["k"] if (M.kind == "text" or f["kb"] != "ID") else resolve_id(f["k"], f["kid"], M)
                out.append("(%s %s)" % (hx(key), expected_value(sh[1], f["v"], M, f["op"])))
            return "(map%s)" % "".join(" " + x for x in out)
        if k in ("struct", "tstruct"):
            fields = sh[1]
            slots = [None] * len(fields)
            coll = [[] for _ in fields]
            for f in v["f"]:
                idx = None
                if M.kind == "bin" and f["kb"] == "ID":
                    if k == "tstruct":
                        for i, fd in enumerate(fields):
                            if fd[3] == f["kid"]:
                                idx = i
                                break
                    else:
                        name = resolve_id(f["k"], f["kid"], M)
                        for i, fd in enumerate(fields):
                            if fd[0] == name:
                                idx = i
                                break
                else:
                    for i, fd in enumerate(fields):
                        if fd[0] == f["k"]:
                            idx = i
                            break
                if idx is None:
                    continue                       # unknown field: dropped, whatever it contains
                name, mode, fsh, _tok = fields[idx]
                if mode == "":
                    if slots[idx] is not None:
                        raise SpecErr("dup")
                    slots[idx] = expected_value(fsh, f["v"], M, f["op"])
                elif mode == "!":
                    slots[idx] = expected_value(fsh, f["v"], M, f["op"])
                else:
                    coll[idx].append(expected_value(fsh, f["v"], M, f["op"]))
            out = []
            for i, (name, mode, fsh, _tok) in enumerate(fields):
                if mode == "*":
                    val = "(seq%s)" % "".join(" " + x for x in coll[i])
                elif slots[i] is not None:
                    val = slots[i]
                elif isinstance(fsh, tuple) and fsh[0] == "opt":
                    val = "(none)"
                else:
                    raise SpecErr("missing")
                out.append("(%s %s)" % (hx(name), val))
            return "(struct%s)" % "".join(" " + x for x in out)
        if k == "seq" and not v["f"]:
            return "(seq)"
        raise SpecErr("unfit")
    if t == "arr":
        if k == "seq":
            return "(seq%s)" % "".join(" " + expected_value(sh[1], e, M) for e in v["v"])
        if k == "tup":
            if len(sh[1]) != len(v["v"]):
                raise SpecErr("unfit")
            return "(seq%s)" % "".join(" " + expected_value(s, e, M) for s, e in zip(sh[1], v["v"]))
        if not v["v"] and k in ("struct", "tstruct"):
            return expected_value(sh, {"t": "obj", "f": []}, M)
        if not v["v"] and k == "map":
            return "(map)"
        raise SpecErr("unfit")
    if t == "rgb":
        arr = {"t": "arr", "v": [{"t": "str", "v": "rgb", "q": False, "b": "U"},
                                 {"t": "arr", "v": [{"t": "int", "v": c, "b": "U32"} for c in v["c"]]}]}
        if k in ("tup", "seq"):
            return expected_value(sh, arr, M)
        if k == "any" and M.kind == "bin":
            return "(seq (str %s) (seq%s))" % (hx("rgb"), "".join(" (u %d)" % c for c in v["c"]))
        raise SpecErr("unfit")
    if k in ("seq", "tup", "map", "struct", "tstruct"):
        raise SpecErr("unfit")
    if M.kind == "text":
        return expected_scalar_text(sh, v)
    return expected_scalar_bin(sh, v, M)


def expected(sh, doc, M):
    try:
        return expected_value(sh, doc, M)
    except SpecErr as e:
        return "ERR:" + e.cls


def captures_header(sh, v):
    """does deserializing v into sh visit an rgb value (not merely skip it)?"""
    k = sh[0] if isinstance(sh, tuple) else sh
    if k == "ign":
        return False
    if k in ("opt", "prop"):
        return captures_header(sh[1], v)
    if v["t"] == "rgb":
        return True
    if v["t"] == "arr":
        if k == "seq":
            return any(captures_header(sh[1], e) for e in v["v"])
        if k == "tup":
            return any(captures_header(s, e) for s, e in zip(sh[1], v["v"]))
    if v["t"] == "obj":
        if k == "map":
            return any(captures_header(sh[1], f["v"]) for f in v["f"])
        if k in ("struct", "tstruct"):
            for f in v["f"]:
                for fd in sh[1]:
                    if fd[0] == f["k"] and captures_header(fd[2], f["v"]):
                        return True
    return False


def max_token_len(doc, enc):
    """longest single lexical token of the text rendering (quotes included); gap words are <= 20 bytes"""
    m = 20
    for x in walk(doc):
        if x["t"] == "obj":
            for f in x["f"]:
                m = max(m, len(enc_bytes(f["k"], enc)) + 2)
        elif x["t"] in ("int", "bool", "str", "float", "date"):
            m = max(m, len(render_scalar(x, enc, force_quote=True)))
    return m


def to_tstruct(sh, ids, rng, p=0.5):
    """turn (some of) the struct shapes into token-attribute structs (every field gets a token id)"""
    if not isinstance(sh, tuple):
        return sh
    k = sh[0]
    if k in ("opt", "seq", "map", "prop"):
        return (k, to_tstruct(sh[1], ids, rng, p))
    if k == "tup":
        return ("tup", [to_tstruct(x, ids, rng, p) for x in sh[1]])
    if k == "struct":
        fields = [(n, m, to_tstruct(s, ids, rng, p), t) for (n, m, s, t) in sh[1]]
        if rng.random() < p:
            used = set(ids.values())
            out = []
            for (n, m, s, t) in fields:
                if n in ids:
                    t = ids[n]
                else:
                    while True:
                        t = rng.choice([rng.randrange(0x0400, 0xfff0), rng.choice([x for x in range(0x0018, 0x0317) if x not in (0x0167, 0x0243, 0x029c)])])
                        if t not in used:
                            break
                    used.add(t)
                out.append((n, m, s, t))
            return ("tstruct", out)
        return ("struct", fields)
    return sh


def sub_shape_for_field(sh, name):
    """shape of the (unique) struct field `name` if it is a plain struct/map shape"""
    if isinstance(sh, tuple) and sh[0] == "struct":
        for (n, m, s, t) in sh[1]:
            if n == name and isinstance(s, tuple) and s[0] in ("struct", "map"):
                return s
    return None
