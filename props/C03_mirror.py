"""C03, added by a_c03 (wave 4): the clauses that had no independent oracle on the real code.

  mixed_docs   well-formed documents WITH mixed containers (array that turns into a key-value list at
               its k-th element; object that ends in one / several bare values: mixed_insert1 /
               mixed_insert2 / ObjectToArray), at any nesting depth, and their expected tape computed by
               construction -> oracle ref-not-faithful / opt-not-faithful (classification object / array /
               mixed, delimiters, payloads)
  mirror       for EVERY accepted input of every stream (exhaustive sequences, ghost stress, documents,
               mutations, random tokens / bytes): the real tape against the real Lexer's token sequence
               (kind bt.mir): the stream is the tape plus deleted `{ }` pairs, nothing fabricated, altered or
               reordered -> oracles tape-not-mirror / tape-not-subsequence (finding L, the only_empties test
               ignoring an odd trailing token, was found by this oracle and is fixed: any failure is a violation)
  chain        parse h1, h2, ..., hn into ONE tape, alternating the optimised and the reference entry
               point: the tape after the last parse equals a fresh-tape parse -> oracle reuse-differs
"""
import vlib
from vlib import hexs

def make_mdoc(Doc):
    class MDoc(Doc):
        """Doc whose values are sometimes mixed containers"""
        MIXK = ["i32"] * 3 + ["quoted"] * 2 + ["id"] * 3 + ["f32", "u32", "u64", "i64", "bool", "unquoted", "f64"]

        def mscalar(self):
            self.scalar(self.rng.choice(self.MIXK), "elem")

        def mixed_tail(self, depth, n, from_array=True):
            """after the MixedContainer marker: bare scalars and `k = v`; a container only as the very last item,
            and only when the parent started as an array (after a nested container closes the state is taken
            from the parent token: Key for an Object -- a following `{}` would be a ghost)"""
            r = self.rng
            if not from_array:
                depth = 0
            for i in range(n):
                self.mscalar()
                if r.random() < 0.5:
                    self.out += vlib_eq()
                    self.tok("EQ")
                    if i == n - 1 and depth > 0 and r.random() < 0.3:
                        Doc.value(self, depth - 1, False) if r.random() < 0.5 else self.array(depth - 1)
                    else:
                        self.mscalar()
            if depth > 0 and r.random() < 0.1:
                self.array(depth - 1)

        def mixed_from_array(self, depth):
            r = self.rng
            ind = self.open()
            m = r.choice([1, 1, 2, 3, 5])
            run = r.choice([None, None, "i32", "quoted", "f32", "id"])
            for i in range(m):
                if i > 0 and depth > 0 and r.random() < 0.2:
                    self.value(depth - 1, False)
                elif run:
                    self.scalar(run, "elem")
                else:
                    self.mscalar()
            self.tok("M")
            self.mscalar()
            self.out += vlib_eq()
            self.tok("EQ")
            self.mscalar()
            self.mixed_tail(depth, r.choice([0, 0, 1, 2, 4]))
            self.close(ind, False)

        def mixed_from_object(self, depth):
            r = self.rng
            ind = self.open()
            self.fields(depth, r.choice([1, 1, 2, 3]), False)
            self.tok("M")
            k = r.choice([1, 1, 2, 2, 3])
            for _ in range(k):
                self.mscalar()
            if k >= 2:
                # `x y = z`: the `=` arrives in state ObjectToArray
                if r.random() < 0.4:
                    self.out += vlib_eq()
                    self.tok("EQ")
                    self.mscalar()
                self.mixed_tail(depth, r.choice([0, 0, 1, 3]), from_array=False)
            self.close(ind, True)

        def value(self, depth, in_object):
            r = self.rng
            if depth > 0 and r.random() < 0.3:
                self.n_mixed = getattr(self, "n_mixed", 0) + 1
                if r.random() < 0.5:
                    self.mixed_from_array(depth - 1)
                else:
                    self.mixed_from_object(depth - 1)
            else:
                Doc.value(self, depth, in_object)
    return MDoc


def vlib_eq():
    return b"\x01\x00"


def gen_mixed_doc(Doc, rng):
    M = make_mdoc(Doc)
    while True:
        d = M(rng)
        b, exp = d.build(rng.choice([1, 2, 3, 4]))
        if getattr(d, "n_mixed", 0):
            return b, exp


def witness_L(enc, EQUAL, OPEN, CLOSE):
    """`a = { {} x y = z }`: the token x used to be lost (only_empties with an odd remainder, finding L, fixed);
    replayed every run"""
    return enc("id", 0) + EQUAL + OPEN + OPEN + CLOSE + enc("id", 1) + enc("id", 2) + EQUAL + enc("id", 3) + CLOSE


def run_mixed_docs(ctx, judge, C03, n):
    rng = ctx.rng
    docs = [gen_mixed_doc(C03.Doc, rng) for _ in range(n)]
    cases = ["bt.all\t" + hexs(b) for b, _ in docs]
    impl, model = ctx.correspond("mixed_docs", cases, nontrivial=C03.nontrivial)
    judge.check(cases, impl, model, "mixed_docs")
    base = len(impl) - len(cases)
    for k, (b, exp) in enumerate(docs):
        s = C03.split_all(impl[base + k])
        if not s:
            continue
        if s[1].strip() != exp.strip():
            judge.add("ref-not-faithful", "reference parse of a well-formed token stream with mixed containers is not the stream's tape", cases[k], impl[base + k], exp)
        if s[0].strip() != exp.strip():
            judge.add("opt-not-faithful", "optimised parse of a well-formed token stream with mixed containers is not the stream's tape", cases[k], impl[base + k], exp)
        ctx.count("mixed_doc_markers_%d" % min(5, exp.count(" M ")))
    return docs


def run_mirror(ctx, judge, accepted, extra=()):
    """bt.mir on every accepted input collected by Judge.check (deduplicated), plus `extra`"""
    seen = set()
    cases = []
    for h in list(extra) + list(accepted):
        if h not in seen:
            seen.add(h)
            cases.append("bt.mir\t" + h)
    impl, model = ctx.correspond("mirror", cases, nontrivial=lambda c, o: "y" in o or "n" in o)
    base = len(impl) - len(cases)
    for k, c in enumerate(cases):
        o = impl[base + k]
        p = o.split(" ")
        if len(p) != 2 or not p[0].startswith("opt=") or not p[1].startswith("ref="):
            judge.add("crash", "bt.mir: %s" % o[:80], c, o, "opt=.. ref=..")
            continue
        for which, f in (("optimised", p[0][4:]), ("reference", p[1][4:])):
            if f == "--":
                continue
            if f == "xx":
                judge.add("tape-of-untokenizable", "%s parser accepted an input that the lexer cannot tokenize" % which, c, o, "rejected")
            elif f[1] != "y":
                judge.add("tape-not-subsequence", "%s tape holds a token that is not in the lexer's token stream at that place (fabricated, altered or reordered)" % which, c, o, "?y")
            elif f[0] != "y":
                judge.add("tape-not-mirror", "%s tape differs from the lexer's token stream by more than deleted `{ }` pairs (a key or value of the stream is missing from the tape)" % which, c, o, "yy")
        ctx.count("mirror_" + p[1][4:])
    ctx.count("mirror_cases", len(cases))


def run_chain(ctx, judge, pool, n):
    rng = ctx.rng
    cases = []
    for _ in range(n):
        k = rng.choice([2, 3, 3, 4, 6])
        cases.append("bt.chain\t" + ";".join(hexs(rng.choice(pool)) for _ in range(k)))
    impl, model = ctx.correspond("reuse_chain", cases, nontrivial=lambda c, o: "OK" in o)
    base = len(impl) - len(cases)
    for k, c in enumerate(cases):
        o = impl[base + k]
        p = o.split(" | ")
        if len(p) != 4 or not p[0].startswith("a=") or not p[2].startswith("fo=") or not p[3].startswith("fr="):
            judge.add("crash", "bt.chain: %s" % o[:80], c, o, "a=.. | b=.. | fo=.. | fr=..")
            continue
        a, b, fo, fr = p[0][2:], p[1][2:], p[2][3:], p[3][3:]
        odd = len(c.split("\t")[1].split(";")) % 2 == 1
        # the last parse filled tape a with the optimised entry point when the chain length is odd
        if (a, b) != ((fo, fr) if odd else (fr, fo)):
            judge.add("reuse-differs", "parsing into a previously used tape differs from parsing the same input into a fresh one", c, o, "a, b = fresh")
