"""C11 Scalar numeric and boolean conversions are exact or refuse."""
import itertools, math, re, struct
from vlib import hexs, unhex

RULE = ("exhaustive: all strings over the full alphabet {0-9,+,-,.,x} up to length 4 (5 thorough) and over the reduced alphabet "
        "{0,1,9,+,-,.,x} up to length 6 (7/8 thorough), each through to_u64, to_i64, to_f64; boundary neighbourhoods of u64::MAX, "
        "i64::MIN/MAX, 2^53, 2^63, 2^64 with every sign prefix, 0-3 leading zeros and several suffixes; digit integers with 0..25 "
        "fractional digits (22/23 edge) at magnitudes around 2^53 and 2^64; random long digit strings with optional sign/dot/one "
        "corrupted byte; to_bool on all strings over {y,e,s,n,o,Y,space} up to length 4. f64 results compared by IEEE bit pattern. "
        "non-trivial = the implementation accepted the input, or the input is a boundary/fraction/long case")
# >>> a_c11 (wave 4)
RULE += ("; wave 4 (props/C11_more.py): the grammar-level spec functions of ScalarSpec.v (proved equal to the models for every byte "
         "string) against to_u64/to_i64/to_f64 (with the PrecisionLoss payload)/to_bool on every power of ten 10^0..10^25 +-3, 15..20 "
         "significant digits with the '.' at every position, 54..64-bit integers at and next to the rounding ties of `as f64`, ~100 text "
         "forms that must be refused (exponents, inf/nan, hex, blanks), each of the 246 non-digit bytes as the foreign byte in 12 positions, "
         "every single-byte edit of yes/no; the prefix parsers to_u64_t/to_i64_t; slices of every length 0..24 at every alignment mod 8 with "
         "digits before and garbage after the slice; as_bytes/is_ascii/Display/Debug/==/Copy of Scalar and the accessors of ScalarError")
# <<< a_c11
# >>> s_c11 (wave 6)
RULE += ("; wave 6 (props/C11_sizes.py): size ladders 0 1 2 3 7 8 9 15 16 17 31 32 33 63 64 65 127 128 129 255 256 257 1023 1024 1025 4095 4096 "
         "4097 65533 65534 65535 65536, one dimension at a time: count of leading zeros (0..70 and the ladder) behind no sign / '+' / '-', in "
         "front of every type boundary, before and after the '.'; length of one digit run (10^k for every k 0..70); integer digits 0..21 x "
         "fraction digits 0..26; total length 1..70 x every position of one foreign byte; length 0..70 x start offset (0..17, 31..33, 63..65, "
         "127..129) from an aligned address; every leading digit in every decade 10^0..10^25 and 2^k+-1 (k 0..90); to_u64_t with a start value in "
         "every decade x digit-run length 0..21 at the overflow boundary; to_bool and as_bytes/is_ascii/Display/== on ladder lengths")
# <<< s_c11
TRUSTED = ["Flocq 4 binary64 (binary_normalize, Bdiv, Bmult in mode_NE) is the model of `as f64`, `/` and `*`; the literals of "
           "POWER_OF_TEN are modelled as the correctly rounded doubles of 10^k with k read from scalar.rs on every run",
           "oracle arithmetic: Python int / fractions.Fraction (exact), int/int true division (correctly rounded), struct for bit patterns"]
ASSUMPTIONS = ["bytes are < 256 (wf_bytes); i64::MIN itself is refused by to_i64 (the property's range is -(2^63-1)..=2^63-1)"]

U64_MAX = 2 ** 64 - 1
I64_MAX = 2 ** 63 - 1
G53 = 2 ** 53 - 1

RE_U64 = re.compile(rb"^(?:\+|\d)\d*\Z")
RE_I64 = re.compile(rb"^(?:[+-]|\d)\d*\Z")
# -? ( digits+ | + digits* | <nothing, only before '.'> ) ( . digits+ )?
RE_F64 = re.compile(rb"^(-?)(\d+|\+\d*|(?=\.))(?:\.(\d+))?\Z")


def digits_val(b):
    ds = bytes(c for c in b if 48 <= c <= 57)
    return int(ds) if ds else 0


def bits_of(x):
    return "%016x" % struct.unpack(">Q", struct.pack(">d", x))[0]


def float_of_bits(h):
    return struct.unpack(">d", struct.pack(">Q", int(h, 16)))[0]


def expect_u64(s):
    """'ok <v>' / 'refuse'"""
    if RE_U64.match(s):
        v = digits_val(s)
        if v <= U64_MAX:
            return str(v)
    return None


def expect_i64(s):
    if RE_I64.match(s):
        v = digits_val(s)
        if v <= I64_MAX:
            return str(-v if s[:1] == b"-" else v)
    return None


def expect_f64(s):
    """returns ('bits', hex) exact expectation, ('ulp2', Fraction) within 2 ulp, or None = must refuse"""
    from fractions import Fraction
    m = RE_F64.match(s)
    if not m or s in (b"", b"-"):
        return None
    neg = m.group(1) == b"-"
    lead = digits_val(m.group(2))
    frac = m.group(3)
    if frac is None:
        if lead > G53:
            return None
        # an integer: exact; "-0" is the i64 0, i.e. +0.0
        return ("bits", bits_of(float(-lead if neg else lead)))
    k = len(frac)
    i = int((m.group(2).lstrip(b"+") or b"0") + frac)
    if i > U64_MAX or k > 22:
        return None
    if i < 2 ** 53:
        v = i / (10 ** k)                      # int / int: correctly rounded
        return ("bits", bits_of(-v if neg else v))
    q = Fraction(i, 10 ** k)
    return ("ulp2", -q if neg else q)


def check_f64(ctx, s, case, out):
    from fractions import Fraction
    e = expect_f64(s)
    if out in ("PANIC", "ABORT", "HANG"):
        ctx.fail("f64-panic", "to_f64(%r) %s" % (s, out), [case], [out], "a value or a refusal")
        return
    if out.startswith("ERR"):
        if e is not None:
            ctx.fail("f64-refused", "to_f64(%r) refused (%s) but it is sign/digits/one '.' within range" % (s, out), [case], [out], str(e))
        return
    v = float_of_bits(out)
    if math.isnan(v) or math.isinf(v):
        ctx.fail("f64-nonfinite", "to_f64(%r) = %s is NaN/inf" % (s, out), [case], [out], "finite")
        return
    if e is None:
        ctx.fail("f64-accepted", "to_f64(%r) = %r but the input is outside the accepted language / range" % (s, v), [case], [out], "refusal")
    elif e[0] == "bits":
        if out != e[1]:
            ctx.fail("f64-rounding", "to_f64(%r) = %r (bits %s), correctly rounded value has bits %s = %r" % (s, v, out, e[1], float_of_bits(e[1])), [case], [out], e[1])
    else:
        err = abs(Fraction(v) - e[1])
        if err > 2 * Fraction(math.ulp(v)):
            ctx.fail("f64-2ulp", "to_f64(%r) = %r is more than 2 ulp from the exact value" % (s, v), [case], [out], str(float(e[1])))


def check_int(ctx, which, s, case, out, e):
    if out in ("PANIC", "ABORT", "HANG"):
        ctx.fail(which + "-panic", "to_%s(%r) %s" % (which, s, out), [case], [out], "a value or a refusal")
    elif out.startswith("ERR"):
        if e is not None:
            ctx.fail(which + "-refused", "to_%s(%r) refused (%s), decimal value %s is in range" % (which, s, out, e), [case], [out], e)
    elif e is None:
        ctx.fail(which + "-accepted", "to_%s(%r) = %s but the input has a foreign byte or is out of range" % (which, s, out), [case], [out], "refusal")
    elif out != e:
        ctx.fail(which + "-value", "to_%s(%r) = %s, decimal value is %s" % (which, s, out, e), [case], [out], e)


def run_strings(ctx, stream, strs, kinds=("u64", "i64", "f64"), nontrivial_all=False):
    strs = list(strs)
    cases = []
    for s in strs:
        h = hexs(s)
        for k in kinds:
            cases.append(("scalar.%s\t%s" if k != "f64" else "f64.parse\t%s") % ((k, h) if k != "f64" else (h,)))
    nt = (lambda c, i: True) if nontrivial_all else (lambda c, i: not i.startswith("ERR"))
    impl, model = ctx.correspond(stream, cases, nontrivial=nt)
    base = len(impl) - len(cases)
    # corpus cases (if any) go through the same oracles
    allc = ctx.corpus(stream) if base else []
    ctx.corpus_cases -= len(allc)
    for idx, c in enumerate(allc + cases):
        out = impl[idx]
        kind, h = c.split("\t")[:2]
        s = unhex(h)
        if kind == "scalar.u64":
            check_int(ctx, "u64", s, c, out, expect_u64(s))
        elif kind == "scalar.i64":
            check_int(ctx, "i64", s, c, out, expect_i64(s))
        elif kind == "f64.parse":
            check_f64(ctx, s, c, out)
        elif kind == "scalar.bool":
            e = {b"yes": "true", b"no": "false"}.get(s)
            if (e is None) != out.startswith("ERR") or (e is not None and out != e):
                ctx.fail("bool", "to_bool(%r) = %s" % (s, out), [c], [out], e or "refusal")
    ctx.count(stream, len(strs))
    return allc + cases, model


def incoq_sample(ctx, stream_cases, model_out):
    """Cross-check of the extraction step: a random sub-sample of the f64 cases is evaluated inside Coq
    (Eval vm_compute over the Flocq model) and compared with what the extracted OCaml model printed."""
    import os, re, vlib
    pick = [k for k in range(len(stream_cases)) if stream_cases[k].startswith("f64.parse")]
    ctx.rng.shuffle(pick)
    pick = pick[:ctx.scale(120, 1500)]
    d = os.path.join(vlib.CACHE, "incoq")
    os.makedirs(d, exist_ok=True)
    f = os.path.join(d, "C11cases.v")
    with open(f, "w") as fh:
        fh.write("From JV Require Import Bytes ScalarF64.\nOpen Scope N_scope.\n")
        for k in pick:
            b = unhex(stream_cases[k].split("\t")[1])
            fh.write("Eval vm_compute in to_f64_bits [%s].\n" % "; ".join(str(x) for x in b))
    rc, out, _ = vlib.sh(["coqc", "-Q", os.path.join(vlib.COQ, "theories"), "JV", "-noglob", f], cwd=d, timeout=600)
    vals = re.findall(r"=\s*(?:Ok\s+\(?(-?\d+)\)?%Z|Err\s+(\d+)|(Panic|OOB|OutOfFuel))", out)
    if rc != 0 or len(vals) != len(pick):
        ctx.broken.append({"what": "in-coq-sample", "detail": "coqc rc=%s, %d results for %d cases: %s" % (rc, len(vals), len(pick), out[-600:])})
        return
    bad = 0
    for k, (okv, errv, crash) in zip(pick, vals):
        got = ("%016x" % int(okv)) if okv != "" else ("ERR:" + errv if errv != "" else "PANIC")
        if got != model_out[k]:
            bad += 1
            if bad <= 3:
                ctx.broken.append({"what": "extraction", "detail": "%s: vm_compute in Coq gives %s, extracted model printed %s" % (stream_cases[k], got, model_out[k])})
    ctx.count("in_coq_cross_checked", len(pick))


def exhaustive(alphabet, maxlen):
    for n in range(0, maxlen + 1):
        for t in itertools.product(alphabet, repeat=n):
            yield bytes(t)


def boundary_strings(rng):
    out = set()
    centres = [0, 1, 9, 10, 2 ** 53, 2 ** 53 - 1, I64_MAX, 2 ** 63, U64_MAX, 2 ** 64, 10 ** 19, 10 ** 20, 10 ** 22, 10 ** 23, 2 ** 32, 2 ** 31,
               U64_MAX // 10, U64_MAX // 10 + 1, 1844674407370955161, 999999999999999999, 9999999999999999999, 99999999999999999999]
    for c in centres:
        for dlt in range(-3, 4):
            v = c + dlt
            if v < 0:
                continue
            for pre in (b"", b"+", b"-", b"-+", b"+-", b"--", b"++"):
                for z in (0, 1, 3):
                    for suf in (b"", b".", b".0", b".5", b"x", b".0x", b" ", b".00000000000000000000000"):
                        out.add(pre + b"0" * z + str(v).encode() + suf)
    # zero padding of every length 0..50 in front of the overflow / range boundaries and in front of values spread over the
    # refused interval above u64::MAX (a block-wise parser has its carry boundaries at decimal positions, not at 2^64)
    pads = [U64_MAX, 2 ** 64, 2 ** 64 + 1, I64_MAX, 2 ** 63, 2 ** 63 + 1, 10 ** 19, 10 ** 19 - 1, 10 ** 20 - 1, 2 ** 53 - 1, 2 ** 53,
            18446744073709551616 + 10 ** 15, 18449999999999999999, 18450000000000000000, 19999999999999999999, 27670116110564327424, 36893488147419103231]
    for v in pads:
        for z in range(0, 51):
            for pre in (b"", b"+", b"-"):
                out.add(pre + b"0" * z + str(v).encode())
    return out


def fraction_strings(ctx, rng):
    out = set()
    mags = [0, 1, 5, 567821, 2 ** 53 - 2, 2 ** 53 - 1, 2 ** 53, 2 ** 53 + 1, 2 ** 53 + 2, 2 ** 63, U64_MAX - 1, U64_MAX, U64_MAX + 1, 10 ** 19, 10 ** 15, 10 ** 16]
    for i in mags + [rng.randrange(0, 2 ** 53) for _ in range(ctx.scale(150, 2000))] + [rng.randrange(2 ** 53, 2 ** 64) for _ in range(ctx.scale(60, 800))]:
        ds = str(i)
        for k in list(range(0, 26)):
            # k fractional digits: pad with leading zeros when the integer is too short
            body = ds.rjust(k + 1, "0") if len(ds) <= k else ds
            s = body[:len(body) - k] + "." + body[len(body) - k:] if k else body
            for pre in ("", "-", "+", "-+"):
                out.add((pre + s).encode())
            if k:
                # no leading digit at all: ".ddd"
                fr = ds.rjust(k, "0")[-k:]
                out.add(("." + fr).encode())
                out.add(("-." + fr).encode())
    return out


def long_strings(ctx, rng):
    out = set()
    for _ in range(ctx.scale(6000, 120000)):
        n = rng.choice([rng.randrange(1, 12), rng.randrange(12, 24), rng.randrange(15, 45)])
        b = bytearray(rng.choice(b"0123456789") for _ in range(n))
        if rng.random() < 0.5:
            b[:0] = b"0" * rng.randrange(0, 4)
        r = rng.random()
        if r < 0.45:
            b.insert(rng.randrange(0, len(b) + 1), 0x2e)
        if rng.random() < 0.4:
            b[:0] = rng.choice([b"-", b"+", b"-+"])
        if rng.random() < 0.15:
            b[rng.randrange(len(b))] = rng.choice(b"+-.x e/:\x00\xff")
        out.add(bytes(b))
    return out


def run(ctx):
    rng = ctx.rng
    # 1. exhaustive small strings
    full = b"0123456789+-.x"
    red = b"019+-.x"
    seen = set(exhaustive(full, ctx.scale(4, 5)))
    run_strings(ctx, "exhaustive_full", sorted(seen))
    more = [s for s in exhaustive(red, ctx.scale(6, 7)) if s not in seen]
    run_strings(ctx, "exhaustive_reduced", more)
    if ctx.tier == "thorough":
        more8 = [s for s in exhaustive(red, 8) if len(s) == 8]
        run_strings(ctx, "exhaustive_reduced8_f64", more8, kinds=("f64",))
    # 2. boundaries
    run_strings(ctx, "boundaries", sorted(boundary_strings(rng)), nontrivial_all=True)
    # 3. fractions (22/23 digits, 2^53, 2^64)
    fc, fm = run_strings(ctx, "fractions", sorted(fraction_strings(ctx, rng)), kinds=("f64",), nontrivial_all=True)
    incoq_sample(ctx, fc, fm)
    # 4. random long digit strings
    run_strings(ctx, "long", sorted(long_strings(ctx, rng)), nontrivial_all=True)
    # 5. bool
    bools = set(exhaustive(b"yesnoY ", 4)) | {b"yes\n", b"no\x00", b"true", b"false", b"1", b"0", b"yess", b"yes", b"no", b"", b"YES", b"No"}
    run_strings(ctx, "bool", sorted(bools), kinds=("bool",))
    # >>> a_c11 (wave 4): spec functions / aligned slices / public surface, see props/C11_more.py
    import sys
    from props import C11_more
    C11_more.run_more(ctx, sys.modules[__name__])
    # <<< a_c11
    # >>> s_c11 (wave 6): size ladders, see props/C11_sizes.py
    from props import C11_sizes
    C11_sizes.run_sizes(ctx, sys.modules[__name__], C11_more)
    # <<< s_c11


def search(ctx):
    import random
    ctx.rng = random.Random(ctx.seed + 1)
    old = ctx.tier
    ctx.tier = "thorough"
    try:
        run_strings(ctx, "search_boundaries", sorted(boundary_strings(ctx.rng)), nontrivial_all=True)
        run_strings(ctx, "search_fractions", sorted(fraction_strings(ctx, ctx.rng)), kinds=("f64",), nontrivial_all=True)
        run_strings(ctx, "search_long", sorted(long_strings(ctx, ctx.rng)), nontrivial_all=True)
        run_strings(ctx, "search_exhaustive", sorted(exhaustive(b"019+-.x", 7)))
    finally:
        ctx.tier = old


CLAIM = {
    "text": "Coq theorems over a faithful Gallina model of scalar.rs: exact characterisation of to_u64 / to_i64 (accepted language, decimal value, range, completeness for every [+]0*dec(v) rendering, i64::MIN refused), to_bool, and of to_f64 over Flocq binary64 (accepted language, integer guard at 2^53-1 exact, finite results, correct rounding for digit integers below 2^53 with at most 22 fractional digits via Bdiv_correct). The model is tied to the code by differential execution (extracted Flocq vs Rust, f64 compared by bit pattern) on exhaustive small strings, boundary neighbourhoods, 0..25 fractional digits and random long strings; oracles in exact Python arithmetic are evaluated on the implementation's outputs",
    "note": "Trusted: Coq kernel, Flocq (standard real-number axioms), tools/gen_tables.py (POWER_OF_TEN exponents, 2^53-1 guard), extraction, harness. The <=2ulp clause is a theorem too (Props/C11_ulp.v: C11_to_f64_2ulp, C11_to_f64_spec), with ulp taken at the exact decimal value.",
    "technique": "machine-checked proof in Coq over an executable model + model/implementation correspondence by extraction",
}
