"""C20 wave 4 (a_c20): I/O faults through EVERY operation of the two streaming TokenReaders (next, read, read_bytes,
skip_container, skip_unquoted_value), the error accessors / conversions, and typed targets with all-optional fields
through the two reader deserializers (serde derive and JominiDeserialize).

Oracle (independent of the Coq model): every faulty run is compared with its fault-free twin = the same case with
the F events removed, both run on the implementation.  The twin tells, per operation, the result, the position and
the number of read calls issued so far, so the run under a fault at read-call index fi is fully determined:
  * operations that finish before read call fi return exactly what the twin returns (result, position, reads, bytes);
  * the operation during which read call fi is issued returns ReaderErrorKind::Read (class 100), after exactly fi+1
    read calls, at a position <= bytes delivered, and every accessor of the error is consistent (mask 0);
  * resumable operations are retried by the harness (text: read_bytes; binary: next / read / read_bytes): after a
    one-shot fault the retry and everything after it return the twin's results; under a persistent fault every
    retry fails with class 100 again;
  * a fault index the twin never reaches changes nothing.
"""
import struct
from vlib import hexs
from props import textdoc as td, textgen as tg
from props import C08 as B

BAD = ("PANIC", "ABORT", "HANG", "NOKIND", "MISSING")


# ----------------------------------------------------------------------------------------------- op lists
def text_oplists(rng, toks, n_extra=2):
    """op lists for a text document whose slice tokens are `toks` (O C OP:n U:h Q:h)"""
    m = len(toks)
    out = [["n"] * (m + n_extra), ["r"] * (m + n_extra)]
    opens = [i for i, t in enumerate(toks) if t == "O"]
    for i in rng.sample(opens, min(2, len(opens))):
        out.append([rng.choice("nr") for _ in range(i + 1)] + ["k"] + ["n"] * (m - i))
    unq = [i for i, t in enumerate(toks) if t.startswith("U:")]
    for i in rng.sample(unq, min(2, len(unq))):
        out.append([rng.choice("nr") for _ in range(i + 1)] + ["u"] + ["n"] * (m - i))
    # a random mix with read_bytes
    mix = []
    for i in range(m + 1):
        r = rng.random()
        if r < 0.15:
            mix.append("by%d" % rng.choice([1, 2, 3, 5]))
        elif r < 0.25 and i and toks[i - 1].startswith("U:"):
            mix.append("u")
        elif r < 0.33 and i and toks[i - 1] == "O":
            mix.append("k")
        else:
            mix.append(rng.choice("nr"))
    out.append(mix)
    out.append(["by%d" % rng.choice([1, 2, 4, 7])] * 3 + ["n"] * m)
    return out


def bin_oplists(rng, toks):
    m = len(toks)
    out = [["r"] * (m + 1), [rng.choice("nr") for _ in range(m)] + ["n", "n"]]
    opens = [i for i, t in enumerate(toks) if t[0][0] == "O"]
    for i in rng.sample(opens, min(2, len(opens))):
        out.append(["r"] * (i + 1) + ["k"] + ["n"] * (m - i))
    mix = []
    for i in range(m + 1):
        r = rng.random()
        if r < 0.15:
            mix.append("by%d" % rng.choice([1, 2, 3, 6]))
        elif r < 0.3 and i and toks[i - 1][0][0] == "O":
            mix.append("k")
        else:
            mix.append(rng.choice("nr"))
    out.append(mix)
    return out


# ----------------------------------------------------------------------------------------------- the twin oracle
def parse_items(o):
    """[(res, pos, reads, delivered, mask-or-None)]"""
    if o == "-":
        return []
    items = []
    for it in o.split(" "):
        res, _, tail = it.rpartition("@")
        f = tail.split("/")
        mask = None
        if len(f) == 4:
            mask = f[3]
        items.append((res, int(f[0]), int(f[1]), int(f[2]), mask))
    return items


def judge_twin(ctx, tag, case, out, twin_out, ops, fi, persistent, ndata, retry_ops):
    """out: run under a fault at read index fi; twin_out: the same run without the fault"""
    key = tag + "-fault-"
    if out in BAD or twin_out in BAD:
        ctx.fail(key + "crash", "%s under a fault at read %d" % (out, fi), [case], [out]); return
    try:
        F, T = parse_items(out), parse_items(twin_out)
    except (ValueError, IndexError):
        ctx.fail(key + "format", "unparsable output %s" % out[:120], [case], [out]); return
    for (res, pos, reads, dl, mask) in F:
        if pos > dl or dl > ndata:
            ctx.fail(key + "position", "position %d / delivered %d / data %d after %s" % (pos, dl, ndata, res), [case], [out], twin_out); return
        if mask not in (None, "A0"):
            ctx.fail(key + "error-api", "error accessors inconsistent (mask %s) on %s" % (mask, res), [case], [out]); return
    # the first twin op during which read call fi is issued
    jstar = next((j for j, t in enumerate(T) if t[2] > fi), None)
    if jstar is None:
        if [f[:4] for f in F] != [t[:4] for t in T]:
            ctx.fail(key + "unreached", "a fault at read %d, which the fault-free run never reaches (%d reads), changed the run" % (fi, T[-1][2] if T else 0),
                     [case], [out], twin_out)
        return
    if [f[:4] for f in F[:jstar]] != [t[:4] for t in T[:jstar]]:
        ctx.fail(key + "wrong", "operations before the failing read call %d differ from the fault-free run" % fi, [case], [out], twin_out); return
    if len(F) <= jstar:
        ctx.fail(key + "format", "run shorter than the fault-free prefix", [case], [out], twin_out); return
    res, pos, reads, dl, mask = F[jstar]
    op = ops[jstar] if jstar < len(ops) else "?"
    if res != "ERR:100" and not persistent and [f[:2] for f in F[jstar:]] == [t[:2] for t in T[jstar:]]:
        # a transient failure may be absorbed inside the call (an internal retry) as long as every result is the
        # fault-free one: the property only forbids completing with a DIFFERENT result
        ctx.count(tag + "_one_shot_absorbed")
        return
    if res != "ERR:100":
        what = "returns %s" % res
        k = "swallowed" if not res.startswith("ERR") else "other-error"
        ctx.fail(key + k, "op %s (#%d) issues read call %d, which fails, but %s (fault-free: %s)" % (op, jstar, fi, what, T[jstar][0]), [case], [out], twin_out); return
    if reads != fi + 1:
        ctx.fail(key + "reads", "the failing op returned after %d read calls, the fault was call %d" % (reads, fi), [case], [out], twin_out); return
    rest = F[jstar + 1:]
    retry = op[:2] in retry_ops or op in retry_ops
    if not retry:
        if rest:
            ctx.fail(key + "format", "the harness went on after a failed %s" % op, [case], [out]); return
        return
    if persistent:
        if [r[0] for r in rest] != ["ERR:100"] * 2:
            ctx.fail(key + "persistent", "retries of %s under a persistent fault: %s" % (op, " ".join(r[0] for r in rest)), [case], [out], "ERR:100 ERR:100"); return
        return
    # one-shot: the retry returns the twin's result, and so does everything after it (one more read call)
    want = [(t[0], t[1], t[2] + 1, t[3]) for t in T[jstar:]]
    got = [r[:4] for r in rest]
    if got != want:
        k = "retry-in-quote" if tag == "text" else "retry"
        ctx.fail(key + k, "after a one-shot fault in %s (#%d) the retried run differs from the fault-free run" % (op, jstar), [case], [out], twin_out)


def fault_scheds(rng, bs, nfi):
    """(label, fi, persistent, sched) for a sample of fault indices of the base schedule bs"""
    idxs = list(range(len(bs) + 1))
    rng.shuffle(idxs)
    out = []
    for fi in sorted(set([0] + idxs[:nfi])):
        out.append((fi, False, bs[:fi] + ["F"] + bs[fi:]))
        out.append((fi, True, bs[:fi] + ["F"] * 8 + bs[fi:]))
    return out


def sstr(s):
    return ",".join(str(x) for x in s) if s else "-"


# ----------------------------------------------------------------------------------------------- text reader
EVERY_KIND = [b'a="q\\"x" b==c d<=1 e>=2 f!=g h?=i j<k l>m @[x+1]=@y {} #c\n rgb {1 2} z=1',
              b'\xef\xbb\xbfk="v w" x={ y="#" } #t', b"a = hsv { 0.5 0.5 1.0 } b = { c = { } } d", b'"a b"="c d" e={"f"}']


def run_text_ops(ctx):
    rng = ctx.rng
    docs = []
    for _ in range(ctx.scale(60, 400)):
        doc = td.gen_fields(rng, rng.choice([1, 2, 3]), rng.randrange(1, 4), params=False)
        docs.append(td.render(doc, rng, rng.choice(td.STYLES)))
    docs = [d for d in docs if len(d) < 400] + EVERY_KIND
    free = ["tr.slice\t%s" % hexs(d) for d in docs]
    f_impl, _ = ctx.correspond("ops_text_tokens", free, nontrivial=lambda c, i: True)
    fb = len(f_impl) - len(free)
    cases, meta = [], []        # c20.tapi cases; meta = (doc, ops, fi, persistent, twin index)
    for k, d in enumerate(docs):
        parts = f_impl[fb + k].split(" ")
        toks = [p for p in parts[:-2]]
        n = len(d)
        need = tg.atoms(d)
        exhaustive = d in EVERY_KIND
        oplists = text_oplists(rng, toks)
        if not exhaustive:
            oplists = rng.sample(oplists, min(len(oplists), ctx.scale(3, 6)))
        for ops in oplists:
            maxby = max([int(o[2:]) for o in ops if o.startswith("by")] + [0])
            bases = [[1] * (n + 1), [3] * (n // 3 + 1), [rng.choice([1, 2, 5, 9]) for _ in range(n)], [n or 1]]
            for bs in (bases if exhaustive else rng.sample(bases, 2))[:ctx.scale(2, 4)]:
                cap = max(rng.choice([need, need + 3, n + 9]), maxby, 1)
                ti = len(cases)
                cases.append("c20.tapi\t%d\t%s\t%s\t%s" % (cap, sstr(bs), hexs(d), ",".join(ops))); meta.append((d, ops, None, False, ti))
                for fi, pers, sch in fault_scheds(rng, bs, len(bs) if exhaustive and len(bs) < 80 and ctx.tier != "quick" else ctx.scale(5, 12)):
                    cases.append("c20.tapi\t%d\t%s\t%s\t%s" % (cap, sstr(sch), hexs(d), ",".join(ops))); meta.append((d, ops, fi, pers, ti))
    impl, _ = ctx.correspond("ops_text_api", cases, nontrivial=lambda c, i: "ERR:100" in i, model=False)
    base = len(impl) - len(cases)
    for k, (d, ops, fi, pers, ti) in enumerate(meta):
        if fi is None:
            continue
        judge_twin(ctx, "text", cases[k], impl[base + k], impl[base + ti], ops, fi, pers, len(d), ("by",))
    # the same runs through the extracted reader model (canonical rendering: stops at the first failing op)
    mcases = ["c20.tops" + c[len("c20.tapi"):] for c in cases]
    ctx.correspond("ops_text_model", mcases, nontrivial=lambda c, i: "ERR:100" in i)
    ctx.count("ops_text_cases", len(cases))


# ----------------------------------------------------------------------------------------------- binary reader
def run_bin_ops(ctx):
    rng = ctx.rng
    docs = []
    for _ in range(ctx.scale(80, 500)):
        toks = B.rand_doc(rng)
        d = b"".join(B.enc(t) for t in toks)
        if d and len(d) < 300:
            docs.append(d)
    # every token kind once, nested containers, an rgb block
    allk = [("T", 0x2d83), ("EQ",), ("O",), ("Q", b"ab"), ("U", b"c"), ("U32", 7), ("U64", 2 ** 40), ("I32", -3), ("I64", -2 ** 40), ("BOOL", True),
            ("F32", b"\x00\x00\x80\x3f"), ("F64", b"\x00" * 7 + b"\x40"), ("O",), ("O",), ("C",), ("T", 1), ("C",), ("C",), ("T", 9), ("EQ",), ("Q", b"end")]
    special = b"".join(B.enc(t) for t in allk)
    docs.append(special)
    cases, meta = [], []
    for d in docs:
        toks, end, _need = B.py_lex(d)
        n = len(d)
        need = B.need_of(d)
        exhaustive = d == special
        oplists = bin_oplists(rng, toks)
        if not exhaustive:
            oplists = rng.sample(oplists, min(len(oplists), ctx.scale(3, 5)))
        for ops in oplists:
            maxby = max([int(o[2:]) for o in ops if o.startswith("by")] + [0])
            bases = [[1] * (n + 1), [3] * (n // 3 + 1), [rng.choice([1, 2, 5, 9]) for _ in range(n)], [n]]
            for bs in (bases if exhaustive else rng.sample(bases, 2))[:ctx.scale(2, 4)]:
                cap = max(rng.choice([need, need + 1, n + 5, 64 + need]), maxby, 1)
                ti = len(cases)
                cases.append("c20.bapi\t%d\t%s\t%s\t%s" % (cap, sstr(bs), hexs(d), ",".join(ops))); meta.append((d, ops, None, False, ti))
                for fi, pers, sch in fault_scheds(rng, bs, len(bs) if exhaustive and ctx.tier != "quick" else ctx.scale(5, 12)):
                    cases.append("c20.bapi\t%d\t%s\t%s\t%s" % (cap, sstr(sch), hexs(d), ",".join(ops))); meta.append((d, ops, fi, pers, ti))
    impl, _ = ctx.correspond("ops_bin_api", cases, nontrivial=lambda c, i: "ERR:100" in i, model=False)
    base = len(impl) - len(cases)
    for k, (d, ops, fi, pers, ti) in enumerate(meta):
        if fi is None:
            continue
        judge_twin(ctx, "bin", cases[k], impl[base + k], impl[base + ti], ops, fi, pers, len(d), ("n", "r", "by"))
    # model = implementation for the same schedules and op lists (bl.rops: no retry, every op is attempted; the position
    # after every failed call is part of the output)
    mcases = []
    for c in cases:
        _, cap, sch, h, ops = c.split("\t")
        mcases.append("bl.rops\t%s\t%s\t%s\t%s" % (h, cap, sch, ops))
    ctx.correspond("ops_bin_model", mcases, nontrivial=lambda c, i: "ERR:100" in i)
    ctx.count("ops_bin_cases", len(cases))


# ----------------------------------------------------------------------------------------------- typed targets
def gen_inner(rng, derive):
    f = []
    if rng.random() < 0.7:
        f.append(("x", rng.randrange(-50, 50)))
    for _ in range(rng.choice([0, 1, 1, 2]) if derive else rng.choice([0, 1])):
        if derive:
            f.append(("y", rng.choice(["p", "qq", "r s"])))
        else:
            f.append(("y", [rng.choice(["p", "qq", "r s"]) for _ in range(rng.randrange(0, 3))]))
    if not derive and rng.random() < 0.5:
        f.append(("z", {"obj": [(rng.choice(["m", "n", "o"]) + str(i), rng.choice(["u", "v"])) for i in range(rng.randrange(0, 3))]}))
    if rng.random() < 0.5:
        f.append(("w", rng.random() < 0.5))
    rng.shuffle(f)
    return {"obj": f}


def gen_plaus(rng, derive):
    """abstract document for the Plaus / DPlaus targets: list of (key, value); value = int | bool | str | list | {"obj": pairs} | "GHOST" """
    f = []
    if rng.random() < 0.7:
        f.append(("a", rng.randrange(-1000, 1000)))
    if rng.random() < 0.7:
        f.append(("b", [rng.randrange(100) for _ in range(rng.randrange(0, 5))]))
    if not derive and rng.random() < 0.6:
        f.append(("c", {"obj": [("k%d" % i, rng.randrange(100)) for i in range(rng.randrange(0, 4))]}))
    if rng.random() < 0.7:
        f.append(("d", gen_inner(rng, derive)))
    if rng.random() < 0.6:
        f.append(("e", rng.choice(["hello", "a b", "", "x"])))
    if not derive and rng.random() < 0.5:
        f.append(("f", rng.random() < 0.5))
    if derive:
        for _ in range(rng.randrange(0, 3)):
            f.append(("g", gen_inner(rng, derive)))
    elif rng.random() < 0.6:
        f.append(("g", [gen_inner(rng, derive) for _ in range(rng.randrange(0, 3))]))
    if not derive and rng.random() < 0.4:
        f.append(("t", [rng.randrange(10), rng.randrange(10)]))
    # fields the targets do not know: skipped through deserialize_ignored_any / skip_container
    for _ in range(rng.choice([0, 1, 1, 2])):
        f.append((rng.choice(["unk", "zz", "other"]), rng.choice([{"obj": [("p", 1), ("q", {"obj": [("r", [1, 2])]})]}, [1, 2, 3], "scalar", [[1], [2, 3]], {"obj": []}])))
    rng.shuffle(f)
    for _ in range(rng.choice([0, 0, 1])):
        f.insert(rng.randrange(len(f) + 1), ("", "GHOST"))
    if rng.random() < 0.8:
        f.append((rng.choice(["last", "final"]) if derive else "last", rng.choice(["end", "fin"])))
    return f


def text_value(v, rng):
    if v is True or v is False:
        return b"yes" if v else b"no"
    if isinstance(v, int):
        return str(v).encode()
    if isinstance(v, str):
        return b'"' + v.encode() + b'"' if (" " in v or v == "" or rng.random() < 0.3) else v.encode()
    if isinstance(v, list):
        return b"{" + rng.choice([b" ", b""]) + b" ".join(text_value(x, rng) for x in v) + rng.choice([b" ", b""]) + b"}"
    return b"{ " + text_pairs(v["obj"], rng) + b"}"


def text_pairs(pairs, rng):
    out = b""
    for k, v in pairs:
        if v == "GHOST":
            out += rng.choice([b"{} ", b"{ }\n", b"{}"])
            continue
        out += k.encode() + rng.choice([b"=", b" = ", b"="]) + text_value(v, rng) + rng.choice([b" ", b"\n", b"\t", b" #c\n", b"\r\n"])
    return out


def bin_str(s, quoted=True):
    b = s.encode()
    return struct.pack("<HH", 0x000f if quoted else 0x0017, len(b)) + b


def bin_value(v, rng):
    if v is True or v is False:
        return struct.pack("<HB", 0x000e, 1 if v else 0)
    if isinstance(v, int):
        return struct.pack("<Hi", 0x000c, v)
    if isinstance(v, str):
        return bin_str(v, rng.random() < 0.7)
    if isinstance(v, list):
        return b"\x03\x00" + b"".join(bin_value(x, rng) for x in v) + b"\x04\x00"
    return b"\x03\x00" + bin_pairs(v["obj"], rng) + b"\x04\x00"


def bin_pairs(pairs, rng):
    out = b""
    for k, v in pairs:
        if v == "GHOST":
            out += b"\x03\x00\x04\x00"
            continue
        out += bin_str(k, rng.random() < 0.3) + b"\x01\x00" + bin_value(v, rng)
    return out


def run_plaus(ctx):
    rng = ctx.rng
    specs = []      # (fmt, target, buf, sched, aux, data)
    for _ in range(ctx.scale(90, 900)):
        target = rng.choice(["plaus", "plaus", "onlylast", "dplaus", "dplaus"])
        doc = gen_plaus(rng, target == "dplaus")
        if rng.random() < 0.55:
            data = text_pairs(doc, rng) + rng.choice([b"", b"", b" ", b"\n\n", b"# trailing comment", b"#x\n "])
            mt = max([len(x) for x in data.replace(b"\n", b" ").split(b" ")] + [24]) + 8
            specs.append(("text", target, rng.choice([mt, mt + 7, 256, 32768]), rng.choice(["-", "1*", "3,5*", "7*", "16,1*"]), rng.choice(["utf8", "w1252"]), data))
        else:
            data = bin_pairs(doc, rng)
            specs.append(("bin", target, rng.choice([32, 39, 256, 32768]), rng.choice(["-", "1*", "3,5*", "7*", "16,1*"]), rng.choice(["eu4", "raw"]), data))
    def case(s, suffix, free=False):
        fmt, target, buf, sched, aux, data = s
        path = ("freader:%s%s" % (sched, suffix)) if free else ("reader:%d:%s%s" % (buf, sched, suffix))
        return "\t".join(["c20.plaus", fmt, target, path, aux, hexs(data)])
    # the convenience entry points (default 32 KiB buffer) for a part of the specs
    free = [rng.random() < 0.25 for _ in specs]
    clean = [case(s, "", free[j]) for j, s in enumerate(specs)]
    c_impl, _ = ctx.correspond("plaus_clean", clean, nontrivial=lambda c, i: not i.startswith("ERR"), model=False)
    cb = len(c_impl) - len(clean)
    fcases, fmeta = [], []
    for j, s in enumerate(specs):
        o = c_impl[cb + j]
        if o in BAD:
            ctx.fail("plaus-crash", "fault-free run: %s" % o, [clean[j]], [o]); continue
        try:
            val, calls, dl, mask = o.rsplit(" ", 3)
            ncalls = int(calls.split("=")[1])
        except (ValueError, IndexError):
            ctx.fail("plaus-format", "unparsable output %s" % o[:100], [clean[j]], [o]); continue
        if val.startswith("ERR"):
            ctx.count("plaus_clean_err_" + val)
        ctx.count("plaus_read_calls", ncalls)
        lim = ctx.scale(30, 300)
        idx = list(range(ncalls)) if ncalls <= lim else sorted(set(rng.randrange(ncalls) for _ in range(lim)) | {0, ncalls - 1, ncalls - 2})
        for k in idx:
            for kf in "FP":
                fcases.append(case(s, "@%d%s" % (k, kf), free[j])); fmeta.append((val, k, kf, ncalls, len(s[5])))
    impl, _ = ctx.correspond("plaus_faults", fcases, nontrivial=lambda c, i: i.startswith("ERR:io"), model=False)
    b0 = len(impl) - len(fcases)
    for k, (ref, idx, kf, ncalls, ndata) in enumerate(fmeta):
        o = impl[b0 + k]
        if o in BAD:
            ctx.fail("plaus-crash", "fault at read call %d (%s): %s" % (idx, kf, o), [fcases[k]], [o], "ERR:io"); continue
        val, calls, dl, mask = o.rsplit(" ", 3)
        if mask != "A0":
            ctx.fail("plaus-error-api", "error accessors inconsistent (mask %s) for %s" % (mask, val[:60]), [fcases[k]], [o])
        elif int(dl.split("=")[1]) > ndata:
            ctx.fail("plaus-delivered", "more bytes delivered than the data holds", [fcases[k]], [o])
        elif not val.startswith("ERR"):
            if val != ref:
                ctx.fail("plaus-wrong-value", "fault at read call %d (%s) is swallowed: the call returns %s, the fault-free run returns %s" % (idx, kf, val[:150], ref[:150]),
                         [fcases[k]], [o], ref)
            elif kf == "P":
                ctx.fail("plaus-persistent-swallowed", "persistent fault from read call %d of %d on: the call still returns Ok" % (idx, ncalls), [fcases[k]], [o], "ERR:io")
        elif val != "ERR:io" and not (kf == "F" and val == ref):
            ctx.fail("plaus-other-error", "fault at read call %d (%s) surfaces as %s instead of an I/O error (fault-free: %s)" % (idx, kf, val, ref[:100]), [fcases[k]], [o], "ERR:io")
    ctx.count("plaus_fault_cases", len(fcases))
    # conversions into jomini::Error that need no reader
    e_impl, _ = ctx.correspond("errconv", ["c20.errconv"], nontrivial=lambda c, i: True)
    if e_impl[-1] != "A0 1":
        ctx.fail("errconv", "From<io::Error> / From<ScalarError> for jomini::Error: %s" % e_impl[-1], ["c20.errconv"], [e_impl[-1]], "A0 1")


def run_part(ctx):
    run_text_ops(ctx)
    run_bin_ops(ctx)
    run_plaus(ctx)
