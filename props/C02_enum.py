"""C02, wave 5 (engineer w_c02): the three gaps left by audit/C02.md.

(1) stream `enum_spec` / `enum_model` / `enum_real`: enums with DATA-CARRYING variants (serde-derive's externally tagged
    enums: unit / newtype / tuple / struct variants) on both text paths.
      * documents: the full TextDoc grammar of props/C02_ext.py plus 1..3 occurrences of an enum-typed field whose value
        is a scalar, a header `name { .. }`, a tagged object `{ name = payload }`, a pair `{ name payload }`, or anything;
      * target: struct(<field>*:denum(<variant>:u | n:<shape> | t:tup(..) | s:struct(..), ..)) (harness/src/fam_de.rs, w_c02
        block: DEnumV calls variant_seed, then unit_variant / newtype_variant_seed / tuple_variant / struct_variant),
        the payload shapes derived from the payloads (C02_ext.sh_value) incl. wrong ones;
      * ORACLE 1 = the extracted TextDeEnum.spec_enum_fields (kind spec.text.enum; Props/C02_enum.v is stated over it):
        from_*_slice / from_*_tape / ObjectReader::deserialize must return it; from_*_reader must return it when every
        occurrence names a unit variant, and ERR:de otherwise -- the stream path refuses payload variants (finding
        Q-stream-data-enum, theorem C02_enum_stream_payload_refused);
      * ORACLE 2 = a Python reading of the abstract document on the documents whose payloads are plain decimal numbers /
        ASCII words (independent of every Coq definition);
      * enum_model: the extracted TextDeEnum.enum_root_tape / enum_root_stream against the implementation (kind
        de.model.enum; aux = the implementation's tape / reader tokens of the text);
      * enum_real: a serde-DERIVED `struct Root { color: Real }`, `enum Real { rgb(u8,u8,u8), hsv(f64,f64,f64), named { a: u8, b:
        String }, num(u32), list(Vec<String>), plain }` through the same entry points must print what the runtime shape
        interpreter prints for the corresponding denum shape (anchors DEnumV to serde-derive).
(2) stream `typed_keys`: maps keyed by integers / dates / booleans / enums (kmap(<key shape>,<value shape>)).
(3) stream `size_hints`: SeqAccess::size_hint / MapAccess::size_hint (hseq / hmap), TextDeserializer::from_encoded_tape
    (path etape).
"""
from props import dedoc as D
from props import textdoc as TD
from props import C02_ext as X
from props.dedoc import hx

ENUM_FIELDS = [b"color", b"kind", b"unit_type", b"e", b"remainder"]
VNAMES = [b"rgb", b"hsv", b"infantry", b"num", b"named", b"plain", b"v1", b"LIST", b"a", b"x_y"]


def gen_payload(rng):
    """a value that can be the payload of a variant (not a header at array positions, see C02_ext.gen_value)"""
    r = rng.random()
    if r < 0.3:
        return X.gen_scalar(rng)
    if r < 0.6:
        return ("a", [X.gen_scalar(rng, quoted_ok=(rng.random() < 0.3)) for _ in range(rng.randrange(0, 5))])
    if r < 0.85:
        fs = X.gen_fields(rng, 1, rng.randrange(1, 4), True, params=False)
        return ("o", fs, [])
    v = X.gen_value(rng, 2)
    return v


def gen_enum_value(rng, vname):
    """-> (value, payload or None)"""
    r = rng.random()
    if r < 0.22:
        return ("s", "Q" if rng.random() < 0.1 else "U", vname), None
    if r < 0.5:
        if rng.random() < 0.7:
            # (a header over `{}` does not exist: the empty block is a ghost object for the tape parser)
            inner = ("a", [X.gen_scalar(rng, quoted_ok=False) for _ in range(rng.randrange(1, 5))])
        else:
            inner = ("o", X.gen_fields(rng, 0, rng.randrange(1, 3), True, params=False), [])
        return ("h", vname, inner), inner
    if r < 0.78:
        p = gen_payload(rng)
        op = "=" if rng.random() < 0.93 else rng.choice(["<", ">", ">=", "=="])
        return ("o", [("f", ("s", "U", vname), op, p)], []), (p if op == "=" else None)
    if r < 0.93:
        p = gen_payload(rng)
        if p[0] == "h" or (p[0] == "a" and not p[1]):
            p = X.gen_scalar(rng)
        return ("a", [("s", "U", vname), p]), p
    return X.gen_value(rng, 2), None


def variant_of_payload(rng, p):
    """kind letter and shape string of the variant that fits the payload"""
    if p is None:
        return "u", None
    if rng.random() < 0.06:
        return rng.choice([("u", None), ("n", "str"), ("n", "u8"), ("t", "tup(u8,u8)"), ("s", "struct(%s:u8)" % hx("a"))])
    sh = X.sh_value(rng, p, False, True)
    if rng.random() < 0.1:
        sh = ("opt", sh)
    if isinstance(sh, tuple) and sh[0] == "tup":
        return "t", D.shape_str(sh)
    if isinstance(sh, tuple) and sh[0] == "struct" and rng.random() < 0.85:
        return "s", D.shape_str(sh)
    return "n", D.shape_str(sh)


def gen_enum_doc(rng):
    """-> (doc, field name, [(vname, kind, shape string)])"""
    fname = rng.choice(ENUM_FIELDS[:-1]) if rng.random() < 0.97 else ENUM_FIELDS[-1]
    doc = [f for f in X.gen_fields(rng, 2, rng.randrange(0, 4), False) if not (f[0] == "f" and f[1][2] == fname) and not (f[0] == "p" and f[1] == fname)]
    names = rng.sample(VNAMES, rng.randrange(1, 5))
    variants = {}
    nocc = rng.choice([1, 1, 1, 2, 2, 3])
    for _ in range(nocc):
        vn = rng.choice(names)
        val, payload = gen_enum_value(rng, vn)
        if vn not in variants:
            variants[vn] = variant_of_payload(rng, payload)
        op = rng.choice(TD.OPL) if rng.random() < 0.1 else "="
        if val[0] in ("o", "a") and op == "=" and rng.random() < 0.1:
            op = None
        key = ("s", "Q" if rng.random() < 0.05 else "U", fname)
        doc.insert(rng.randrange(len(doc) + 1), ("f", key, op, val))
    for vn in names:
        if vn not in variants:
            variants[vn] = rng.choice([("u", None), ("n", "u32"), ("t", "tup(u8,u8,u8)"), ("s", "struct(%s:opt(str))" % hx("a"))])
    vl = [(vn,) + variants[vn] for vn in names]
    rng.shuffle(vl)
    return doc, fname, vl


def enum_shape(fname, vl, mode="*"):
    parts = []
    for (vn, k, s) in vl:
        parts.append(hx(vn) + ":" + k + ("" if s is None else ":" + s))
    return "struct(%s%s:denum(%s))" % (hx(fname), mode, ",".join(parts))


# ------------------------------------------------------------------ ORACLE 2: Python reading of simple documents
class NotSimple(Exception):
    pass


def py_scalar(shape, s):
    raw = s[2]
    if not raw or not all(0x21 <= c < 0x7f and c not in b'\\"' for c in raw):
        raise NotSimple()
    isint = X.is_int(raw) and raw[:1] != b"+" and (raw == b"0" or not raw.lstrip(b"-").startswith(b"0"))
    if shape == "str":
        return "(str %s)" % hx(raw)
    if shape in ("u8", "u16", "u32", "u64", "i8", "i16", "i32", "i64"):
        if not isint:
            raise NotSimple()
        n = int(raw)
        bits = int(shape[1:])
        lo, hi = (0, 2 ** bits) if shape[0] == "u" else (-2 ** (bits - 1), 2 ** (bits - 1))
        if not (lo <= n < hi) or n == -2 ** 63:
            raise NotSimple()
        return "(%s %d)" % (shape[0], n)
    raise NotSimple()


def py_value(shape, v):
    """shape: string of the harness grammar restricted to str / uN / iN / seq(..) / tup(..) / struct(name:..) with Once fields"""
    if shape.startswith("seq(") and shape.endswith(")"):
        if v[0] != "a":
            raise NotSimple()
        return "(seq%s)" % "".join(" " + py_value(shape[4:-1], x) for x in v[1])
    if shape.startswith("tup(") and shape.endswith(")"):
        parts = split_top(shape[4:-1])
        if v[0] != "a" or len(v[1]) != len(parts):
            raise NotSimple()
        return "(seq%s)" % "".join(" " + py_value(p, x) for p, x in zip(parts, v[1]))
    if shape.startswith("struct(") and shape.endswith(")"):
        if v[0] != "o" or v[2]:
            raise NotSimple()
        out = []
        for p in split_top(shape[7:-1]):
            nm, sh = p.split(":", 1)
            if not all(c in "0123456789abcdef" for c in nm):
                raise NotSimple()      # mode markers, tokens
            occ = [f for f in v[1] if f[0] == "f" and f[1][2] == bytes.fromhex(nm)]
            if len(occ) != 1 or occ[0][2] not in ("=", None) or any(f[0] != "f" for f in v[1]):
                raise NotSimple()
            out.append("(%s %s)" % (nm, py_value(sh, occ[0][3])))
        return "(struct%s)" % "".join(" " + x for x in out)
    if v[0] != "s":
        raise NotSimple()
    return py_scalar(shape, v)


def split_top(s):
    out, depth, st = [], 0, 0
    for i, c in enumerate(s):
        if c == "(":
            depth += 1
        elif c == ")":
            depth -= 1
        elif c == "," and depth == 0:
            out.append(s[st:i]); st = i + 1
    if st < len(s):
        out.append(s[st:])
    return out


def py_expected(doc, fname, vl):
    """the value of Root { fname: Vec<E> } by the property text, or NotSimple"""
    vd = {vn: (k, s) for (vn, k, s) in vl}
    out = []
    for f in doc:
        if f[0] != "f":
            if f[1] == fname:
                raise NotSimple()
            continue
        if f[1][2] != fname:
            continue
        v = f[3]
        if v[0] == "s":
            vn, p = v[2], None
        elif v[0] == "h":
            vn, p = v[1], v[2]
        elif v[0] == "o" and len(v[1]) == 1 and not v[2] and v[1][0][0] == "f" and v[1][0][2] in ("=", None):
            vn, p = v[1][0][1][2], v[1][0][3]
        elif v[0] == "a" and len(v[1]) == 2 and v[1][0][0] == "s":
            vn, p = v[1][0][2], v[1][1]
        else:
            raise NotSimple()
        if vn not in vd or not all(0x21 <= c < 0x7f and c not in b'\\"' for c in vn):
            raise NotSimple()
        k, s = vd[vn]
        if k == "u":
            out.append("(variant %s (unit))" % hx(vn))
        else:
            if p is None:
                raise NotSimple()
            out.append("(variant %s %s)" % (hx(vn), py_value(s, p)))
    return "(struct (%s (seq%s)))" % (hx(fname), "".join(" " + x for x in out))


# ------------------------------------------------------------------ the real derived enum
REAL_SHAPE_ONCE = ("struct(636f6c6f72:denum(726762:t:tup(u8,u8,u8),687376:t:tup(f64,f64,f64),6e616d6564:s:struct(61:u8,62:str),"
                   "6e756d:n:u32,6c697374:n:seq(str),706c61696e:u))")


def gen_real_doc(rng):
    def sc(b):
        return ("s", "U", b)
    def num(hi=300):
        return sc(str(rng.choice([0, 1, 7, 255, 256, rng.randrange(0, hi)])).encode())
    vn = rng.choice([b"rgb", b"hsv", b"named", b"num", b"list", b"plain", b"zzz"])
    if vn == b"rgb":
        p = ("a", [num() for _ in range(rng.choice([3, 3, 3, 2, 4]))])
    elif vn == b"hsv":
        p = ("a", [sc(rng.choice([b"0.5", b"1", b"0.25", b"2.125", b"x"])) for _ in range(3)])
    elif vn == b"named":
        fs = [("f", sc(b"a"), "=", num()), ("f", sc(b"b"), "=", X.gen_scalar(rng))]
        rng.shuffle(fs)
        if rng.random() < 0.2:
            fs.append(("f", sc(rng.choice([b"a", b"c"])), "=", num()))
        p = ("o", fs, [])
    elif vn == b"num":
        p = num(2 ** 33)
    elif vn == b"list":
        p = ("a", [X.gen_scalar(rng) for _ in range(rng.randrange(1, 4))])
    else:
        p = None
    r = rng.random()
    if p is None or r < 0.1:
        val = sc(vn)
    elif p[0] != "s" and r < 0.45:
        val = ("h", vn, p)
    elif r < 0.85:
        val = ("o", [("f", sc(vn), "=", p)], [])
    else:
        val = ("a", [sc(vn), p])
    doc = [f for f in X.gen_fields(rng, 1, rng.randrange(0, 3), False, params=False) if f[1][2] != b"color"]
    doc.insert(rng.randrange(len(doc) + 1), ("f", sc(b"color"), "=", val))
    if rng.random() < 0.1:
        doc.append(("f", sc(b"color"), "=", sc(b"plain")))
    return doc


def has_param(doc):
    def val(v):
        if v[0] == "o":
            return flds(v[1]) or any(val(x) for x in v[2])
        if v[0] == "a":
            return any(val(x) for x in v[1])
        if v[0] == "ak":
            return any(val(x) for x in v[1]) or flds(v[2])
        if v[0] == "h":
            return val(v[2])
        return False

    def flds(fs):
        return any(f[0] == "p" or val(f[3]) for f in fs)
    return flds(doc)


def stream_expect(doc, fname, vl, want):
    """what from_*_reader returns: TextReaderEnum reads the variant from the value TOKEN and only knows unit variants, so the
    document's value comes out iff every occurrence is a scalar or a header naming a declared unit variant; anything else
    (payload variant, `{ name = .. }`, `{ name .. }`, unknown name) is a Deserialize error.  None = not decidable here."""
    vd = {vn: k for (vn, k, s) in vl}
    for f in doc:
        if f[0] != "f" or f[1][2] != fname:
            continue
        v = f[3]
        if v[0] == "s":
            vn = v[2]
        elif v[0] == "h":
            vn = v[1]
        else:
            return "ERR:de"
        if not vn or not all(0x21 <= c < 0x7f and c not in b'\\"' for c in vn):
            return None
        if vd.get(vn) != "u":
            return "ERR:de"
    return want


def reader_paths(rng, doc, txt):
    mt = max([24] + X.token_bytes(doc)) + 2
    chunks = ",".join(str(rng.choice([1, 1, 2, 3, 5, 7, 8, 9, 16, 17, 33])) for _ in range(rng.randrange(2, 6))) + "*"
    if b"\\" in txt:
        return ["reader:32768:-", "freader:-"]
    return rng.sample(["reader:32768:-", "reader:%d:1*" % mt, "reader:%d:%s" % (mt + rng.randrange(0, 9), chunks), "freader:" + chunks, "reader:%d:-" % mt], 2)


def phase1(ctx, stream, texts):
    """the implementation's tape (tt.parse) and reader tokens (tr.slice) of each text"""
    p1 = ["tt.parse\t" + h for h in texts] + ["tr.slice\t" + h for h in texts]
    out, _ = ctx.correspond(stream + "-phase1", p1, model=False, nontrivial=lambda c, i: i.startswith("ok ") or " END" in i)
    base = len(out) - len(p1)
    tape, toks = {}, {}
    for k, h in enumerate(texts):
        o = out[base + k]
        if o.startswith("ok "):
            parts = o.split(" ", 2)
            tape[h] = parts[2] if len(parts) > 2 else "-"
        toks[h] = out[base + len(texts) + k]
    return tape, toks


def run_enum(ctx):
    import vlib
    rng = ctx.rng
    ndocs = ctx.scale(1500, 12000)
    groups, impl_cases, spec_cases = [], [], []
    for _ in range(ndocs):
        doc, fname, vl = gen_enum_doc(rng)
        enc = rng.choice(["w1252", "utf8"])
        bom = enc == "utf8" and rng.random() < 0.06
        txt, gaps = TD.render_with_gaps(doc, rng, style=rng.choice(TD.STYLES), bom=bom)
        shs = enum_shape(fname, vl)
        # the token reader has no parameter syntax: such documents are read through the tape paths only
        paths = ["slice", "tape", "objreader"] + ([] if has_param(doc) else reader_paths(rng, doc, txt))
        g = dict(doc=doc, fname=fname, vl=vl, enc=enc, txt=txt, sh=shs, c0=len(impl_cases), paths=paths, s0=len(spec_cases))
        for p in paths:
            impl_cases.append("\t".join(["de.text", p, enc, shs, hx(txt)]))
        spec_cases.append("spec.text.render\t%s\t%d\t%s" % (TD.ser(doc), 1 if bom else 0, ",".join(hx(x) for x in gaps)))
        spec_cases.append("spec.text.enum\t%s\t%s\t%s" % (enc, shs, TD.ser(doc)))
        spec_cases.append("spec.doc\t%s" % TD.ser(doc))
        groups.append(g)
        ctx.count("enum_docs")
    impl, _ = ctx.correspond("enum_spec", impl_cases, nontrivial=lambda c, i: "(variant" in i, model=False)
    base = len(impl) - len(impl_cases)
    spec = vlib.run_model(spec_cases)
    ctx.evaluations += len(spec_cases)
    st = ctx.streams.setdefault("enum_spec", {"cases": 0, "disagree": 0})
    st["cases"] += len(spec_cases)
    if len(spec) != len(spec_cases):
        ctx.broken.append({"what": "driver produced %d lines for %d enum_spec cases" % (len(spec), len(spec_cases))})
        return

    def disagree(case, py, coq):
        st["disagree"] += 1
        if len(ctx.disagreements) < 200:
            ctx.disagreements.append(("enum_spec", case[:600], "python: " + py[:300], "coq: " + coq[:300]))

    mcases = []
    for g in groups:
        r, want = spec[g["s0"]], spec[g["s0"] + 1]
        if r != "gaps_ok " + hx(g["txt"]):
            disagree(spec_cases[g["s0"]], "gaps_ok " + hx(g["txt"]), r)
            continue
        if not spec[g["s0"] + 2].startswith("wf "):
            disagree(spec_cases[g["s0"] + 2], "a well-formed TextDoc document", spec[g["s0"] + 2][:40])
            continue
        ctx.count("enum_spec_" + ("unfit" if want == "ERR:unfit" else "err" if want.startswith("ERR") else "value"))
        # ORACLE 2
        try:
            py = py_expected(g["doc"], g["fname"], g["vl"])
            ctx.count("enum_py_simple")
            if want != py:
                disagree(spec_cases[g["s0"] + 1], py, want)
        except NotSimple:
            py = None
        if want == "ERR:unfit" or not (want.startswith("(") or want.startswith("ERR:")):
            if not (want.startswith("(") or want.startswith("ERR:")):
                disagree(spec_cases[g["s0"] + 1], "(a value or an error class)", want)
            continue
        payload = want.startswith("(") and any(x != "(unit)" for x in variant_payloads(want))
        ctx.count("enum_with_payload" if payload else "enum_unit_only_or_err")
        for j, p in enumerate(g["paths"]):
            k = g["c0"] + j
            o = impl[base + k]
            pk = p.split(":")[0]
            if pk in ("slice", "tape", "objreader"):
                ctx.count("enum_tape_compared")
                if o != want:
                    ctx.fail("enum-" + pk, "%s path returns %s, TextDeEnum.spec_enum_fields says %s" % (p, o[:200], want[:200]),
                             [impl_cases[k], spec_cases[g["s0"] + 1]], [o], want)
            else:
                sw = stream_expect(g["doc"], g["fname"], g["vl"], want)
                if sw is None:
                    ctx.count("enum_reader_undecided")
                    continue
                ctx.count("enum_reader_compared")
                if o != sw:
                    ctx.fail("enum-" + pk, "%s path returns %s, expected %s (the document's values are %s)" % (p, o[:200], sw[:200], want[:200]),
                             [impl_cases[k], spec_cases[g["s0"] + 1]], [o], sw)
                elif want.startswith("(") and sw != want:
                    ctx.count("known_Q-stream-data-enum")
                    if ctx.dist["known_Q-stream-data-enum"] <= 2:
                        ctx.fail("Q-stream-data-enum", "reader path refuses an enum value that is not a bare unit variant: %s, the document says %s" % (o, want[:120]),
                                 [impl_cases[k], impl_cases[g["c0"]]], [o], want)
    # enum_model: the extracted walks of TextDeEnum against the implementation, on every document (fitting or not)
    texts = sorted(set(hx(g["txt"]) for g in groups))
    tape, toks = phase1(ctx, "enum_model", texts)
    for g in groups:
        h = hx(g["txt"])
        for p in g["paths"]:
            if p.startswith("reader:") or p.startswith("freader:"):
                aux = toks[h]
            elif p == "objreader" or h not in tape:
                continue
            else:
                aux = tape[h]
            mcases.append("\t".join(["de.model.enum", p, g["enc"], g["sh"], h, aux]))
    ctx.correspond("enum_model", mcases, nontrivial=lambda c, i: "(variant" in i)

    # enum_real: the serde-derived enum
    rcases = []
    for _ in range(ctx.scale(400, 3000)):
        doc = gen_real_doc(rng)
        txt, _ = TD.render_with_gaps(doc, rng, style=rng.choice(TD.STYLES))
        for p in ["slice", "tape", "reader:32768:-"]:
            rcases.append("\t".join(["de.enum.real", p, "w1252", hx(txt)]))
            rcases.append("\t".join(["de.text", p, "w1252", REAL_SHAPE_ONCE, hx(txt)]))
    out, _ = ctx.correspond("enum_real", rcases, nontrivial=lambda c, i: "(variant" in i, model=False)
    rb = len(out) - len(rcases)
    for k in range(0, len(rcases), 2):
        a, b = out[rb + k], out[rb + k + 1]
        ctx.count("enum_real_" + ("value" if a.startswith("(") else "err"))
        if a != b:
            ctx.fail("enum-real", "the serde-derived enum gives %s, the runtime-shape interpreter %s" % (a[:200], b[:200]), rcases[k:k + 2], [a, b], a)


def variant_payloads(s):
    """the payload strings of the (variant <hex> <payload>) items of a printed root value (top level only)"""
    out = []
    i = 0
    while True:
        i = s.find("(variant ", i)
        if i < 0:
            return out
        j = s.index(" ", i + 9) + 1
        depth, k = 0, j
        while True:
            if s[k] == "(":
                depth += 1
            elif s[k] == ")":
                depth -= 1
                if depth == 0:
                    break
            k += 1
        out.append(s[j:k + 1])
        i = k


# ------------------------------------------------------------------ (2) typed map keys
KEY_TYPES = ["u8", "u16", "u32", "u64", "i8", "i16", "i32", "i64", "bool", "date", "dh", "str", "any", "ign", "f64", "enum", "opt(u16)"]
ENUM_KEYS = [b"a", b"bb", b"north", b"x_1"]


def int_range(t):
    bits = int(t[1:])
    return (0, 2 ** bits - 1) if t[0] == "u" else (-2 ** (bits - 1) + (1 if bits == 64 else 0), 2 ** (bits - 1) - 1)


def gen_key_of(rng, t, bad):
    """-> (raw bytes, quoted?, expected printed key or None = the key visitor refuses)"""
    base = t[4:-1] if t.startswith("opt(") else t
    wrap = (lambda x: "(some %s)" % x) if t.startswith("opt(") else (lambda x: x)
    q = rng.random() < 0.1
    if base[0] in "ui" and base[1:].isdigit():
        lo, hi = int_range(base)
        if bad:
            n = rng.choice([hi + 1, lo - 1, hi + 1000])
            if base == "u64" and n > hi:
                n = hi + rng.choice([1, 7])
            if n < -2 ** 63 or (base[0] == "i" and n > 2 ** 63 - 1 and False):
                n = hi + 1
            return str(n).encode(), q, None
        n = rng.choice([lo, hi, 0, 1, rng.randrange(lo, hi + 1), rng.randrange(max(lo, -300), min(hi, 300) + 1)])
        return str(n).encode(), q, wrap("(%s %d)" % (base[0], n))
    if base == "bool":
        if bad:
            return rng.choice([b"maybe", b"1", b"true"]), q, None
        b = rng.random() < 0.5
        return (b"yes" if b else b"no"), q, "(bool %d)" % b
    if base in ("date", "dh"):
        y, m, d, h = rng.choice([1, 1444, 1936, 2024, rng.randrange(1, 9999)]), rng.randrange(1, 13), rng.randrange(1, 29), rng.randrange(1, 25)
        if bad:
            raw = rng.choice(["%d.13.%d" % (y, d), "%d.%d.32" % (y, m), "%d.%d" % (y, m), "x%d.%d.%d" % (y, m, d)])
            return raw.encode(), q, None
        if base == "date":
            return ("%d.%d.%d" % (y, m, d)).encode(), q, "(date %d %d %d 0)" % (y, m, d)
        return ("%d.%d.%d.%d" % (y, m, d, h)).encode(), q, "(date %d %d %d %d)" % (y, m, d, h)
    if base == "f64":
        n = rng.randrange(-64, 256)
        fr = rng.choice(["", ".5", ".25", ".125", ".000"])
        import struct
        val = float(n) + (float("0" + fr) if fr else 0.0) * (1 if n >= 0 else -1)
        if n < 0 and fr:
            val = float(n) - float("0" + fr)
        raw = ("%d%s" % (n, fr)).encode()
        if raw.startswith(b"-0") and val == 0.0:
            raw, val = b"0" + fr.encode(), float("0" + fr) if fr else 0.0
        return raw, q, "(f64 %016x)" % struct.unpack("<Q", struct.pack("<d", val))[0]
    if base == "enum":
        if bad:
            return b"zzz", q, None
        k = rng.choice(ENUM_KEYS)
        return k, q, "(enum %s)" % hx(k)
    # str / any / ign: any word
    w = rng.choice([b"a", b"core", b"x_1", b"1444.11.11", b"42", b"yes", b"tag:ENG", b"k" * 17])
    if base == "ign":
        return w, q, "(ign)"
    return w, q, "(str %s)" % hx(w)


def gen_kmap_case(rng):
    t = rng.choice(KEY_TYPES)
    vt = rng.choice(["u32", "str", "seq(u8)", "ign", "struct(%s:opt(u8))" % hx("a")])
    n = rng.randrange(0, 6)
    badpos = rng.randrange(n) if n and rng.random() < 0.15 else -1
    doc, exp = [], []
    ok = True
    for i in range(n):
        raw, q, ek = gen_key_of(rng, t, i == badpos)
        if vt == "u32":
            x = rng.randrange(0, 2 ** 32)
            val, ev = ("s", "U", str(x).encode()), "(u %d)" % x
        elif vt == "str":
            w = rng.choice([b"foo", b"bar_baz", b"1", b"yes"])
            val, ev = ("s", "Q" if rng.random() < 0.3 else "U", w), "(str %s)" % hx(w)
        elif vt == "seq(u8)":
            xs = [rng.randrange(0, 256) for _ in range(rng.randrange(1, 4))]
            val, ev = ("a", [("s", "U", str(x).encode()) for x in xs]), "(seq%s)" % "".join(" (u %d)" % x for x in xs)
        elif vt == "ign":
            val, ev = X.gen_value(rng, 1), "(ign)"
            if val[0] == "h" or val[0] == "ak" or (val[0] == "o" and val[2]):
                val = ("s", "U", b"w")
        else:
            if rng.random() < 0.5:
                x = rng.randrange(0, 256)
                val, ev = ("o", [("f", ("s", "U", b"a"), "=", ("s", "U", str(x).encode()))], []), "(struct (61 (some (u %d))))" % x
            else:
                val, ev = ("o", [("f", ("s", "U", b"zz"), "=", ("s", "U", b"1"))], []), "(struct (61 (none)))"
        op = "=" if rng.random() < 0.9 else rng.choice(["<", ">", ">=", "<="])
        doc.append(("f", ("s", "Q" if q else "U", raw), op, val))
        if ek is None:
            ok = False
        if ok:
            exp.append("(%s %s)" % (ek, ev))
    ksh = "enum(%s)" % ",".join(hx(k) for k in ENUM_KEYS) if t == "enum" else ("opt(u16)" if t == "opt(u16)" else t)
    return doc, "kmap(%s,%s)" % (ksh, vt), t, ("(amap%s)" % "".join(" " + e for e in exp)) if ok else "ERR:de"


def run_keys(ctx):
    rng = ctx.rng
    cases, meta, groups = [], [], []
    for _ in range(ctx.scale(1200, 10000)):
        doc, shs, t, exp = gen_kmap_case(rng)
        enc = rng.choice(["w1252", "utf8"])
        txt, _ = TD.render_with_gaps(doc, rng, style=rng.choice(TD.STYLES))
        paths = ["slice", "tape", "objreader", "etape"] + reader_paths(rng, doc, txt)
        groups.append((shs, enc, txt, paths))
        ctx.count("keys_docs")
        ctx.count("keys_type_" + t)
        ctx.count("keys_expect_" + ("err" if exp.startswith("ERR") else "value"))
        for p in paths:
            meta.append((exp, t, p, len(doc)))
            cases.append("\t".join(["de.text", p, enc, shs, hx(txt)]))
    impl, _ = ctx.correspond("typed_keys", cases, nontrivial=lambda c, i: i.startswith("(amap ("), model=False)
    base = len(impl) - len(cases)
    for k, (exp, t, p, n) in enumerate(meta):
        o = impl[base + k]
        pk = p.split(":")[0]
        if o == exp:
            continue
        if t == "enum" and n > 0 and exp.startswith("(") and pk in ("slice", "tape", "objreader", "etape") and o == "ERR:de":
            ctx.count("known_R-tape-enum-key")
            if ctx.dist["known_R-tape-enum-key"] <= 2:
                ctx.fail("R-tape-enum-key", "%s path refuses a map keyed by an enum (reader path: %s)" % (p, exp[:100]), [cases[k]], [o], exp)
            continue
        ctx.fail("key-" + pk, "%s path returns %s for a map with %s keys, the document says %s" % (p, o[:200], t, exp[:200]), [cases[k]], [o], exp)
    # the extracted kloop / skloop against the implementation
    texts = sorted(set(hx(g[2]) for g in groups))
    tape, toks = phase1(ctx, "keys_model", texts)
    mcases = []
    for (shs, enc, txt, paths) in groups:
        h = hx(txt)
        for p in paths:
            if p.startswith("reader:") or p.startswith("freader:"):
                aux = toks[h]
            elif h in tape:
                aux = tape[h]
            else:
                continue
            mcases.append("\t".join(["de.model.kmap", p, enc, shs, h, aux]))
    ctx.correspond("keys_model", mcases, nontrivial=lambda c, i: i.startswith("(amap ("))


# ------------------------------------------------------------------ (3) size hints, from_encoded_tape
def gen_hint_case(rng):
    """-> (doc, shape, expected on the tape paths, expected on the reader paths or None)"""
    def word():
        return ("s", "U", rng.choice([b"a", b"foo", b"1", b"yes", b"1444.11.11", b"x" * 16]))
    r = rng.random()
    pre = [("f", ("s", "U", rng.choice([b"a", b"b", b"pre"])), "=", word()) for _ in range(rng.randrange(0, 3))]
    post = [("f", ("s", "U", rng.choice([b"c", b"d", b"post"])), "=", word()) for _ in range(rng.randrange(0, 3))]
    if r < 0.45:
        n = rng.randrange(0, 7)
        el = rng.choice(["ign", "ign", "u8", "str"])
        items, vals = [], []
        for i in range(n):
            if el == "u8":
                x = rng.randrange(0, 256); items.append(("s", "U", str(x).encode())); vals.append("(u %d)" % x)
            elif el == "str":
                w = word(); items.append(w); vals.append("(str %s)" % hx(w[2]))
            else:
                if rng.random() < 0.4 and not (i == 0):
                    sub = rng.choice([("a", [word() for _ in range(rng.randrange(0, 3))]),
                                      ("o", [("f", ("s", "U", b"k"), rng.choice(["=", "<"]), word())], [])])
                    items.append(sub)
                else:
                    items.append(word())
                vals.append("(ign)")
        v = ("a", items)
        hints = list(range(n, -1, -1))
        val = "(seq%s)" % "".join(" " + x for x in vals)
        sh = "struct(76:hseq(%s))" % el
        tape = "(struct (76 (hint %s %s)))" % (",".join(map(str, hints)), val)
        rd = "(struct (76 (hint %s %s)))" % (",".join("-" for _ in hints), val)
        return pre + [("f", ("s", "U", b"v"), "=", v)] + post, sh, tape, rd
    # a map
    m = rng.randrange(0, 6)
    fs, ents = [], []
    for i in range(m):
        k = rng.choice([b"a", b"b", b"core", b"1", b"x_1"])
        r2 = rng.random()
        if r2 < 0.6:
            val = word()
        elif r2 < 0.8:
            val = ("a", [word() for _ in range(rng.randrange(0, 3))])
        elif r2 < 0.9:
            val = ("o", [("f", ("s", "U", b"k"), "=", word())], [])
        else:
            val = ("h", rng.choice([b"rgb", b"hsv"]), ("a", [word() for _ in range(rng.randrange(1, 3))]))
        op = "=" if rng.random() < 0.85 else rng.choice(["<", ">", ">=", "<=", "=="])
        if i == 0 and op not in ("=", "<", ">"):
            op = "="
        fs.append(("f", ("s", "U", k), op, val))
        ents.append("(%s (ign))" % hx(k))
    tail = [word() for _ in range(rng.randrange(1, 3))] if m and rng.random() < 0.2 else []
    hints = list(range(m, -1, -1)) + ([0] if tail else [])
    if tail:
        ents.append("(%s (ign))" % hx("remainder"))
    val = "(map%s)" % "".join(" " + x for x in ents)
    if rng.random() < 0.25 and not tail:
        # the root map
        return fs, "hmap(ign)", "(hint %s %s)" % (",".join(map(str, hints)), val), "(hint %s %s)" % (",".join("-" for _ in hints), val)
    v = ("o", fs, tail) if m else ("a", [])
    tape = "(struct (76 (hint %s %s)))" % (",".join(map(str, hints)), val)
    rd = None if tail else "(struct (76 (hint %s %s)))" % (",".join("-" for _ in hints), val)
    return pre + [("f", ("s", "U", b"v"), "=", v)] + post, "struct(76:hmap(ign))", tape, rd


def run_hints(ctx):
    rng = ctx.rng
    cases, meta, groups = [], [], []
    for _ in range(ctx.scale(1000, 8000)):
        doc, shs, et, er = gen_hint_case(rng)
        enc = rng.choice(["w1252", "utf8"])
        txt, _ = TD.render_with_gaps(doc, rng, style=rng.choice(TD.STYLES))
        paths = ["slice", "tape", "objreader", "etape"] + reader_paths(rng, doc, txt)[:1]
        groups.append((shs, enc, txt))
        ctx.count("hints_docs")
        ctx.count("hints_" + ("root" if shs.startswith("hmap") else "seq" if "hseq" in shs else "map"))
        for p in paths:
            rd = p.startswith("reader:") or p.startswith("freader:")
            if rd and er is None:
                continue
            meta.append((er if rd else et, p))
            cases.append("\t".join(["de.text", p, enc, shs, hx(txt)]))
    impl, _ = ctx.correspond("size_hints", cases, nontrivial=lambda c, i: "(hint" in i, model=False)
    base = len(impl) - len(cases)
    for k, (exp, p) in enumerate(meta):
        o = impl[base + k]
        if o != exp:
            ctx.fail("hint-" + p.split(":")[0], "%s path: %s, the remaining elements / entries of the document give %s" % (p, o[:200], exp[:200]), [cases[k]], [o], exp)
    texts = sorted(set(hx(g[2]) for g in groups))
    tape, _ = phase1(ctx, "hints_model", texts)
    mcases = []
    for (shs, enc, txt) in groups:
        h = hx(txt)
        if h in tape:
            for p in ("slice", "etape"):
                mcases.append("\t".join(["de.model.hints", p, enc, shs, h, tape[h]]))
    ctx.correspond("hints_model", mcases, nontrivial=lambda c, i: "(hint" in i)


def run(ctx):
    run_enum(ctx)
    run_keys(ctx)
    run_hints(ctx)
