"""C12, wave 4 (engineer a_c12): the routes to the decoders and the quantifier dimensions the first streams did not vary.

  cp1252_spec  the literal code page of EncodingRef.v (model side) against the table of data.rs (hook) and Python's codec
  grid         every length 0..40 x every position of a 2/3/4-byte character and of ill-formed forms x backslash placements;
               every pair (first backslash, first high byte)
  trailing_ws  every length x every run of every whitespace byte / look-alike, whitespace around a trailing backslash
  long         lengths 41..65545 with the single feature far from the start (unrolled loops, narrow counters)
  routes       Encoding trait method, new()/Default, &T, &&T, &dyn, Box<T>, Box<dyn>, clones: must all be the same function
  context      the byte string as a sub-slice at every alignment of a buffer with hostile neighbours; address of the borrowed str
  display      Scalar's Display / Debug / to_string (the other caller of decode_windows1252)
  e2e          document -> TextTape -> read_str / read_string, and -> &str / String / Cow<str> fields through three deserializer
               constructors: &str succeeds iff the decoder borrows, the str lies inside the document

All oracles are evaluated on the implementation's output and are independent of the model (own trim / unescape / code page,
Python's replace decoder)."""
from vlib import hexs, unhex

ROUTES = ["static", "new", "trait", "default", "clone", "ref", "refref", "dyn", "refdyn", "box", "boxdyn", "refboxdyn", "boxref", "unsized"]
WSB = [0x20, 0x09, 0x0a, 0x0c, 0x0d]
LOOKALIKE = [0x0b, 0x00, 0x1c, 0x1f, 0x85, 0xa0, 0x08, 0x7f]

VALID_FORMS = [bytes.fromhex(x) for x in ("c3a5", "dfbf", "e282ac", "e0a080", "ed9fbf", "ee8080", "efbfbd", "f09f9880", "f0908080", "f48fbfbf")]
BAD_FORMS = [bytes.fromhex(x) for x in ("80", "bf", "c0af", "c1bf", "e080af", "e09fbf", "f08080af", "f08fbfbf", "eda080", "edbfbf",
                                        "f4908080", "f5808080", "ff", "fe", "c3", "e2", "e282", "f0", "f09f", "f09f98", "c328", "e28228", "f09f9828")]


def filler(n, k=0):
    return bytes(0x61 + ((i + k) % 26) for i in range(n))


def grid_strings():
    out = set()
    forms = VALID_FORMS[:1] + VALID_FORMS[2:3] + VALID_FORMS[7:8] + BAD_FORMS
    for n in range(0, 41):
        base = filler(n)
        for p in range(n):
            edge = n <= 17 or p % 8 in (4, 5, 6, 7, 0) or n - p <= 4
            for f in (forms if edge else forms[:3] + forms[3:5]):
                if p + len(f) > n:
                    continue
                s = bytearray(base)
                s[p:p + len(f)] = f
                out.add(bytes(s))
                e = p + len(f)
                # a backslash: just before, inside the sequence (unescaping re-joins it), at the next chunk edge, as last byte
                if p >= 1:
                    t = bytearray(s); t[p - 1] = 0x5c; out.add(bytes(t))
                if len(f) > 1:
                    out.add(bytes(s[:p + 1]) + b"\\" + bytes(s[p + 1:]))
                    out.add(bytes(s[:e - 1]) + b"\\" + bytes(s[e - 1:]))
                q = (e // 8 + 1) * 8
                if q < n:
                    t = bytearray(s); t[q] = 0x5c; out.add(bytes(t))
                if e < n:
                    t = bytearray(s); t[n - 1] = 0x5c; out.add(bytes(t))
                    t = bytearray(s); t[e] = 0x5c; out.add(bytes(t))
                # the form at the very end, then whitespace: trimming exposes a truncated sequence
                if e == n:
                    out.add(bytes(s) + b" \n")
    # every pair (first backslash at p, first high byte at q)
    for n in list(range(2, 25)) + [31, 32, 33, 39, 40]:
        base = filler(n, 3)
        for p in range(n):
            for q in range(n):
                if p == q:
                    continue
                if n > 24 and not (p % 8 in (0, 7) or q % 8 in (0, 7) or p == n - 1 or q == n - 1):
                    continue
                s = bytearray(base); s[p] = 0x5c; s[q] = 0xff
                out.add(bytes(s))
                if q + 1 < n and q + 1 != p:
                    s = bytearray(base); s[p] = 0x5c; s[q] = 0xc3; s[q + 1] = 0xa9
                    out.add(bytes(s))
    return out


def trailing_ws_strings(rng):
    out = set()
    for n in range(0, 41):
        bodies = [filler(n), filler(n)[:max(0, n - 1)] + b"\xe9"[:min(n, 1)], (b"\\" + filler(n))[:n], (filler(n)[:max(0, n - 2)] + b"\xc3\xa5")[-n:] if n else b""]
        for bi, body in enumerate(bodies):
            for k in range(0, 10):
                if bi and k not in (0, 1, 2, 7, 8, 9):
                    continue
                for w in WSB:
                    out.add(body + bytes([w]) * k)
                out.add(body + bytes(rng.choice(WSB) for _ in range(k)))
            if bi == 0:
                for w in LOOKALIKE:
                    out.add(body + bytes([w]))                 # not whitespace: kept
                    out.add(body + bytes([w]) + b" ")           # kept, the space behind it goes
                    out.add(body + b" " + bytes([w]))           # protects the space before it
                out.add(body + b" \\")                          # trim first: the space before a trailing backslash survives
                out.add(body + b"\\ ")
                out.add(body + b"\\\n\\")
                out.add(body + b" \\ \\ ")
                out.add(b" " + body)                            # leading whitespace is kept
                out.add(b"\n\t" + body + b"\r\n")
                if n:
                    m = bytearray(body); m[n // 2] = 0x20; out.add(bytes(m) + b" ")
    for n in range(0, 41):                                      # nothing but whitespace
        for w in WSB:
            out.add(bytes([w]) * n)
        out.add(bytes(rng.choice(WSB) for _ in range(n)))
        out.add(bytes(rng.choice(WSB) for _ in range(n)) + b"\x0b" + bytes(rng.choice(WSB) for _ in range(n % 5)))
    return out


def long_strings(ctx, rng):
    out = set()
    lens = list(range(41, 201)) + list(range(250, 264)) + list(range(510, 521)) + [1023, 1024, 1025] + list(range(4090, 4105, 3)) \
        + ctx.scale([65535, 65536, 65545], [65535, 65536, 65537, 65544, 65545, 131080, 1 << 20])
    feats = [b"\\", b"\xff", b"\xc3\xa5", b"\xe2\x82\xac", b"\xed\xa0\x80", b"\x80", b" "]
    for n in lens:
        base = filler(n, n)
        out.add(base)
        spots = {0, n - 1, n - 2, n // 2, (n // 8) * 8 - 1, (n // 8) * 8, max(0, (n // 8) * 8 - 8), 56 % n, 63 % n, 64 % n, 255 % n, 256 % n}
        if n > 300:
            spots = {n - 1, (n // 8) * 8 - 1, (n // 8) * 8, 256 % n, n - 9}
        for p in sorted(x for x in spots if 0 <= x < n):
            for f in (feats if n < 300 else feats[:5]):
                if p + len(f) <= n:
                    s = bytearray(base); s[p:p + len(f)] = f
                    out.add(bytes(s))
        s = bytearray(base); s[n - 1] = 0x5c; s[n - 3] = 0xe9
        out.add(bytes(s))
        out.add(base + b" \t\r\n")
        if n < 300:
            # one feature in each 8-byte word of a 64-byte block in turn (a slip in one lane of an unrolled loop)
            w = rng.randrange(0, n // 8)
            for f in (b"\\", b"\xc3\xa9", b"\x90"):
                s = bytearray(base)
                o = 8 * w + rng.randrange(8 - len(f) + 1)
                s[o:o + len(f)] = f
                out.add(bytes(s))
    for n in (72, 128, 136):                                    # every word x every lane, both features
        for o in range(n):
            for f in (0x5c, 0x80):
                s = bytearray(filler(n)); s[o] = f
                out.add(bytes(s))
    return out


def feature_strings(rng, maxlen=24):
    """a compact family used by routes / context / display / e2e: every length, each single feature at a few positions"""
    out = []
    for n in range(0, maxlen + 1):
        base = filler(n, 7)
        out.append(base)
        out.append(base + b" ")
        out.append(base + b"\r\n")
        for p in sorted({0, n // 2, n - 1, (n // 8) * 8 - 1, (n // 8) * 8} & set(range(n))):
            for f in (b"\\", b"\xff", b"\xc3\xa5", b"\xe2\x82\xac", b"\x9f", b"\x81", b" ", b"\x0b"):
                if p + len(f) <= n:
                    s = bytearray(base); s[p:p + len(f)] = f
                    out.append(bytes(s))
        if n >= 4:
            s = bytearray(base); s[1] = 0x5c; s[n - 2] = 0xe9
            out.append(bytes(s))
            out.append(bytes(s) + b"\n")
    seen, res = set(), []
    for s in out:
        if s not in seen:
            seen.add(s); res.append(s)
    return res


def quoted_scalar_ok(d):
    """the text parser hands exactly d out for  a="<d>"  : no unescaped quote inside, the closing quote not escaped"""
    pos = 0
    while pos < len(d):
        if d[pos] == 0x5c:
            pos += 2
        elif d[pos] == 0x22:
            return False
        else:
            pos += 1
    return pos == len(d)


def run(ctx, c12):
    """c12 = the props.C12 module (own code page table, trim, unescape, references, check_decode)"""
    rng = ctx.rng
    trim, unescape, ref_w, ref_u, is_valid = c12.trim, c12.unescape, c12.ref_w1252, c12.ref_utf8, c12.is_valid

    def as_leaf(dec, h):
        return ("enc.w1252" if dec == "w" else "enc.utf8") + "\t" + h

    def borrow_expected(dec, d):
        t = trim(d)
        if dec == "w":
            return all(x < 128 and x != 0x5c for x in t)
        return 0x5c not in t and is_valid(t)

    # ---- the literal code page: model-side spec against the hook and against Python
    cases = ["enc.cp1252\t%d" % b for b in range(256)]
    impl, model = ctx.correspond("cp1252_spec", cases, nontrivial=lambda c, i: True)
    base = len(impl) - len(cases)
    for b in range(256):
        if impl[base + b] != str(ord(c12.TABLE[b])):
            ctx.fail("table", "WINDOWS_1252[%d] = %s, code page says U+%04X" % (b, impl[base + b], ord(c12.TABLE[b])), [cases[b]], [impl[base + b]], str(ord(c12.TABLE[b])))
        if model[base + b] != str(ord(c12.TABLE[b])):
            ctx.broken.append({"what": "EncodingRef.cp1252 %d = %s differs from Python's cp1252 (%d)" % (b, model[base + b], ord(c12.TABLE[b]))})

    # ---- more of the quantifier, through the leaf kinds and the existing oracles
    c12.run_decoders(ctx, "grid", sorted(grid_strings()))
    c12.run_decoders(ctx, "trailing_ws", sorted(trailing_ws_strings(rng)))
    longs = sorted(long_strings(ctx, rng))
    c12.run_decoders(ctx, "long", [s for s in longs if len(s) <= 1100])
    # the extracted model is quadratic in the length (List.rev, unary offsets): beyond ~1 KiB the implementation is judged by the
    # oracles alone (reference mapping, validity, variant), which is all the property needs
    cases = [k + "\t" + hexs(s) for s in longs if len(s) > 1100 for k in ("enc.w1252", "enc.utf8")]
    impl, _ = ctx.correspond("very_long", cases, nontrivial=lambda c, i: True, model=False)
    base = len(impl) - len(cases)
    for k, c in enumerate(cases):
        c12.check_decode(ctx, c, impl[base + k])
    ctx.count("very_long", len(cases))

    feats = feature_strings(rng)

    # ---- routes: every way to call a decoder is the same function
    cases = []
    wide = feats + sorted(trailing_ws_strings(rng))[::9] + sorted(grid_strings())[::60]
    for k, s in enumerate(wide):
        for dec in "wu":
            # every route on a rotating third of the strings, the trait method on all
            for r in ROUTES:
                if r == "trait" or (k + ROUTES.index(r)) % 3 == 0:
                    cases.append("enc.via\t%s\t%s\t%s" % (r, dec, hexs(s)))
    impl, _ = ctx.correspond("routes", cases, nontrivial=lambda c, i: not i.endswith(c.split("\t")[3]) or len(c) > 40)
    base = len(impl) - len(cases)
    for k, c in enumerate(cases):
        _, r, dec, h = c.split("\t")
        o = impl[base + k]
        if o.startswith("DIFF:"):
            ctx.fail("route-differs", "a copy / clone of the encoding decodes %r differently: %s" % (unhex(h), o), [c], [o], "one result")
            continue
        c12.check_decode(ctx, as_leaf(dec, h), o, rep=c, note="[via %s]" % r)
    ctx.count("routes", len(cases))

    # ---- context: sub-slice of a larger buffer, every alignment, hostile neighbours, address of the borrowed str
    PRE = [b"\\", b"\xff", b" ", b"\xc3", b"\"", b"a"]
    POST = [b"\\\\\\\\\\\\\\\\", b"\xff\xfe\xff\xfe\xff\xfe\xff\xfe", b" \n \n \n \n", b"\xa5\x80\x80\x80", b"\"", b"\\", b"\x80", b""]
    cases = []
    extra = [b"", b" ", b"   \n", b"\t" * 9, filler(7) + b" " * 9, filler(15), filler(16), filler(17) + b"\n"]
    more = sorted(trailing_ws_strings(rng))[4::23] + sorted(grid_strings())[7::150]
    for k, s in enumerate(feats + more + extra):
        for dec in "wu":
            for al in range(0, 9):
                if (k + al) % 3 and s not in extra:
                    continue
                pre = PRE[(k + al) % len(PRE)] * al
                for j in range(2):
                    post = POST[(k + al + 3 * j) % len(POST)]
                    cases.append("enc.ctx\t%s\t%s\t%s\t%s" % (dec, hexs(pre), hexs(s), hexs(post)))
    impl, _ = ctx.correspond("context", cases, nontrivial=lambda c, i: True)
    base = len(impl) - len(cases)
    for k, c in enumerate(cases):
        _, dec, pre, h, post = c.split("\t")
        o = impl[base + k]
        d = unhex(h)
        if o.startswith("DIFF:"):
            ctx.fail("route-differs", "inherent function and trait method disagree on %r: %s" % (d, o), [c], [o], "one result")
            continue
        body, _, ptr = o.partition("@")
        c12.check_decode(ctx, as_leaf(dec, h), body, rep=c, note="[sub-slice: %d bytes before, %r after]" % (len(unhex(pre)), unhex(post)))
        if body.startswith("B:"):
            exp = "0:%d" % len(trim(d))
            if ptr != exp:
                ctx.fail("borrowed-ptr", "decode(%r) is Borrowed but the str is at @%s of the input slice, expected @%s (zero-copy = the trimmed prefix of the input itself)" % (d, ptr, exp), [c], [o], body + "@" + exp)
    ctx.count("context", len(cases))

    # ---- Scalar's Display
    strs = [s for s in feats] + sorted(trailing_ws_strings(rng))[::7]
    cases = ["enc.display\t" + hexs(s) for s in strs]
    impl, _ = ctx.correspond("display", cases, nontrivial=lambda c, i: i[2:] != c.split("\t")[1])
    base = len(impl) - len(cases)
    for k, c in enumerate(cases):
        d = unhex(c.split("\t")[1])
        o = impl[base + k]
        if all(x < 128 for x in d):
            exp = "S:" + hexs(unescape(trim(d)))
        else:
            exp = "S:" + hexs(("non-ascii string of %d length" % len(d)).encode())
        if o != exp:
            ctx.fail("display", "Scalar::new(%r) displays as %s, expected %s (ASCII: trim, unescape; else the length message)" % (d, o, exp), [c], [o], exp)
    ctx.count("display", len(cases))

    # ---- end to end: document -> reader / deserializer -> str
    strs = [s for s in feats + sorted(grid_strings())[::40] + sorted(trailing_ws_strings(rng))[::25] if quoted_scalar_ok(s)]
    cases = ["enc.e2e\t%s\t%s" % (dec, hexs(s)) for s in strs for dec in "wu"]
    impl, _ = ctx.correspond("e2e", cases, nontrivial=lambda c, i: True)
    base = len(impl) - len(cases)
    for k, c in enumerate(cases):
        _, dec, h = c.split("\t")
        d = unhex(h)
        o = impl[base + k]
        exp = ref_w(d) if dec == "w" else ref_u(d)
        bor = borrow_expected(dec, d)
        cow = ("B:" if bor else "O:") + hexs(exp)
        ptr = "@0:%d" % len(exp) if bor else ""
        want = "R=%s%s|S=%s|D=%s|T=%s|C=%s" % (cow, ptr, hexs(exp), (hexs(exp) + ptr) if bor else "ERR", hexs(exp), cow)
        if o != want:
            ctx.fail("e2e", "a=\"%s\" read as %s text: %s, expected %s (read_str / read_string / &str field / String field / Cow field)" % (
                d.decode("latin-1").encode("unicode_escape").decode(), "Windows-1252" if dec == "w" else "UTF-8", o, want), [c], [o], want)
    ctx.count("e2e", len(cases))
