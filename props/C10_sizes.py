"""C10 (wave 6, s_c10): SIZE / BOUNDARY ladders.  One size-like dimension of the logical document (or of one of its two
renderings) at a time, on an otherwise small document, walked over the ladder

    0 1 2 3 7 8 9 15 16 17 31 32 33 63 64 65 127 128 129 255 256 257 1023 1024 1025 4095 4096 4097 65533 65534 65535 65536

(cut where the format bounds the dimension or one case would cost more than ~50 ms), through every text and binary path
of props/C10_kinds.run_groups.  Oracle: the value is known BY CONSTRUCTION of the document (props/dedoc.expected on the
abstract document, or -- for the long / deep inputs that the recursive dedoc functions do not fit -- spelled out next to
the bytes); equality of the two renderings is asserted wherever the binary format can express the document at all.

Dimensions (audit/C10.md, section "Size dimensions"): string / key / resolved-name / enum-name length (to the binary u16
limit in both renderings, beyond it in text), position of a backslash / non-ASCII byte relative to the 8- and 16-byte
blocks of the decoders and of the text lexer, default 32 KiB buffer of the stream readers; number of array elements,
map entries, struct fields, unknown fields, duplicates of one key, consecutive ghost `{}`, tuple elements, enum variants,
colours, Option fields; nesting depth of objects / arrays / maps, captured and skipped; integers at every width boundary
inside containers, powers of ten, zero padding, fraction digits 1..24; date years over the i16 range (and the length of the
date text 5..12); rgb channel counts; token ids over the whole u16 range as keys and as values; gap / comment lengths of
the text layout and the offset of a token from the start of the input."""
import copy
import random
import struct
from fractions import Fraction
from props import dedoc as D
from props import C10_kinds as K
from props.dedoc import hx

LADDER = [0, 1, 2, 3, 7, 8, 9, 15, 16, 17, 31, 32, 33, 63, 64, 65, 127, 128, 129, 255, 256, 257, 1023, 1024, 1025, 4095, 4096, 4097,
          65533, 65534, 65535, 65536]
U16 = 65535
ENCS = K.ENCS
PAT = "abcdefghijklmnopqrstuvwxyz0123456789_"


def upto(n, lo=0):
    return [x for x in LADDER if lo <= x <= n]


def pat(n, salt=0):
    """identifier-like text of n characters in which every position is recognisable (a shift / truncation shows)"""
    s = "".join(PAT[(i * 7 + salt + i // 37) % 37] for i in range(n))
    if s and s[0] in "0123456789_":
        s = "k" + s[1:]
    if s in ("yes", "no", "rgb", "hsv"):
        s = "q" + s[1:]
    return s


def fl_of(enc):
    return "eu4" if enc == "w1252" else "raw"


def G(tag, doc, shape, want, enc, **kw):
    g = K.G("sz-" + tag, doc, shape, want, enc, ids=kw.pop("ids", None), known=kw.pop("known", None), strat=kw.pop("strat", "error"), hdr=kw.pop("hdr", False))
    g.update(kw)
    return g


def big_paths(g, ttok, btok):
    """paths for a group whose longest text token has ttok bytes and whose longest binary token has btok bytes: a buffer of
    EXACTLY the token's size (the documented requirement: `large enough to decode an entire token`) and a roomier one under a
    chopped schedule; no default-buffer entry point"""
    ttok, btok = max(ttok, 32), max(btok, 16)
    g["tp"] = ["slice", "tape", "reader:%d:-" % ttok, "reader:%d:4099,1*" % (ttok + 64), "objreader", "mslice"]
    g["bp"] = ["tape", "slice", "reader:%d:-" % btok, "reader:%d:4099,1*" % (btok + 64), "bslice", "btape", "fslice"]
    return g


# ------------------------------------------------------------------------------------------ 1. strings
def string_groups():
    out = []
    k = 0
    x = hx("x")
    for L in LADDER + [65537, 100000]:
        for form in ("Q", "U"):
            if form == "U" and L == 0:
                continue
            k += 1
            enc = ENCS[k % 2]
            s = pat(L, k)
            v = K.vstr(s, form, q=(form == "Q"))
            if L <= 300:
                doc, shape = K.embed(k, v, "str")
                out.append(G("str-len", doc, shape, "equal", enc, model=True))
                continue
            doc, shape = K.embed(0, v, "str")
            g = G("str-len" if L <= U16 else "str-len-text-only", doc, shape, "equal" if L <= U16 else "text", enc)
            out.append(big_paths(g, L + 2, L + 4))
    # special bytes at every place of the 8-byte blocks of the decoders: a backslash (dropped by both decoders), a quote
    # (escaped in text, raw in binary), a non-ASCII character (one byte in windows-1252, two in utf-8)
    for L in (1, 2, 7, 8, 9, 15, 16, 17, 23, 24, 25, 31, 32, 33, 63, 64, 65):
        for p in sorted(set([0, 1, 6, 7, 8, 9, 14, 15, 16, 17, L - 2, L - 1])):
            if not (0 <= p < L):
                continue
            for (ci, ch) in enumerate(("\\", '"', "é", "€")):
                k += 1
                enc = ENCS[(k + ci) % 2]
                s = pat(L, k)
                s = s[:p] + ch + s[p + 1:]
                if s.endswith("\\") and L == 1:
                    continue
                v = K.vstr(s, ["Q", "U"][k % 2], q=True)
                doc, shape = K.embed(k, v, "str")
                out.append(G("str-special", doc, shape, "equal", enc, model=(k % 3 == 0)))
    # the same at the far end of long strings (the block loops' tails)
    for L in (255, 256, 257, 4096, 4097, 65534, 65535):
        for (ci, ch) in enumerate(("\\", '"', "é")):
            for p in (L - 1, L - 9, L // 2):
                k += 1
                enc = "w1252" if ch == "é" else ENCS[k % 2]       # one byte per character: the byte length stays L
                s = pat(L, k)
                s = s[:p] + ch + s[p + 1:]
                if s.endswith("\\"):
                    s = s[:-2] + "\\z"
                v = K.vstr(s, ["Q", "U"][k % 2], q=True)
                doc, shape = K.embed(0, v, "str")
                out.append(big_paths(G("str-special-long", doc, shape, "equal", enc), 2 * L + 2, L + 4))
    # non-ASCII only (every byte is translated / every character has two bytes)
    for L in (1, 7, 8, 9, 16, 17, 255, 256, 4097, 32767, 65535):
        for enc in ENCS:
            k += 1
            n = L if enc == "w1252" else L // 2
            if n == 0:
                continue
            s = "".join("éößåñÉü"[(i + k) % 7] for i in range(n))
            v = K.vstr(s, ["Q", "U"][k % 2], q=(k % 3 == 0))
            doc, shape = K.embed(0 if L > 300 else k, v, "str")
            out.append(big_paths(G("str-high", doc, shape, "equal", enc), 2 * n + 2, 2 * n + 4))
    return out


def default_buffer_groups():
    """the stream entry points with their DEFAULT buffer (32 KiB: from_*_reader, BinaryFlavor::deserialize_reader): a token
    that fits the buffer is read, a binary token that does not fit is BufferFull (the documented requirement: `the buffer must
    be large enough to decode an entire binary token`; 4 + L bytes for a string).  The text rendering has no length limit of
    its own, so beyond the buffer the two renderings legitimately differ on this one entry point: counted, each side checked"""
    out = []
    for (k, L) in enumerate((32700, 32763, 32764, 32765, 32768, 40000, 65535)):
        enc = ENCS[k % 2]
        s = pat(L, k)
        doc, shape = K.embed(0, K.vstr(s, "Q", q=True), "str")
        val = D.expected(shape, doc, D.Mode("text", enc=enc))
        bfit = 4 + L <= 32768
        tfit = L + 2 <= 32768
        g = G("defbuf-bin", doc, shape, "any", enc, et=val, eb=(val if bfit else "ERR:full"), tp=["slice"], bp=["freader:-", "freader:4099,1*"])
        out.append(g)
        if tfit or L + 1 > 32768 + 64:
            out.append(G("defbuf-text", doc, shape, "text", enc, et=(val if tfit else "ERR:full"), eb=None, tp=["freader:-", "freader:4099,1*"]))
    return out


# ------------------------------------------------------------------------------------------ 2. keys and names
def key_groups():
    out = []
    k = 0
    u8 = ("u", 8)
    for L in upto(U16, 1):
        for kb in ("Q", "U", "ID"):
            k += 1
            enc = ENCS[k % 2]
            name = pat(L, k + 11)
            ids, kid = {}, None
            if kb == "ID":
                kid = 0x0400 + (k * 37) % 0xf000
                ids[name] = kid
            f = K.fld(name, K.vint(k % 200, "I32"), kb=kb, kid=kid, kq=(k % 4 == 0))
            small = L <= 300
            # as a map key
            doc = K.obj([K.fld("m", K.obj([f, K.fld("other", K.vint(3, "U32"))], maplike=True)), K.fld("w", K.vint(1, "I32"))])
            g = G("key-len-map", doc, K.struct_of([("m", "", ("map", u8))]), "equal", enc, ids=ids, model=small and k % 2 == 0)
            out.append(g if small else big_paths(g, L + 2, L + 4))
            # as the name of a struct field (the same key twice: Last) next to a field whose name differs in the last character only
            other = name[:-1] + ("A" if name[-1] != "A" else "B")
            doc = K.obj([copy.deepcopy(f), K.fld("w", K.vint(1, "I32")), copy.deepcopy(f)])
            g = G("key-len-field", doc, K.struct_of([("w", "", u8), (other, "", ("opt", u8)), (name, "!", u8)]), "equal", enc, ids=ids, model=small and k % 2 == 1)
            out.append(g if small else big_paths(g, L + 2, L + 4))
    # a string VALUE that is a token id whose resolved name is long; an enum variant with a long name
    for L in upto(U16, 1):
        k += 1
        enc = ENCS[k % 2]
        name = pat(L, k + 5)
        idv = 0x0400 + (k * 41) % 0xf000
        v = K.vstr(name, "ID", idv=idv)
        doc, shape = K.embed(0 if L > 300 else k, v, "str")
        g = G("resolved-len", doc, shape, "equal", enc, ids={name: idv}, strat=["error", "stringify", "ignore"][k % 3])
        out.append(g if L <= 300 else big_paths(g, L + 2, 8))
        v = K.vstr(name, ["Q", "U", "ID"][k % 3], q=(k % 2 == 0), idv=idv)
        doc, shape = K.embed(0 if L > 300 else k + 1, v, ("enum", ["other", name[:-1] + "A", name]))
        g = G("enum-name-len", doc, shape, "equal", enc, ids={name: idv})
        out.append(g if L <= 300 else big_paths(g, L + 2, L + 4))
    return out


# ------------------------------------------------------------------------------------------ 3. counts
def ivals(n, salt=0):
    return [((i * 31 + salt) % 251) for i in range(n)]


def count_groups():
    out = []
    k = 0
    u8 = ("u", 8)
    for N in (4095, 4096, 4097, 65535, 65536):
        # the upper rungs of the counts: bytes and values spelled out directly (the dedoc functions are slow on 65536 children)
        l, z, m, a, b, d = (hx(c) for c in "lzmabd")
        key = lambda n: D.bstr(n, False) + D.EQ
        i32 = lambda n: D.tok(0x0c) + struct.pack("<i", n)
        u32 = lambda n: D.tok(0x14) + struct.pack("<I", n)
        xs = ivals(N, N)
        enc = ENCS[N % 2]
        big = dict(res="map:-", mtb=32, tp=["slice", "tape", "reader:64:-", "reader:4096:4099,1*", "objreader", "freader:-"],
                   bp=["tape", "slice", "reader:64:-", "reader:4096:4099,1*", "freader:-", "fslice", "bslice"])
        sq = "".join(" (u %d)" % x for x in xs)
        out.append(G("n-elements", None, None, "equal", enc, txt=b"l={ " + " ".join(map(str, xs)).encode() + b" } z=7",
                     bin=key(b"l") + D.OPEN + b"".join((i32 if i % 2 == 0 else u32)(x) for i, x in enumerate(xs)) + D.CLOSE + key(b"z") + i32(7),
                     shs="struct(%s:seq(u8),%s:u8)" % (l, z), et="(struct (%s (seq%s)) (%s (u 7)))" % (l, sq, z), **big))
        out.append(G("n-map-entries", None, None, "equal", enc, txt=b"m={ " + " ".join("k%d=%d" % (i, x) for i, x in enumerate(xs)).encode() + b" }",
                     bin=key(b"m") + D.OPEN + b"".join(key(b"k%d" % i) + i32(x) for i, x in enumerate(xs)) + D.CLOSE,
                     shs="struct(%s:map(u8))" % m, et="(struct (%s (map%s)))" % (m, "".join(" (%s (u %d))" % (hx("k%d" % i), x) for i, x in enumerate(xs))), **big))
        out.append(G("n-duplicates", None, None, "equal", enc, txt=b"a=1 " + " ".join("d=%d" % x for x in xs).encode() + b" b=2",
                     bin=key(b"a") + i32(1) + b"".join(key(b"d") + u32(x) for x in xs) + key(b"b") + i32(2),
                     shs="struct(%s:u8,%s*:u8,%s:u8)" % (a, d, b), et="(struct (%s (u 1)) (%s (seq%s)) (%s (u 2)))" % (a, d, sq, b), **big))
        out.append(G("n-unknown-fields", None, None, "equal", enc, txt=b"a=1 " + " ".join(("u%d=%d" if i % 2 else "u%d={ %d }") % (i, x) for i, x in enumerate(xs)).encode() + b" b=2",
                     bin=key(b"a") + i32(1) + b"".join(key(b"u%d" % i) + (i32(x) if i % 2 else D.OPEN + i32(x) + D.CLOSE) for i, x in enumerate(xs)) + key(b"b") + i32(2),
                     shs="struct(%s:u8,%s:u8)" % (b, a), et="(struct (%s (u 2)) (%s (u 1)))" % (b, a), **big))
        for g in out[-4:]:
            g["eb"] = g["et"]
    for N in upto(1025):
        k += 1
        enc = ENCS[k % 2]
        small = N <= 130
        # array of N integers
        doc = K.obj([K.fld("l", K.arr([K.vint(x, ["I32", "U32"][i % 2]) for i, x in enumerate(ivals(N, k))])), K.fld("z", K.vint(7, "I32"))])
        out.append(G("n-elements", doc, K.struct_of([("l", "", ("seq", u8)), ("z", "", u8)]), "equal", enc, model=small))
        # N entries of a map (distinct keys), N duplicates of one key collected / last / refused
        doc = K.obj([K.fld("m", K.obj([K.fld("k%d" % i, K.vint(x, "I32")) for i, x in enumerate(ivals(N, k))], maplike=True))])
        out.append(G("n-map-entries", doc, K.struct_of([("m", "", ("map", u8))]), "equal", enc, model=small))
        doc = K.obj([K.fld("a", K.vint(1, "I32"))] + [K.fld("d", K.vint(x, "I32")) for x in ivals(N, k)] + [K.fld("b", K.vint(2, "I32"))])
        out.append(G("n-duplicates", doc, K.struct_of([("a", "", u8), ("d", "*", u8), ("b", "", u8)]), "equal", enc, model=small))
        if N >= 1:
            out.append(G("n-duplicates", doc, K.struct_of([("b", "", u8), ("d", "!", u8)]), "equal", enc))
            out.append(G("n-duplicates", doc, K.struct_of([("d", "", u8), ("a", "", u8)]), "equal", enc))        # N >= 2: duplicate field, the same refusal
        # N unknown fields (scalars, arrays and objects in turn) between two captured ones
        unk = []
        for i in range(N):
            val = [K.vint(i % 100, "U32"), K.arr([K.vint(1, "I32"), K.vint(2, "I32")]), K.obj([K.fld("p", K.vstr("q", "U"))]), K.vstr("s%d" % i, "Q")][i % 4]
            unk.append(K.fld("u%d" % i, val))
        doc = K.obj([K.fld("a", K.vint(1, "I32"))] + unk + [K.fld("b", K.vint(2, "I32"))])
        out.append(G("n-unknown-fields", doc, K.struct_of([("b", "", u8), ("a", "", u8)]), "equal", enc, model=small))
    for N in upto(1025):
        k += 1
        enc = ENCS[k % 2]
        small = N <= 130
        if True:
            # a struct with N captured fields (the document has them in another order), N Option fields that are absent
            names = ["f%d" % i for i in range(N)]
            order = list(range(N))
            random.Random(N).shuffle(order)
            doc = K.obj([K.fld(names[i], K.vint(i % 251, "I32")) for i in order])
            out.append(G("n-fields", doc, K.struct_of([(nm, "", u8) for nm in names]), "equal", enc, model=small))
            doc = K.obj([K.fld("a", K.vint(1, "I32"))])
            out.append(G("n-absent-options", doc, K.struct_of([(nm, "", ("opt", u8)) for nm in names] + [("a", "", u8)]), "equal", enc))
        # arrays of N strings / objects / arrays
        doc = K.obj([K.fld("l", K.arr([K.vstr(pat(1 + i % 9, i), ["Q", "U"][i % 2]) for i in range(N)]))])
        out.append(G("n-elements-str", doc, K.struct_of([("l", "", ("seq", "str"))]), "equal", enc, model=small))
        doc = K.obj([K.fld("r", K.arr([K.obj([K.fld("a", K.vint(i % 251, "I32")), K.fld("q", K.vint(1, "I32"))]) for i in range(N)]))])
        out.append(G("n-elements-obj", doc, K.struct_of([("r", "", ("seq", K.struct_of([("a", "", u8)])))]), "equal", enc, model=small))
        if N >= 1:
            doc = K.obj([K.fld("g", K.arr([K.arr([K.vint(i % 251, "I32")] * (1 + i % 3)) for i in range(N)]))])
            out.append(G("n-elements-arr", doc, K.struct_of([("g", "", ("seq", ("seq", u8)))]), "equal", enc, model=small))
    for N in upto(1025, 1):
        k += 1
        enc = ENCS[k % 2]
        # a fixed tuple of N elements; one element too few / too many: the same refusal
        doc = K.obj([K.fld("t", K.arr([K.vint(x, "I32") for x in ivals(N, k)]))])
        out.append(G("n-tuple", doc, K.struct_of([("t", "", ("tup", [u8] * N))]), "equal", enc, model=N <= 130))
        out.append(G("n-tuple-short", doc, K.struct_of([("t", "", ("tup", [u8] * (N + 1)))]), "equal", enc, et="ERR:de", eb="ERR:de"))       # invalid length
        # an enum with N variants, the value is the last / none of them
        names = ["v%d" % i for i in range(N)]
        doc = K.obj([K.fld("e", K.vstr(names[-1], ["Q", "U"][k % 2])), K.fld("f", K.vstr("v%d" % N, "Q"))])
        out.append(G("n-variants", doc, K.struct_of([("e", "", ("enum", names))]), "equal", enc))
        out.append(G("n-variants", doc, K.struct_of([("f", "", ("enum", names))]), "equal", enc))
        # N colours, collected / the last one
        doc = K.obj([K.fld("c", K.vrgb([i % 256, (i // 256) % 256, 3] + ([i % 7] if i % 2 else []))) for i in range(N)] + [K.fld("z", K.vint(1, "I32"))])
        out.append(G("n-colours", doc, K.struct_of([("c", "*", ("tup", ["str", ("seq", u8)])), ("z", "", u8)]), "equal", enc, hdr=True))
        out.append(G("n-colours-skipped", doc, K.struct_of([("z", "", u8)]), "equal", enc))
    return out


def ghost_groups():
    """runs of N consecutive empty `{}` in key position (ghost objects: skipped by every path of both formats) in front of the
    first field, between two fields, after the last field, at the root and inside a nested object"""
    out = []
    k = 0
    a, b, o = hx("a"), hx("b"), hx("o")
    key = lambda n: D.bstr(n, False) + D.EQ
    i32 = lambda n: D.tok(0x0c) + struct.pack("<i", n)
    for N in upto(4097):
        for where in ("front", "middle", "end", "nested"):
            k += 1
            enc = ENCS[k % 2]
            gt = b" ".join([b"{}"] * N)
            gb = (D.OPEN + D.CLOSE) * N
            if where == "front":
                txt, bn = gt + b" a=1 b=2", gb + key(b"a") + i32(1) + key(b"b") + i32(2)
            elif where == "middle":
                txt, bn = b"a=1 " + gt + b" b=2", key(b"a") + i32(1) + gb + key(b"b") + i32(2)
            elif where == "end":
                txt, bn = b"a=1 b=2 " + gt, key(b"a") + i32(1) + key(b"b") + i32(2) + gb
            else:
                if N == 0:
                    continue
                # inside a nested object the run follows a field (an empty `{}` at the very start would make the tape parser read an array)
                txt = b"o={ a=1 " + gt + b" b=2 } b=9"
                bn = key(b"o") + D.OPEN + key(b"a") + i32(1) + gb + key(b"b") + i32(2) + D.CLOSE + key(b"b") + i32(9)
            if where == "nested":
                shs = "struct(%s:struct(%s:u8,%s:u8),%s:u8)" % (o, a, b, b)
                val = "(struct (%s (struct (%s (u 1)) (%s (u 2)))) (%s (u 9)))" % (o, a, b, b)
            else:
                shs = "struct(%s:u8,%s:u8)" % (b, a)
                val = "(struct (%s (u 2)) (%s (u 1)))" % (b, a)
            g = G("n-ghosts-" + where, None, None, "equal", enc, txt=txt, bin=bn, shs=shs, et=val, eb=val, res="map:-", mtb=32, model=N <= 130)
            if where == "front" and N >= 1:
                # finding ghost-front-root-tape: BinaryTape::from_slice refuses a document whose FIRST token is `{` ("Starting open
                # token is not valid"); the on-demand and stream deserializers and both text paths skip the empty object
                g["finding"] = ("ghost-front-root-tape", "ERR:syntax")
            out.append(g)
    return out


# ------------------------------------------------------------------------------------------ 4. nesting depth
def depth_groups():
    out = []
    k = 0
    a = hx("a")
    key = D.bstr(b"a", False) + D.EQ
    one = D.tok(0x0c) + struct.pack("<i", 1)
    for Dp in upto(1025, 1) + [130]:
        for kind in ("struct", "map", "seq", "mixed", "opt"):
            k += 1
            enc = ENCS[k % 2]
            d = Dp - 1          # Dp levels including the root object
            if kind in ("struct", "map", "opt"):
                txt = b"a={" * d + b"a=1" + b"}" * d
                bn = (key + D.OPEN) * d + key + one + D.CLOSE * d
                if kind == "struct":
                    shs = ("struct(%s:" % a) * Dp + "u8" + ")" * Dp
                    val = ("(struct (%s " % a) * Dp + "(u 1)" + "))" * Dp
                elif kind == "opt":
                    shs = ("struct(%s:opt(" % a) * Dp + "u8" + "))" * Dp
                    val = ("(struct (%s (some " % a) * Dp + "(u 1)" + ")))" * Dp
                else:
                    shs = "map(" * Dp + "u8" + ")" * Dp
                    val = ("(map (%s " % a) * Dp + "(u 1)" + "))" * Dp
            elif kind == "seq":
                txt = b"a=" + b"{" * d + b"1 2" + b"}" * d if d else b"a=1"
                bn = key + D.OPEN * d + (one + D.tok(0x14) + struct.pack("<I", 2) if d else one) + D.CLOSE * d
                shs = "struct(%s:%su8%s)" % (a, "seq(" * d, ")" * d)
                val = "(struct (%s %s%s%s))" % (a, "(seq " * d, "(u 1) (u 2)" if d else "(u 1)", ")" * d)
            else:
                # object holding an array holding an object ...: a={ {a={ {a=1} }} }
                txt = b"a={{" * d + b"a=1" + b"}}" * d
                bn = (key + D.OPEN + D.OPEN) * d + key + one + (D.CLOSE + D.CLOSE) * d
                shs = ("struct(%s:seq(" % a) * d + "struct(%s:u8)" % a + "))" * d
                val = ("(struct (%s (seq " % a) * d + "(struct (%s (u 1)))" % a + ")))" * d
            out.append(G("depth-" + kind, None, None, "equal", enc, txt=txt, bin=bn, shs=shs, et=val, eb=val, res="map:-", mtb=32, model=Dp <= 130))
    # containers that are SKIPPED (unknown field / IgnoredAny / a `{` run inside an ignored array): loops with depth counters, no recursion
    for Dp in LADDER[1:] + [70000]:
        for kind in ("unknown-obj", "ignored-arr", "unknown-mixed"):
            k += 1
            enc = ENCS[k % 2]
            if kind == "unknown-obj":
                txt = b"z=" + b"{a=" * Dp + b"1" + b"}" * Dp + b" a=1"
                bn = D.bstr(b"z", False) + D.EQ + (D.OPEN + key) * Dp + one + D.CLOSE * Dp + key + one
                shs = "struct(%s:u8)" % a
                val = "(struct (%s (u 1)))" % a
            elif kind == "ignored-arr":
                txt = b"z=" + b"{" * Dp + b"1 2" + b"}" * Dp + b" a=1"
                bn = D.bstr(b"z", False) + D.EQ + D.OPEN * Dp + one + one + D.CLOSE * Dp + key + one
                shs = "struct(%s:u8,%s:ign)" % (a, hx("z"))
                val = "(struct (%s (u 1)) (%s (ign)))" % (a, hx("z"))
            else:
                txt = b"a=1 z={" + b"{a={" * (Dp // 2) + b"x" + b"}}" * (Dp // 2) + b" } a=2"
                bn = key + one + D.bstr(b"z", False) + D.EQ + D.OPEN + (D.OPEN + key + D.OPEN) * (Dp // 2) + D.bstr(b"x", False) + (D.CLOSE + D.CLOSE) * (Dp // 2) + D.CLOSE + key + D.tok(0x0c) + struct.pack("<i", 2)
                shs = "struct(%s!:u8)" % a
                val = "(struct (%s (u 2)))" % a
            g = G("depth-skipped-" + kind, None, None, "equal", enc, txt=txt, bin=bn, shs=shs, et=val, eb=val, res="map:-", mtb=32, model=Dp <= 130)
            if Dp > 300:
                g["tp"] = ["slice", "tape", "reader:64:-", "reader:4096:5,1*", "objreader", "freader:-"]
                g["bp"] = ["tape", "slice", "reader:64:-", "reader:4096:5,3*", "freader:-", "fslice", "bslice"]
            out.append(g)
    return out


# ------------------------------------------------------------------------------------------ 5. numbers
def number_groups():
    out = []
    k = 0
    # (a) every width boundary INSIDE containers: arrays / maps / duplicate fields holding all boundary values of one token kind
    for w in ("I32", "U32", "I64", "U64"):
        vals = [n for n in K.INT_BOUNDS if w in K.int_widths(n) and n != -2 ** 63]
        for sh in K.INT_TARGETS[:10]:
            fits = [n for n in vals if not D.expected(K.struct_of([("x", "", sh)]), K.obj([K.fld("x", K.vint(n, w))]), D.Mode("text")).startswith("ERR")
                    and (sh not in ("f32", "f64") or abs(n) <= 2 ** 53 - 1)]
            if not fits:
                continue
            for enc in ENCS:
                k += 1
                doc = K.obj([K.fld("l", K.arr([K.vint(n, w) for n in fits])),
                             K.fld("m", K.obj([K.fld("k%d" % i, K.vint(n, w)) for i, n in enumerate(fits)], maplike=True))] +
                            [K.fld("d", K.vint(n, w)) for n in fits])
                out.append(G("int-bounds-in-containers", doc, K.struct_of([("l", "", ("seq", sh)), ("m", "", ("map", sh)), ("d", "*", sh)]), "equal", enc, model=True))
            # one value that does not fit the target at the k-th place of a long array: the same refusal
            bad = [n for n in vals if n not in fits and (sh not in ("f32", "f64"))]
            if bad and fits:
                for pos in (0, 1, 8, 255, 256, 1000):
                    k += 1
                    body = [fits[i % len(fits)] for i in range(pos)] + [bad[k % len(bad)]] + fits[:2]
                    doc = K.obj([K.fld("l", K.arr([K.vint(n, w) for n in body]))])
                    out.append(G("int-bound-refused-at", doc, K.struct_of([("l", "", ("seq", sh))]), "equal", ENCS[k % 2]))
    # (b) powers of ten (digit counts 1..20) on every token that fits, natural targets
    for e in range(0, 20):
        for n in (10 ** e - 1, 10 ** e, -(10 ** e), 10 ** e + 1):
            if n >= 2 ** 64 or n < -2 ** 63 + 1:
                continue
            for w in K.int_widths(n):
                k += 1
                tg = [sh for sh in (("u", 64), ("i", 64), ("u", 32), ("i", 32), "f64") if sh != "f64" or abs(n) <= 2 ** 53 - 1]
                doc = K.obj([K.fld("t%d" % i, K.vint(n, w)) for i in range(len(tg))])
                shape = K.struct_of([("t%d" % i, "", sh) for i, sh in enumerate(tg)])
                et = D.expected(shape, doc, D.Mode("text"))
                if et.startswith("ERR"):
                    # some target refuses (out of range): each target on its own then
                    for sh in tg:
                        doc1, shape1 = K.embed(k, K.vint(n, w), sh)
                        out.append(G("int-pow10", doc1, shape1, "equal", ENCS[k % 2]))
                else:
                    out.append(G("int-pow10", doc, shape, "equal", ENCS[k % 2], model=(k % 4 == 0)))
    # (c) zero padding of the text numeral (a layout of the text rendering; the binary rendering is the plain token)
    for Z in LADDER:
        for (n, w, sh) in ((7, "I32", ("u", 8)), (-7, "I32", ("i", 8)), (2 ** 64 - 1, "U64", ("u", 64)), (-(2 ** 63) + 1, "I64", ("i", 64)), (0, "U32", ("u", 16)),
                           (2 ** 53 - 1, "U64", "f64"), (12, "I32", "f32")):
            k += 1
            enc = ENCS[k % 2]
            v = K.vint(n, w)
            v["txt"] = ("-" if n < 0 else "") + "0" * Z + str(abs(n))
            doc, shape = K.embed(k if Z <= 300 else 0, v, sh)
            g = G("int-zero-padded", doc, shape, "equal", enc, model=Z <= 64)
            out.append(g if Z <= 300 else big_paths(g, Z + 24, 12))
    return out


def float_groups():
    """fraction digits 1 .. 24 (Scalar::to_f64 divides by a table of 10^0 .. 10^22), integer-part padding, numerals whose digits
    overflow a u64.  Binary: the F64 token of the raw flavour carries the double the numeral denotes (correctly rounded: Python's
    float(), an independent decimal-to-double conversion); under eu4 the Q49.15 payload, where the numeral has at most 5
    significant decimals.  Equality is asserted where the digit string fits 2^53 (exact division); above that the text side
    rounds twice or refuses (digits beyond a u64 / more than 22 decimals): counted, each side against its own expectation"""
    out = []
    k = 0
    for nd in range(1, 25):
        for (ip, kind) in ((0, "one"), (3, "one"), (0, "lead"), (12, "zeros"), (7, "nines"), (1, "mid"), (0, "all")):
            if kind == "one":
                fp = "0" * (nd - 1) + "1"
            elif kind == "lead":
                fp = "5" + "0" * (nd - 1)
            elif kind == "zeros":
                fp = "0" * nd
            elif kind == "nines":
                fp = "9" * min(nd, 15) + "0" * (nd - min(nd, 15))
            elif kind == "mid":
                fp = ("0" * (nd // 2) + "25" + "0" * nd)[:nd]
            else:
                fp = "1234567890123456789012345"[:nd]
            for neg in (False, True):
                k += 1
                txt = ("-" if neg else "") + "%d.%s" % (ip, fp)
                if neg and float(txt) == 0:
                    continue
                digits = int(str(ip) + fp)
                x = float(txt)              # the double the numeral denotes
                tx = D.text_f64_wide(txt)   # what Scalar::to_f64 computes from the digits (None: refused)
                if digits < 2 ** 53 and nd <= 22:
                    assert tx == x, txt     # exact operands, one correctly rounded division
                for enc in ENCS:
                    fl = fl_of(enc)
                    if fl == "eu4":
                        # the payload of the Q49.15 token exists only where 5 decimals say it all
                        fr = Fraction(txt)
                        if fr * 100000 != int(fr * 100000) or abs(fr) >= 2 ** 40:
                            continue
                        n = int(fr * 32768) if fr >= 0 else -int(-fr * 32768)
                        if D.flavor_f64("eu4", struct.pack("<q", n)) != D.f64_bits(x):
                            continue
                        pay = {"eu4": struct.pack("<q", n)}
                    else:
                        pay = {"raw": struct.pack("<d", x)}
                    v = K.vfloat(txt, "F64", pay)
                    v["wide"] = True
                    for sh in ("f64", "f32"):
                        shared = tx is not None and tx == x
                        doc, shape = K.embed(k, v, sh)
                        out.append(G("float-frac-digits" if shared else "float-frac-digits-outside", doc, shape, "equal" if shared else "any", enc, model=(k % 5 == 0)))
    # zero padding of the integer part
    for Z in upto(4097):
        k += 1
        for (txt, x) in (("0" * Z + "1.5", 1.5), ("-" + "0" * Z + "0.25", -0.25), ("0" * Z + "16777217.000", 16777217.0)):
            v = K.vfloat(txt, "F64", {"raw": struct.pack("<d", x), "eu4": struct.pack("<q", int(x * 32768))})
            v["wide"] = True
            doc, shape = K.embed(k if Z <= 300 else 0, v, ["f64", "f32"][k % 2])
            g = G("float-zero-padded", doc, shape, "equal", ENCS[k % 2], model=Z <= 64)
            out.append(g if Z <= 300 else big_paths(g, Z + 24, 12))
    return out


# ------------------------------------------------------------------------------------------ 6. dates
YEARS = sorted(set([y for y in LADDER if y <= 32767] + [-y for y in LADDER if 0 < y <= 5000] +
                   [99, 100, 101, 999, 1000, 1001, 9999, 10000, 10001, 16383, 16384, 16385, 32766, 32767, -99, -100, -999, -1000, -4999, -5000]))


def date_groups():
    out = []
    k = 0
    forms = [("I32", True), ("Q", True), ("Q", False)]
    for y in YEARS:
        for (m, d) in ((1, 1), (12, 31)):
            for (b, bq) in forms:
                k += 1
                enc = ENCS[k % 2]
                pad = k % 2 == 0
                q = k % 5 == 0
                h = K.HOURS[k % 6]
                doc, shape = K.embed(k, K.vdate(y, m, d, 0, b, bq, q, pad), "date")
                out.append(G("date-year", doc, shape, "equal", enc, model=(k % 8 == 0)))
                doc, shape = K.embed(k + 1, K.vdate(y, m, d, h, b, bq, q, not pad), "dh")
                out.append(G("datehour-year", doc, shape, "equal", enc, model=(k % 8 == 1)))
    # containers of them: every ladder year in one array / one map / as duplicates of one field, per binary form
    for (b, bq) in forms:
        for enc in ENCS:
            ds = [K.vdate(y, 1 + (i % 12), 1 + (i % 28), 0, b, bq, False, i % 2 == 0) for i, y in enumerate(YEARS)]
            hs = [K.vdate(y, 1 + (i % 12), 1 + (i % 28), 1 + (i % 24), b, bq, False, i % 2 == 1) for i, y in enumerate(YEARS)]
            doc = K.obj([K.fld("l", K.arr(ds)), K.fld("m", K.obj([K.fld("k%d" % i, copy.deepcopy(v)) for i, v in enumerate(hs)], maplike=True))] +
                        [K.fld("d", copy.deepcopy(v)) for v in ds])
            out.append(G("date-years-in-containers", doc, K.struct_of([("l", "", ("seq", "date")), ("m", "", ("map", "dh")), ("d", "*", "date")]), "equal", enc, model=True))
    return out


# ------------------------------------------------------------------------------------------ 7. colours
def rgb_groups():
    """channel counts: the binary format's rgb block has 3 or 4 channels; the text `rgb { .. }` can be written with any
    number.  3 and 4: equal.  Other counts exist only as text: the value by construction (header + list), text-only groups"""
    out = []
    k = 0
    for n in (0, 1, 2, 3, 4, 5, 8, 16, 255, 256, 1024):
        for w in (8, 32):
            k += 1
            enc = ENCS[k % 2]
            c = [(i * 29 + 5) % 256 for i in range(n)]
            doc, shape = K.embed(k, K.vrgb(c), ("tup", ["str", ("seq", ("u", w))]), noarr=True)
            if n == 0:
                continue                     # `rgb { }`: an empty block is an empty ARRAY for the text tape (no header form): C01's subject
            out.append(G("rgb-channels", doc, shape, "equal" if n in (3, 4) else "text", enc, hdr=True))
    return out


# ------------------------------------------------------------------------------------------ 8. token ids over the u16 range
LEXEMES = (0x0001, 0x0003, 0x0004, 0x000c, 0x000d, 0x000e, 0x000f, 0x0014, 0x0017, 0x0167, 0x0243, 0x029c, 0x0317)


def token_id_groups():
    """every token id that is not a lexeme of the format (65523 ids), as a KEY (map key, resolved) and as a VALUE (string),
    4096 per document; the text rendering spells the names out.  Plus small groups at the ends of the range and around the
    lexeme ids, and the stringified / ignored forms of ids the resolver does not know (skipped fields)"""
    out = []
    ids_all = [i for i in range(0x10000) if i not in LEXEMES]
    k = 0
    u16 = ("u", 16)
    for c0 in range(0, len(ids_all), 4096):
        chunk = ids_all[c0:c0 + 4096]
        k += 1
        enc = ENCS[k % 2]
        ids = {"t%04x" % i: i for i in chunk}
        # keys: the value is the id itself, so that a key resolved to a neighbour's name shows twice
        doc = K.obj([K.fld("m", K.obj([K.fld("t%04x" % i, K.vint(i, "U32"), kb="ID", kid=i) for i in chunk], maplike=True))])
        g = G("token-id-keys", doc, K.struct_of([("m", "", ("map", u16))]), "equal", enc, ids=ids)
        g["bp"] = ["tape", "slice", "reader:64:-", "freader:5,1*", "bslice"]
        out.append(g)
        doc = K.obj([K.fld("l", K.arr([K.vstr("t%04x" % i, "ID", idv=i) for i in chunk]))])
        g = G("token-id-values", doc, K.struct_of([("l", "", ("seq", "str"))]), "equal", enc, ids=ids, strat="error")
        g["bp"] = ["tape", "slice", "reader:64:-", "fslice", "breader:4096:2,9*"]
        out.append(g)
    edge = sorted(set([0, 2, 5, 0x0b, 0x10, 0x13, 0x15, 0x16, 0x18, 0xff, 0x100, 0x166, 0x168, 0x242, 0x244, 0x29b, 0x29d, 0x316, 0x318, 0x3ff, 0x400,
                       0x7fff, 0x8000, 0x8001, 0xfffe, 0xffff]))
    for i in edge:
        for kb in ("key", "value", "field"):
            k += 1
            enc = ENCS[k % 2]
            name = "n%x" % i
            if kb == "key":
                doc = K.obj([K.fld("m", K.obj([K.fld(name, K.vint(1, "I32"), kb="ID", kid=i), K.fld("o", K.vint(2, "I32"))], maplike=True))])
                shape = K.struct_of([("m", "", ("map", ("u", 8)))])
            elif kb == "field":
                doc = K.obj([K.fld("a", K.vint(2, "I32")), K.fld(name, K.vint(1, "I32"), kb="ID", kid=i)])
                shape = K.struct_of([(name, "", ("u", 8)), ("a", "", ("u", 8))])
            else:
                doc, shape = K.embed(k, K.vstr(name, "ID", idv=i), "str")
            out.append(G("token-id-edge", doc, shape, "equal", enc, ids={name: i}, model=True))
            # the id is NOT known: a skipped field under Stringify / Ignore agrees with the text rendering (the name is never needed)
            if kb == "field":
                for strat in ("stringify", "ignore"):
                    doc = K.obj([K.fld("a", K.vint(2, "I32")), K.fld(name, K.vint(1, "I32"), kb="ID", kid=i), K.fld("b", K.vint(3, "I32"))])
                    out.append(G("token-id-unknown-skipped", doc, K.struct_of([("a", "", ("u", 8)), ("b", "", ("u", 8))]), "equal", enc, ids={name: i}, known=set(), strat=strat, model=True))
    return out


# ------------------------------------------------------------------------------------------ 9. text layout: gaps, comments, offsets
def layout_groups():
    """the text rendering's gap words: runs of N blanks / line breaks / a comment of N bytes between every two tokens of a small
    document, and the offset of the document from the start of the input (0 .. 17 leading blanks) x the length of a quoted
    and an unquoted string around the 8 / 16-byte blocks of the lexer.  The binary rendering does not change"""
    out = []
    k = 0
    a, s, l = hx("a"), hx("s"), hx("l")
    shs = "struct(%s:u8,%s:str,%s:seq(u8))" % (a, s, l)
    val = "(struct (%s (u 1)) (%s (str %s)) (%s (seq (u 1) (u 2))))" % (a, s, hx("two words"), l)
    key = lambda n: D.bstr(n, False) + D.EQ
    i32 = lambda n: D.tok(0x0c) + struct.pack("<i", n)
    bn = key(b"a") + i32(1) + key(b"s") + D.bstr(b"two words", True) + key(b"l") + D.OPEN + i32(1) + i32(2) + D.CLOSE
    toks = [b"a", b"=", b"1", b"s", b"=", b'"two words"', b"l", b"=", b"{", b"1", b"2", b"}"]
    for N in LADDER[1:]:
        for (gi, gap) in enumerate((b" " * N, b"\n" * N, b"\t" * (N - 1) + b"\r\n" if N >= 2 else b"\n", b"#" + b"c" * (N - 1) + b"\n", b" \n#xy\n" * max(1, N // 6))):
            k += 1
            enc = ENCS[k % 2]
            if N <= 300:
                txt = gap.join(toks) + gap
            else:
                # one long gap at one place (in turn: after the key, after the operator, between fields, inside the array, at both ends)
                place = [1, 2, 3, 10, 0][k % 5]
                txt = (gap if place == 0 else b"") + b" ".join(toks[:place]) + (gap if place else b"") + b" ".join(toks[place:]) + (gap if place == 0 else b"")
            g = G("gap-length", None, None, "equal", enc, txt=txt, bin=bn, shs=shs, et=val, eb=val, res="map:-", mtb=32, model=N <= 64)
            if N > 20:
                # a comment is one unit for the stream reader: its buffer has to hold it
                g["tp"] = ["slice", "tape", "reader:%d:-" % (N + 64), "reader:%d:7,3*" % (N + 4096), "objreader", "mslice"] + (["freader:-"] if N < 30000 else [])
            out.append(g)
    for off in range(0, 18):
        for L in (6, 7, 8, 9, 14, 15, 16, 17, 30, 31, 32, 33):
            k += 1
            enc = ENCS[k % 2]
            w = pat(L, k)
            q = w[:L - 3] + " " + w[L - 2:]          # a blank inside: quoted only
            txt = b" " * off + b"u=" + w.encode() + b' q="' + q.encode() + b'" a=1'
            bnn = key(b"u") + D.bstr(w.encode(), False) + key(b"q") + D.bstr(q.encode(), True) + key(b"a") + i32(1)
            sh2 = "struct(%s:str,%s:str,%s:u8)" % (hx("q"), hx("u"), a)
            v2 = "(struct (%s (str %s)) (%s (str %s)) (%s (u 1)))" % (hx("q"), hx(q), hx("u"), hx(w), a)
            out.append(G("offset-x-length", None, None, "equal", enc, txt=txt, bin=bnn, shs=sh2, et=v2, eb=v2, res="map:-", mtb=64, model=(k % 2 == 0)))
    return out


# ------------------------------------------------------------------------------------------ runner
def all_groups(ctx):
    groups = []
    for f in (string_groups, default_buffer_groups, key_groups, count_groups, ghost_groups, depth_groups, number_groups, float_groups, date_groups,
              rgb_groups, token_id_groups, layout_groups):
        gs = f()
        ctx.count("sizes_groups_" + f.__name__[:-7], len(gs))
        groups += gs
    return groups


def run(ctx):
    rng = random.Random(ctx.seed * 104729 + 6)
    groups = all_groups(ctx)
    cases, _ = K.run_groups(ctx, groups, rng, "sizes")
    # the small ladder cases once more against the extracted Coq walks (the long ones would cost the extracted model seconds
    # each -- it is roughly quadratic beyond a few thousand elements -- and run with the independent expectation only)
    from props import C02
    nt = lambda c, i: i.startswith("(")
    tsel, bsel = [], []
    # run_groups appends the cases of one group after the other; recover the groups' ranges from the rendering
    idx = 0
    for g in groups:
        n = g["_ncases"]
        if g.get("model"):
            for c in cases[idx: idx + n]:
                p = c.split("\t")[1]
                if c.startswith("de.text\t") and (p in ("slice", "tape", "mslice", "etape") or p.startswith("reader:")):
                    tsel.append(c)
                elif c.startswith("de.bin\t") and not p.startswith("f"):
                    bsel.append(c)
        idx += n
    C02.walk_model(ctx, tsel, stream="sizes_walk_text")
    ctx.correspond("sizes_walk_bin", ["de.model.bin" + c[len("de.bin"):] for c in bsel], nontrivial=nt)
