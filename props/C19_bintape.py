"""C19 wave 4 (a_c19): the binary TAPE parsers (optimised, reference, BinaryTape::from_slice -- kind bt.all) on EVERY prefix.

Before this wave the tape parser saw prefixes only through the deserializer path `de.bin tape` (map(any) target) and in C03's
doc_mutations stream (model = implementation, no truncation oracle).  Here the expectation comes from the generator alone:
documents are built field by field (props/C03.py Doc: token / string / number keys, scalar, rgb, array and object values at
any depth, ghost `{}` in key position), the builder records after every top-level field (and after every top-level ghost) the
byte offset and the number of tape tokens.  Oracle, for each of the two parsers separately:
    accepted  =>  the cut is AT a recorded top-level boundary or ONE byte after it (the parsers stop when fewer than two bytes
                  are left), and the tape is literally the first n tokens of the expected complete tape;
    cut anywhere else (inside a container, inside a payload, between a key and the end of its value)  =>  error;
    cut at a boundary  =>  accepted (the positive reading, C19_bin_cut_at_top_ref).
The stream is also a model correspondence (bt.all is BinTape.parse_opt / parse_ref extracted), which ties C19_bin_exact and
C19_bin_trunc_code to the code on exactly these inputs."""
from vlib import hexs
from props import C03


class TDoc(C03.Doc):
    def build_top(self, depth):
        r = self.rng
        bounds = {0: 0}
        n = r.choice([1, 2, 3, 4, 6])
        for i in range(n):
            if i > 0 and r.random() < 0.2:
                self.ghost()
                bounds[len(self.out)] = len(self.toks)
            self.scalar(r.choice(self.KEYK))
            self.out += C03.EQUAL
            self.value(depth, True)
            bounds[len(self.out)] = len(self.toks)
        if r.random() < 0.1:
            self.ghost()
            bounds[len(self.out)] = len(self.toks)
        return bytes(self.out), list(self.toks), bounds


def run_part(ctx):
    rng = ctx.rng
    cases, meta = [], []
    ndocs = 0
    for _ in range(ctx.scale(60, 800)):
        data, toks, bounds = TDoc(rng).build_top(rng.choice([0, 1, 1, 2, 3]))
        if len(data) > 150:
            continue
        ndocs += 1
        for k in range(len(data) + 1):
            cases.append("bt.all\t" + hexs(data[:k])); meta.append((data, toks, bounds, k))
    impl, _ = ctx.correspond("bin_tape_truncations", cases, nontrivial=lambda c, i: "OK " in i)
    base = len(impl) - len(cases)
    for j, (data, toks, bounds, k) in enumerate(meta):
        o = impl[base + j]
        if o in ("PANIC", "ABORT", "HANG") or o.startswith("from_slice-differs"):
            ctx.fail("bintape-trunc-crash", "bt.all on %s cut at %d: %s" % (data.hex(), k, o[:120]), [cases[j]], [o]); continue
        s = C03.split_all(o)
        if not s:
            continue
        n = bounds.get(k, bounds.get(k - 1))          # at a boundary, or one stray byte after it
        for which, res in (("optimised", s[0]), ("reference", s[1])):
            if res.startswith("OK"):
                got = res.split(" ")[1:]
                if n is None:
                    ctx.fail("bintape-trunc-accepted", "%s tape parser accepted %s cut at %d (not a top-level field boundary: inside a container / payload / between a key "
                             "and the end of its value) as %s" % (which, data.hex(), k, res[:120]), [cases[j]], [o], "an error")
                elif got != toks[:n]:
                    ctx.fail("bintape-trunc-fabricated", "%s tape parser on %s cut at %d returned %s; the complete document's tape up to that boundary is %s"
                             % (which, data.hex(), k, res[:120], " ".join(toks[:n])[:120]), [cases[j]], [o], "OK " + " ".join(toks[:n]))
            elif n is not None and k in bounds:
                ctx.fail("bintape-trunc-refused", "%s tape parser refused %s cut exactly at the top-level field boundary %d (%d complete tokens)" % (which, data.hex(), k, n),
                         [cases[j]], [o], "OK " + " ".join(toks[:n]))
    ctx.count("bin_tape_truncation_cases", len(cases))
    ctx.count("bin_tape_truncation_docs", ndocs)
