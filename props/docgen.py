"""Abstract Clausewitz text documents: generator, layouts/renderings, expected tape, writer calls.

API (import from other property files: `from props import docgen` / `from props.docgen import *`):

    gen_doc(rng, depth=3, size=8, **features) -> Doc        random abstract document
    render(doc, layout="min" | "spaced" | ... | rng) -> bytes  one concrete text of the document
    flatten(doc) -> str                                     the tape TextTape::from_slice must produce,
                                                            in the canonical token format (`-` = empty)
    to_calls(doc, rng, ...) -> str                          a TextWriter call list describing the document
    LAYOUTS                                                 names of the deterministic layouts

Document model
    Doc(items)                      root object: list of Field | Param | Ghost
    Field(key, op, value)           op in OPS or None (None = no operator in the text: only before `{`)
    S(kind, raw)                    scalar: kind "u" unquoted / "q" quoted; raw = bytes between the quotes
                                    *as they appear in the text* (escapes included)
    Obj(items, tail=[])             `{ k=v ... }`; tail = bare values after the fields (object that
                                    continues as an array; NOT round-trippable through the writer)
    Arr(elems, mixed=[])            `{ v v ... k=v k=v }`; mixed = Field list after the elements
                                    (array that turns into a key-value list)
    Hdr(name, value)                `rgb { .. }`, `hsv { .. }`, `LIST { .. }` (only as a field value)
    Param(name, undefined, body)    `[[name] k=v ... ]` / `[[!name] ...]`; body = list of Field or one S
    Ghost()                         an empty `{}` that the parser skips

flatten mirrors the parser including its known quirks (documented in DESIGN.md section 7 watch list):
`=` is only a token inside key-value lists of arrays; a nested container inside such a list resets the
list mode unless it starts with a scalar, so a second `M` marker appears; the container's `mixed` flag
is the list mode at its close.
"""
import random

OPS = ["<", "<=", ">", ">=", "!=", "==", "=", "?="]
OP_CODE = {o: i for i, o in enumerate(OPS)}
# operators the parser recognises after the *first* key of a nested container (ParseOpen peeks = < >)
FIRST_OPS = ["=", "=", "=", "<", "<=", ">", ">=", "=="]
# operators recognised inside arrays (no `?=` there)
ARRAY_OPS = ["=", "=", "<", "<=", ">", ">=", "!=", "=="]

BOUNDARY = set(b"\t\n\x0b\x0c\r !#<=>[]{}")
UNQ_ALPHA = [b for b in range(0x21, 0x100) if b not in BOUNDARY and b not in b'";?@\\' and b != 0x7f]
UNQ_COMMON = list(b"abcdefghijklmnopqrstuvwxyzABCDEFGHIJKLMNOPQRSTUVWXYZ0123456789_.-:'")


class S:
    def __init__(self, kind, raw, typed=None):
        self.kind, self.raw, self.typed = kind, bytes(raw), typed   # typed: writer call producing it (C15)

    def __repr__(self):
        return "%s%r" % (self.kind, self.raw)


class Field:
    def __init__(self, key, op, value):
        self.key, self.op, self.value = key, op, value

    def __repr__(self):
        return "(%r %s %r)" % (self.key, self.op, self.value)


class Obj:
    def __init__(self, items, tail=None):
        self.items, self.tail = items, tail or []

    def __repr__(self):
        return "Obj%r%s" % (self.items, ("+%r" % self.tail) if self.tail else "")


class Arr:
    def __init__(self, elems, mixed=None):
        self.elems, self.mixed = elems, mixed or []

    def __repr__(self):
        return "Arr%r%s" % (self.elems, ("~%r" % self.mixed) if self.mixed else "")


class Hdr:
    def __init__(self, name, value):
        self.name, self.value = bytes(name), value

    def __repr__(self):
        return "Hdr(%r,%r)" % (self.name, self.value)


class Param:
    def __init__(self, name, undefined, body):
        self.name, self.undefined, self.body = bytes(name), undefined, body

    def __repr__(self):
        return "Param(%r,%r,%r)" % (self.name, self.undefined, self.body)


class Ghost:
    def __repr__(self):
        return "Ghost"


class Doc:
    def __init__(self, items):
        self.items = items

    def __repr__(self):
        return "Doc%r" % (self.items,)


# ------------------------------------------------------------------ generation
def gen_unquoted(rng, exotic=True):
    r = rng.random()
    if r < 0.08:
        return S("u", b"@" + bytes(rng.choice(UNQ_COMMON[:52]) for _ in range(rng.randrange(1, 6))))
    if r < 0.12 and exotic:
        return S("u", b"@[" + bytes(rng.choice(b"abc +-*/12 ") for _ in range(rng.randrange(1, 8))) + b"]")
    if r < 0.30:
        return S("u", str(rng.choice([0, 1, -1, 10, 1444, rng.randrange(-10 ** 6, 10 ** 6)])).encode())
    if r < 0.36:
        return S("u", ("%d.%d.%d" % (rng.randrange(1, 3000), rng.randrange(1, 13), rng.randrange(1, 29))).encode())
    if r < 0.42:
        return S("u", ("%d.%03d" % (rng.randrange(-50, 50), rng.randrange(1000))).encode())
    if r < 0.47:
        return S("u", rng.choice([b"yes", b"no"]))
    n = rng.choice([1, 1, 2, 3, 4, 5, 7, 8, 9, 15, 16, 17, 24, 33]) if rng.random() < 0.5 else rng.randrange(1, 12)
    alpha = UNQ_ALPHA if (exotic and rng.random() < 0.25) else UNQ_COMMON
    return S("u", bytes(rng.choice(alpha) for _ in range(n)))


def gen_quoted(rng, exotic=True):
    n = rng.choice([0, 1, 2, 3, 5, 7, 8, 9, 15, 16, 17, 31, 32, 40]) if rng.random() < 0.4 else rng.randrange(0, 14)
    out = bytearray()
    for _ in range(n):
        r = rng.random()
        if r < 0.10 and exotic:
            out += b'\\"'
        elif r < 0.14 and exotic:
            out += b"\\\\"
        elif r < 0.24 and exotic:
            out.append(rng.randrange(0x80, 0x100))
        elif r < 0.34 and exotic:
            out.append(rng.choice(b" \t\n#{}=[]<>!;?@'"))
        else:
            out.append(rng.choice(UNQ_COMMON + [0x20]))
    return S("q", bytes(out))


def gen_scalar(rng, exotic=True, pq=0.3):
    return gen_quoted(rng, exotic) if rng.random() < pq else gen_unquoted(rng, exotic)


def gen_key(rng, exotic=True):
    if rng.random() < 0.12:
        return gen_quoted(rng, exotic)
    s = gen_unquoted(rng, exotic)
    return s


def _gen_value(rng, depth, size, f, in_array=False):
    r = rng.random()
    if depth <= 0 or r < 0.45:
        return gen_scalar(rng, f["exotic"])
    if r < 0.62:
        return _gen_obj(rng, depth - 1, size, f)
    if r < 0.80:
        return _gen_arr(rng, depth - 1, size, f)
    if r < 0.86:
        return Arr([])                       # empty container
    if r < 0.94 and f["headers"] and not in_array:
        name = rng.choice([b"rgb", b"hsv", b"hsv360", b"LIST", b"cylindrical"])
        if name in (b"rgb", b"hsv", b"hsv360") or rng.random() < 0.5:
            k = rng.choice([3, 3, 4])
            return Hdr(name, Arr([S("u", str(rng.randrange(256)).encode()) for _ in range(k)]))
        v = _gen_arr(rng, depth - 1, size, f) if rng.random() < 0.6 else _gen_obj(rng, depth - 1, size, f)
        if not _nonempty(v):
            v = Arr([gen_unquoted(rng, f["exotic"])])
        return Hdr(name, v)
    return gen_scalar(rng, f["exotic"])


def _nonempty(v):
    if isinstance(v, Arr):
        return any(not isinstance(e, Ghost) for e in v.elems) or bool(v.mixed)
    if isinstance(v, Obj):
        return any(not isinstance(e, Ghost) for e in v.items)
    return True


def _gen_field(rng, depth, size, f, first_nested=False, ops=None):
    key = gen_key(rng, f["exotic"])
    value = _gen_value(rng, depth, size, f)
    if ops is not None:
        op = rng.choice(ops)
    elif first_nested:
        op = rng.choice(FIRST_OPS)
    else:
        op = rng.choice(OPS) if (f["operators"] and rng.random() < 0.35) else "="
    if op == "=" and isinstance(value, (Obj, Arr)) and not first_nested and ops is None and rng.random() < 0.3:
        op = None                             # `key{` : operator omitted in the text
    return Field(key, op, value)


def _gen_items(rng, depth, size, f, nested):
    n = rng.randrange(1, size + 1)
    items = []
    for i in range(n):
        r = rng.random()
        if r < 0.06 and f["ghosts"]:
            items.append(Ghost())
        elif r < 0.14 and f["params"] and depth > 0:
            name = bytes(rng.choice(UNQ_COMMON[:52]) for _ in range(rng.randrange(1, 8)))
            if rng.random() < 0.3 and f["param_values"]:
                body = gen_unquoted(rng, False)
                if body.raw[:1] == b"@":
                    body = S("u", b"v" + body.raw[1:2])
            else:
                body = [_gen_field(rng, depth - 1, size, f, first_nested=(j == 0)) for j in range(rng.randrange(1, 4))]
                # the parser reads the first key of a parameter body with the unquoted splitter
                k0 = gen_unquoted(rng, False)
                body[0].key = S("u", b"k" + k0.raw[1:]) if k0.raw[:1] == b"@" else k0
            items.append(Param(name, rng.random() < 0.4, body))
        else:
            first = nested and not any(isinstance(x, (Field, Param)) for x in items)
            items.append(_gen_field(rng, depth, size, f, first_nested=first))
    if nested and not any(isinstance(x, (Field, Param)) for x in items):
        items.append(_gen_field(rng, depth, size, f, first_nested=True))
    return items


def _gen_obj(rng, depth, size, f):
    items = _gen_items(rng, depth, size, f, nested=True)
    tail = []
    if f["object_tails"] and rng.random() < 0.25:
        tail = [gen_scalar(rng, f["exotic"]) for _ in range(rng.randrange(1, 4))]
        # the field before the tail must not leave the parser in a state where the tail's first
        # scalar is glued to it structurally: a tail directly after a Param is not generated
        if isinstance([x for x in items if not isinstance(x, Ghost)][-1], Param):
            tail = []
    return Obj(items, tail)


def _gen_arr(rng, depth, size, f):
    n = rng.randrange(1, size + 1)
    elems = []
    kind = rng.random()
    for i in range(n):
        if kind < 0.25 and depth > 0:        # array of objects / arrays
            e = _gen_obj(rng, depth - 1, max(1, size // 2), f) if rng.random() < 0.6 else _gen_arr(rng, depth - 1, max(1, size // 2), f)
        else:
            e = _gen_value(rng, depth - 1 if kind < 0.5 else 0, max(1, size // 2), f, in_array=True)
        if isinstance(e, Hdr):
            e = gen_scalar(rng, f["exotic"])
        elems.append(e)
    # the parser drops empty containers at the very start of an array (they are ghosts there)
    while elems and isinstance(elems[0], (Arr, Obj)) and not _nonempty(elems[0]):
        elems.pop(0)
    if not elems:
        elems = [gen_scalar(rng, f["exotic"])]
    if f["ghosts"] and rng.random() < 0.1:
        elems.insert(0, Ghost())
    mixed = []
    if f["mixed"] and rng.random() < 0.25 and isinstance(elems[-1], S):
        for j in range(rng.randrange(1, 4)):
            fld = _gen_field(rng, depth - 1, max(1, size // 2), f, ops=ARRAY_OPS)
            if isinstance(fld.value, Hdr):
                fld.value = gen_scalar(rng, f["exotic"])
            if isinstance(fld.value, Obj) and isinstance(_first_real(fld.value.items), Param):
                fld.value = gen_scalar(rng, f["exotic"])      # `[[` is refused inside a key-value list
            mixed.append(fld)
            if rng.random() < 0.2:
                mixed.append(gen_scalar(rng, f["exotic"]))    # a bare value between the pairs
    return Arr(elems, mixed)


def _first_real(items):
    for x in items:
        if not isinstance(x, Ghost):
            return x
    return None


DEFAULT_FEATURES = dict(exotic=True, operators=True, headers=True, params=True, param_values=True, ghosts=True,
                        mixed=True, object_tails=False)


def gen_doc(rng, depth=3, size=8, **features):
    """Random abstract document.  features (all bool): exotic (non-ASCII / escaped quotes / @variables),
    operators, headers, params, param_values (`[[p] v ]`), ghosts (`{}`), mixed (arrays that turn into
    key-value lists), object_tails (objects that continue as bare value lists: not round-trippable)."""
    f = dict(DEFAULT_FEATURES)
    f.update(features)
    return Doc(_gen_items(rng, depth, size, f, nested=False))


# ------------------------------------------------------------------ expected tape
def _hx(b):
    return bytes(b).hex() if len(b) else "-"


def _tok_scalar(s):
    return ("Q:" if s.kind == "q" else "U:") + _hx(s.raw)


def _starts_with_scalar(v):
    """does the container's text start (after ghosts) with a scalar?  (ParseOpen scalar path)"""
    if isinstance(v, Obj):
        x = _first_real(v.items)
        return isinstance(x, Field)
    if isinstance(v, Arr):
        x = _first_real(v.elems)
        if x is None:
            return bool(v.mixed)
        return isinstance(x, S)
    return False


class _Flat:
    def __init__(self):
        self.out = []

    def fields(self, items, in_mixed_parent=False):
        for it in items:
            if isinstance(it, Ghost):
                continue
            if isinstance(it, Param):
                self.out.append(("N:" if it.undefined else "P:") + _hx(it.name))
                if isinstance(it.body, S):
                    self.out.append("U:" + _hx(it.body.raw))
                else:
                    idx = len(self.out)
                    self.out.append(None)
                    self.fields(it.body)
                    self.out.append("E:%d" % idx)
                    self.out[idx] = "O:%d:0" % (len(self.out) - 1)
                continue
            self.out.append(_tok_scalar(it.key))
            if it.op is not None and it.op != "=":
                self.out.append("OP:%d" % OP_CODE[it.op])
            self.value(it.value, False, [False])

    def value(self, v, mm, pflag):
        """mm: list mode of the enclosing array when this value starts; pflag: [bool] the enclosing
        container token's mixed flag (mutable).  Returns the list mode after the value."""
        if isinstance(v, S):
            self.out.append(_tok_scalar(v))
            return mm
        if isinstance(v, Hdr):
            self.out.append("H:" + _hx(v.name))
            self.value(v.value, False, [False])
            return mm
        # containers
        if not _nonempty(v):
            idx = len(self.out)
            self.out.append("A:%d:0" % (idx + 1))
            self.out.append("E:%d" % idx)
            return pflag[0]
        if mm and _starts_with_scalar(v):
            pflag[0] = True
        idx = len(self.out)
        self.out.append(None)
        if isinstance(v, Obj):
            self.fields(v.items)
            cm = False
            if v.tail:
                # KeyValueSeparator sees a non-operator: marker goes before the last pushed scalar
                self.out.append("M")
                self.out.append(_tok_scalar(v.tail[0]))
                cm = True
                for s in v.tail[1:]:
                    self.out.append(_tok_scalar(s))
            self.out.append("E:%d" % idx)
            self.out[idx] = "O:%d:%d" % (len(self.out) - 1, 1 if cm else 0)
        else:
            cm = False
            flag = [False]
            for e in v.elems:
                if isinstance(e, Ghost):
                    continue
                cm = self.value(e, cm, flag)
            for e in v.mixed:
                if isinstance(e, S):
                    self.out.append(_tok_scalar(e))
                    continue
                if not cm:
                    self.out.append("M")
                    cm = True
                self.out.append(_tok_scalar(e.key))
                self.out.append("OP:%d" % OP_CODE[e.op if e.op is not None else "="])
                cm = self.value(e.value, cm, flag)
            self.out.append("E:%d" % idx)
            self.out[idx] = "A:%d:%d" % (len(self.out) - 1, 1 if cm else 0)
        return pflag[0]


def flatten(doc):
    """Canonical tape (token string) the parser must produce for any wf rendering of doc."""
    f = _Flat()
    f.fields(doc.items)
    return " ".join(f.out) if f.out else "-"


# ------------------------------------------------------------------ rendering
# token stream: ("u", bytes) ("q", raw) ("op", sym) ("{",) ("}",) ("ph", bytes) ("]",)
def _tokens(doc):
    out = []

    def scalar(s):
        out.append(("q" if s.kind == "q" else "u", s.raw))

    def value(v):
        if isinstance(v, S):
            scalar(v)
        elif isinstance(v, Hdr):
            out.append(("u", v.name))
            value(v.value)
        elif isinstance(v, Ghost):
            out.append(("{",)); out.append(("}",))
        elif isinstance(v, Obj):
            out.append(("{",))
            fields(v.items)
            for s in v.tail:
                scalar(s)
            out.append(("}",))
        else:
            out.append(("{",))
            for e in v.elems:
                value(e)
            for e in v.mixed:
                if isinstance(e, S):
                    scalar(e)
                else:
                    scalar(e.key)
                    out.append(("op", e.op or "="))
                    value(e.value)
            out.append(("}",))

    def fields(items):
        for it in items:
            if isinstance(it, Ghost):
                out.append(("{",)); out.append(("}",))
            elif isinstance(it, Param):
                out.append(("ph", (b"[[!" if it.undefined else b"[[") + it.name + b"]"))
                if isinstance(it.body, S):
                    scalar(it.body)
                else:
                    fields(it.body)
                out.append(("]",))
            else:
                scalar(it.key)
                if it.op is not None:
                    out.append(("op", it.op))
                value(it.value)

    fields(doc.items)
    return out


def _text(t):
    if t[0] == "u":
        return t[1]
    if t[0] == "q":
        return b'"' + t[1] + b'"'
    if t[0] == "op":
        return t[1].encode()
    if t[0] == "ph":
        return t[1]
    return t[0].encode()


def _needs_gap(a, b):
    """must a non-empty gap separate tokens a and b?  (gluing them would change the token sequence)"""
    if a[0] == "u":
        if b[0] in ("u", "q"):
            return True
        if b[0] == "op" and b[1] in ("?=", "!="):
            return True       # `?` is not a boundary byte; `!` is not one for the 16-byte scan (defect A)
        if b[0] == "ph":
            return False
    if a[0] == "q" and b[0] in ("u", "q"):
        return True           # not required by the grammar for q-q, kept for readability of the corpus
    if a[0] == "op" and b[0] == "op":
        return True
    if a[0] == "op" and a[1] in ("<", ">", "=", "!=", "==", "<=", ">=", "?=") and b[0] == "u" and b[1][:1] == b"=":
        return True
    return False


LAYOUTS = ["min", "spaced", "lines", "crlf", "tabs", "comments", "semicolon", "bom", "writerlike"]


def _gap_words(layout, rng):
    if layout == "spaced":
        return lambda must, after_u: b" "
    if layout == "lines":
        return lambda must, after_u: b"\n"
    if layout == "crlf":
        return lambda must, after_u: b"\r\n"
    if layout == "tabs":
        return lambda must, after_u: b"\t"
    if layout == "comments":
        return lambda must, after_u: b" # c {}=\"\n" if must else b"#x\n"
    if layout == "semicolon":
        return lambda must, after_u: b" ;" if after_u else b";"
    if layout == "writerlike":
        return lambda must, after_u: b"\n  "
    if layout in ("min", "bom"):
        return lambda must, after_u: b" " if must else b""
    r = layout if isinstance(layout, random.Random) else rng

    def word(must, after_u):
        k = r.random()
        if not must and k < 0.45:
            return b""
        w = bytearray()
        for _ in range(r.choice([1, 1, 1, 2, 3, 9, 17])):
            c = r.random()
            if c < 0.45:
                w += b" "
            elif c < 0.6:
                w += b"\n"
            elif c < 0.7:
                w += b"\t"
            elif c < 0.8:
                w += b"\r\n"
            elif c < 0.88:
                w += b";" if (w or not after_u) else b" ;"
            else:
                w += b"#" + bytes(r.choice(b"abc {}=\"[]!<>;\\\xe9") for _ in range(r.randrange(0, 6))) + b"\n"
        return bytes(w)
    return word


def render(doc, layout="min", rng=None):
    """One concrete text of doc.  layout: a name from LAYOUTS, or a random.Random for a random wf layout
    (gaps over space, tab, LF, CRLF, `;`, `#comment\\n`; BOM with probability 1/8)."""
    toks = _tokens(doc)
    word = _gap_words(layout, rng)
    r = layout if isinstance(layout, random.Random) else None
    out = bytearray()
    if layout == "bom" or (r is not None and r.random() < 0.125):
        out += b"\xef\xbb\xbf"
    if r is not None:
        out += word(False, False)
    for i, t in enumerate(toks):
        out += _text(t)
        if i + 1 < len(toks):
            must = _needs_gap(t, toks[i + 1])
            # the param head and its name are one token; a gap after `[[p]` is always allowed
            out += word(must, t[0] == "u")
    if r is not None:
        out += word(False, bool(toks) and toks[-1][0] == "u")
    elif layout in ("lines", "crlf"):
        out += b"\n"
    return bytes(out)


# ------------------------------------------------------------------ writer calls (C15)
def _scalar_call(s, rng, quoted_payload=None):
    if s.typed is not None:
        return s.typed
    if s.kind == "q":
        # the caller passes the *payload*; the tape holds its escaped form
        return "q:" + _hx(quoted_payload if quoted_payload is not None else unescape(s.raw))
    return "u:" + _hx(s.raw)


def unescape(raw):
    out = bytearray()
    i = 0
    while i < len(raw):
        if raw[i] == 0x5c and i + 1 < len(raw):
            out.append(raw[i + 1]); i += 2
        else:
            out.append(raw[i]); i += 1
    return bytes(out)


def escape(p):
    """reference for TextWriter::write_quoted: drop one trailing newline, backslash before `\\` and `"`"""
    if p.endswith(b"\n"):
        p = p[:-1]
    return p.replace(b"\\", b"\\\\").replace(b'"', b'\\"')


def to_calls(doc, rng, start_flavours=True, explicit_eq=0.5, binary=0.0, trace=None, qtrace=None):
    """A call list (harness/src/fam_writer.rs syntax) describing doc.  Only for documents without Param /
    Ghost / object tails (the writer API has no call for them).  start_flavours: pick write_start /
    write_object_start / write_array_start at random where each is legal; explicit_eq: probability of an
    explicit write_operator(Equal); binary: probability of routing a call through write_binary.
    trace: optional list that receives, per call, what expecting_key() must return afterwards
    (True after write_object_start and after a complete value in an object, False after a key, an
    operator, a header, inside arrays and right after write_start / write_array_start).
    qtrace (wave 4): optional list that receives, per call, (at_unknown_start, at_array_value) as the
    document structure dictates: at_unknown_start only right after write_start; at_array_value after an
    element of an array whose kind is settled (write_array_start: from the first element on; write_start:
    from the second scalar element on, or after a first element that is a container), after the first key
    of an object that was opened with write_array_start (until its operator arrives), after every call of
    the key-value part of a list, and after the write_end of a container that is an array element."""
    calls = []

    def via_bin(c):
        p = c.split(":")
        m = {"u": "U", "q": "Q", "i32": "I32", "u32": "U32", "u64": "U64", "i64": "I64", "f32": "F32", "f64": "F64"}
        if p[0] in m:
            return "bin:" + m[p[0]] + ":" + ":".join(p[1:])
        if p[0] == "b":
            return "bin:B:" + p[1]
        if p[0] == "rgb":
            return "bin:RGB:" + ":".join(p[1:])
        if p[0] == "os":
            return "bin:O"
        if p[0] == "as":
            return "bin:A"
        if p[0] == "e":
            return "bin:E"
        if p[0] == "m":
            return "bin:M"
        if c == "op:6":
            return "bin:EQ"
        return c

    def emit(c, ek, aa=False, au=False):
        calls.append(via_bin(c) if rng.random() < binary else c)
        if trace is not None:
            trace.append(ek)
        if qtrace is not None:
            qtrace.append((au, aa))

    def op_calls(op, force):
        # returns whether an operator call was emitted (w_wr, wave 5: recorded on the field as _op_called)
        if op is None or op == "=":
            if force or rng.random() < explicit_eq:
                emit("op:6", False)
                return True
            return False
        else:
            emit("op:%d" % OP_CODE[op], False)
            return True

    def value(v, in_obj, aa_after=False):
        """in_obj: the value completes a field of an object (then a key is expected next);
        aa_after: at_array_value() once the value is complete (decided by the enclosing array)"""
        if isinstance(v, S):
            emit(_scalar_call(v, rng), in_obj, aa_after)
        elif isinstance(v, Hdr):
            if v.name == b"rgb" and isinstance(v.value, Arr) and not v.value.mixed and len(v.value.elems) in (3, 4) \
                    and all(isinstance(e, S) and e.raw.isdigit() and int(e.raw) < 2 ** 32 and str(int(e.raw)).encode() == e.raw for e in v.value.elems) and rng.random() < 0.6:
                emit("rgb:" + ":".join(e.raw.decode() for e in v.value.elems), in_obj, aa_after)
            else:
                emit("h:" + _hx(v.name), False)
                value(v.value, in_obj, aa_after)
        elif isinstance(v, Obj):
            fl = rng.choice(["os", "os", "s", "as"]) if start_flavours else "os"
            emit(fl, fl == "os", False, fl == "s")
            fields(v.items, first_needs_explicit=(fl != "os"), first_key_aa=(fl == "as"))
            emit("e", in_obj, aa_after)
        else:
            fl = rng.choice(["as", "as", "s"]) if start_flavours else "as"
            # write_start decides array-ness only at the second call: legal for every array
            emit(fl, False, False, fl == "s")
            cur = False
            for i, e in enumerate(v.elems):
                cur = fl == "as" or i >= 1 or not isinstance(e, S)
                value(e, False, cur)
            if v.mixed:
                emit("m", False, cur)
                for e in v.mixed:
                    if isinstance(e, S):
                        emit(_scalar_call(e, rng), False, True)
                    else:
                        emit(_scalar_call(e.key, rng), False, True)
                        emit("op:%d" % OP_CODE[e.op or "="], False, True)
                        value(e.value, False, True)
            emit("e", in_obj, aa_after)

    def fields(items, first_needs_explicit=False, first_key_aa=False):
        first = True
        for it in items:
            emit(_scalar_call(it.key, rng), False, first and first_key_aa)
            it._op_called = op_calls(it.op, first and first_needs_explicit)
            value(it.value, True)
            first = False

    fields(doc.items)
    return ";".join(calls) if calls else "-"


def map_scalars(doc, fn):
    """rebuild doc with every scalar s replaced by fn(s, role); role in key / value / elem / mkey / tail / pvalue"""
    def val(v, role):
        if isinstance(v, S):
            return fn(v, role)
        if isinstance(v, Hdr):
            return Hdr(v.name, val(v.value, role))
        if isinstance(v, Obj):
            return Obj(items(v.items), [fn(s, "tail") for s in v.tail])
        if isinstance(v, Arr):
            return Arr([e if isinstance(e, Ghost) else val(e, "elem") for e in v.elems],
                       [fn(e, "elem") if isinstance(e, S) else Field(fn(e.key, "mkey"), e.op, val(e.value, "value")) for e in v.mixed])
        return v

    def items(its):
        out = []
        for it in its:
            if isinstance(it, Field):
                out.append(Field(fn(it.key, "key"), it.op, val(it.value, "value")))
            elif isinstance(it, Param):
                out.append(Param(it.name, it.undefined, fn(it.body, "pvalue") if isinstance(it.body, S) else items(it.body)))
            else:
                out.append(it)
        return out
    return Doc(items(doc.items))


def callable_doc(doc):
    """does doc only use constructs the call API can express?"""
    def ok_v(v):
        if isinstance(v, S):
            return True
        if isinstance(v, Hdr):
            return ok_v(v.value)
        if isinstance(v, Obj):
            return not v.tail and all(isinstance(i, Field) and ok_v(i.value) for i in v.items)
        if isinstance(v, Arr):
            return all(not isinstance(e, Ghost) and ok_v(e) for e in v.elems) and all(isinstance(e, S) or ok_v(e.value) for e in v.mixed)
        return False
    return all(isinstance(i, Field) and ok_v(i.value) for i in doc.items)


# ------------------------------------------------------------------ wave 6 (s_wr): size ladders for the writer families (C14 / C15)
# Additive block: documents whose ONE size-like dimension is on the boundary ladder, everything else small, plus an
# oracle on indentation that does not involve the implementation or the model.
LADDER = [0, 1, 2, 3, 7, 8, 9, 15, 16, 17, 31, 32, 33, 63, 64, 65, 127, 128, 129, 255, 256, 257, 1023, 1024, 1025,
          4095, 4096, 4097, 65533, 65534, 65535, 65536]


def ladder(hi, lo=0, extra=()):
    return sorted(set([v for v in LADDER if lo <= v <= hi] + [v for v in extra if lo <= v <= hi]))


def deep_recursion():
    """flatten / render / to_calls recurse once or twice per nesting level"""
    import sys
    if sys.getrecursionlimit() < 200000:
        sys.setrecursionlimit(200000)


def indent_law(out, ch, factor, base=0):
    """Independent oracle on the writer's indentation: after every newline the run of indent characters is
    factor x (number of braces open at that point, one less when the line starts with the closing brace).
    `[[p]` / `]` do not count (a parameter body is written at the depth of the block).  Only for outputs whose
    quoted scalars hold no newline / brace (the ladder documents).  Returns None or (line, got, want)."""
    ind = bytes([ch])
    depth = base
    lines = out.split(b"\n")
    for k, ln in enumerate(lines):
        if k > 0:
            body = ln.lstrip(ind) if factor else ln
            got = len(ln) - len(body)
            want = factor * (depth - (1 if body[:1] == b"}" else 0))
            if ind in b" \t" and factor == 0 and body[:1] in (b" ", b"\t"):
                return (k, 1, 0)
            if got != want:
                return (k, got, want)
        depth += ln.count(b"{") - ln.count(b"}")
    return None


def deep_doc(rng, depth, kinds="mix", leaf=None, siblings=True, headers=True):
    """A document with a nesting chain of exactly `depth` containers under the root field.  kinds: "o" objects,
    "a" arrays, "oa" alternating, "blocks" (runs of 64 equal kinds), "mix" random per level.  With siblings every level
    has entries AFTER its nested child (the writer must still know, once the child is closed, what kind of container
    it is in -- at any depth); objects sometimes carry a header (`k=LIST{..}`) or a non-`=` operator."""
    v = leaf if leaf is not None else S("u", b"leaf")
    for i in range(depth):
        lvl = depth - i            # 1 = outermost
        if kinds == "o":
            k = "o"
        elif kinds == "a":
            k = "a"
        elif kinds == "oa":
            k = "oa"[lvl % 2]
        elif kinds == "blocks":
            k = "oa"[(lvl // 64) % 2]
        else:
            k = "o" if rng.random() < 0.5 else "a"
        cont = isinstance(v, (Obj, Arr))
        if k == "o":
            val = v
            if headers and cont and _nonempty(v) and rng.random() < 0.1:
                val = Hdr(rng.choice([b"LIST", b"hsv", b"rgb"]), v)
            op = rng.choice(FIRST_OPS) if rng.random() < 0.2 else ("=" if (not cont or isinstance(val, Hdr) or rng.random() < 0.7) else None)
            if op is None:
                op = "="           # `key{`: the first key of a nested object needs its operator for the parser's peek
            items = [Field(S("u", b"k%d" % lvl), op, val)]
            if siblings:
                items.append(Field(S("q" if rng.random() < 0.2 else "u", b"s"), rng.choice(OPS) if rng.random() < 0.2 else "=", S("u", b"t")))
            v = Obj(items)
        else:
            elems = [S("u", b"e")] if (not cont or rng.random() < 0.5) else []
            elems.append(v)
            if siblings:
                elems += [S("u", b"x"), S("q", b"y")] if rng.random() < 0.7 else [S("u", b"x")]
            v = Arr(elems)
    return Doc([Field(S("u", b"root"), "=", v), Field(S("u", b"after"), "=", S("u", b"1"))])


def wide_doc(kind, n):
    """n siblings of one kind in one container, everything else minimal"""
    u = lambda b: S("u", b)
    if kind == "top":            # n fields of the root object
        return Doc([Field(u(b"k%d" % i), OPS[i % 8] if i % 5 == 4 else "=", u(b"v%d" % i)) for i in range(n)])
    if kind == "fields":         # n fields in a nested object
        return Doc([Field(u(b"o"), "=", Obj([Field(u(b"k%d" % i), (FIRST_OPS[i % 8] if i == 0 else OPS[i % 8]) if i % 3 == 0 else "=", S("q" if i % 7 == 3 else "u", b"v%d" % i)) for i in range(n)]) if n else Arr([])),
                    Field(u(b"z"), "=", u(b"1"))])
    if kind == "elems":          # n scalar elements
        return Doc([Field(u(b"a"), "=", Arr([S("q" if i % 7 == 3 else "u", b"e%d" % i) for i in range(n)])), Field(u(b"z"), "=", u(b"1"))])
    if kind == "containers":     # n container elements after a scalar (arrays, objects and empty containers in turn)
        el = [u(b"first")]
        for i in range(n):
            el.append([Arr([u(b"%d" % i)]), Obj([Field(u(b"k"), "=", u(b"%d" % i))]), Arr([])][i % 3])
        return Doc([Field(u(b"a"), "=", Arr(el)), Field(u(b"z"), "=", u(b"1"))])
    if kind == "empties":        # n empty containers in a row
        return Doc([Field(u(b"a"), "=", Arr([u(b"first")] + [Arr([]) for _ in range(n)] + [u(b"last")]))])
    if kind == "kv":             # a list that turns into n key-value entries (scalar values)
        return Doc([Field(u(b"a"), "=", Arr([u(b"1"), u(b"2")], [Field(u(b"k%d" % i), ARRAY_OPS[i % 8], S("q" if i % 5 == 2 else "u", b"v%d" % i)) for i in range(n)])), Field(u(b"z"), "=", u(b"1"))])
    if kind == "objfields":      # n objects as fields (`k={a=b}` x n): n opens and closes at depth 1
        return Doc([Field(u(b"k%d" % i), "=", Obj([Field(u(b"a"), "=", u(b"b"))]) if i % 2 else Arr([u(b"c"), u(b"d")])) for i in range(n)])
    if kind == "headers":        # n headed fields
        return Doc([Field(u(b"c%d" % i), "=", Hdr(b"rgb", Arr([u(b"1"), u(b"2"), u(b"3")]))) for i in range(n)])
    if kind == "params":         # n parameter blocks in one object (write_tape only)
        return Doc([Field(u(b"o"), "=", Obj([Field(u(b"f"), "=", u(b"1"))] + [Param(b"p%d" % i, i % 2 == 1, [Field(u(b"x%d" % i), "=", u(b"y"))]) for i in range(n)])), Field(u(b"z"), "=", u(b"1"))])
    raise ValueError(kind)


WIDE_KINDS = ["top", "fields", "elems", "containers", "empties", "kv", "objfields", "headers", "params"]


def long_scalar(kind, n, escapes=0, fill=b"a"):
    """raw text of a scalar of exactly n bytes; quoted ones carry `escapes` escape pairs spread over the text"""
    if kind == "u":
        return (fill * n)[:n]
    if 2 * escapes > n:
        escapes = n // 2
    body = bytearray((fill * n)[:n - 2 * escapes])
    if escapes:
        step = max(1, len(body) // escapes)
        out = bytearray()
        pos = 0
        for j in range(escapes):
            out += body[pos:pos + step] + (b'\\"' if j % 2 == 0 else b"\\\\")
            pos += step
        out += body[pos:]
        body = out
    return bytes(body)


def scalar_doc(role, s):
    """a small document with the scalar s in the given role"""
    u = lambda b: S("u", b)
    if role == "key":
        return Doc([Field(s, "=", u(b"v")), Field(u(b"z"), "=", u(b"1"))])
    if role == "value":
        return Doc([Field(u(b"k"), "=", s), Field(u(b"z"), "=", u(b"1"))])
    if role == "opvalue":
        return Doc([Field(u(b"k"), ">=", s), Field(u(b"z"), "=", u(b"1"))])
    if role == "elem":
        return Doc([Field(u(b"a"), "=", Arr([u(b"x"), s, u(b"y")]))])
    if role == "firstelem":
        return Doc([Field(u(b"a"), "=", Arr([s]))])
    if role == "nestedkey":
        return Doc([Field(u(b"o"), "=", Obj([Field(s, "=", u(b"v")), Field(u(b"w"), "=", s)]))])
    if role == "kvkey":
        return Doc([Field(u(b"a"), "=", Arr([u(b"1")], [Field(s, "=", u(b"v"))]))])
    if role == "kvvalue":
        return Doc([Field(u(b"a"), "=", Arr([u(b"1")], [Field(u(b"k"), "=", s), Field(u(b"k2"), "<", u(b"w"))]))])
    if role == "header":
        return Doc([Field(u(b"c"), "=", Hdr(s.raw, Arr([u(b"1"), u(b"2")])))])
    if role == "param":
        return Doc([Field(u(b"o"), "=", Obj([Field(u(b"f"), "=", u(b"1")), Param(s.raw, False, [Field(u(b"x"), "=", u(b"y"))])]))])
    raise ValueError(role)


if __name__ == "__main__":
    import sys
    rng = random.Random(int(sys.argv[1]) if len(sys.argv) > 1 else 1)
    d = gen_doc(rng, 3, 5)
    print(d)
    print(render(d, "min"))
    print(flatten(d))
