"""C11, wave 6 (engineer s_c11): SIZE ladders.  One size-like dimension at a time on an otherwise small input, walked
over the ladder 0 1 2 3 7 8 9 15 16 17 31 32 33 63 64 65 127 128 129 255 256 257 1023 1024 1025 4095 4096 4097 65533
65534 65535 65536, plus the pairs the code (or a plausible block-wise rewrite of it) couples.  See audit/C11.md,
section "Size dimensions".

  size_zeros    count of leading zeros (0..70 systematically, then the ladder) after no sign / '+' / '-', in front of every
                type boundary (u64::MAX, i64::MAX, 2^53-1 and their successors), before the '.', after the '.', trailing
  size_digits   length of one digit run (nines, 10^k for EVERY k 0..70 + ladder, ones) with sign / '.' variants
  size_grid     count of integer digits 0..21 x count of fraction digits 0..26 (5 digit patterns, both signs), and count of
                zeros before the '.' (ladder) x fraction digits 0..25
  size_garbage  total length 1..70 x EVERY position of one foreign byte (plain and dotted body), ladder lengths with the
                foreign byte next to the 8/16-byte block boundaries and the ends; runs of signs / dots / garbage (ladder)
  size_align    length 0..70 x start offset {0..17,31..33,63..65,127..129} from an aligned address (digits before, garbage
                after the slice), ladder lengths x offsets 0,1,7,8,9,15
  size_decades  values with each leading digit 1..9 in every decade 10^0..10^25 and 2^k-1, 2^k, 2^k+1 for k 0..90
  size_prefix   to_u64_t with a start value in every decade x digit-run length 0..21 at the exact overflow boundary, zero
                runs and unread rests on the ladder; to_i64_t the same with signs
  size_bool     to_bool on ladder lengths (prefix "yes"/"no" + padding), every alignment
  size_pub      as_bytes / is_ascii / Display / == on ladder lengths: the non-ASCII byte / the differing byte at the ends
                and next to block boundaries, ladder runs of trailing blanks and backslashes

Every case goes through the property's own exact oracles (props/C11.py, props/C11_more.py: Python int / Fraction /
int-by-int division, an independent prefix parser, the Display reference) evaluated on the implementation's output, and is
diffed against the extracted models: the state-machine models (scalar.u64 / scalar.i64 / f64.parse, scalar.u64t/i64t) and
the grammar-level spec functions (c11.at, c11.u64t/i64t).  The numeric models are linear (65536 bytes: 15 ms) and are run on
every case; the Display model is quadratic, so c11.pub cases beyond 300 bytes run with model=False (oracle only)."""
import random, re, sys
from vlib import hexs, unhex

LADDER = [0, 1, 2, 3, 7, 8, 9, 15, 16, 17, 31, 32, 33, 63, 64, 65, 127, 128, 129, 255, 256, 257, 1023, 1024, 1025,
          4095, 4096, 4097, 65533, 65534, 65535, 65536]
SMALL = 257           # up to here: every body, every sign, both models
U64_MAX = 2 ** 64 - 1
I64_MAX = 2 ** 63 - 1
G53 = 2 ** 53 - 1
FOREIGN = [b"x", b":", b"/", b"\x00", b"\xb0", b" ", b"e", b"\xff", b"\n"]
OFFS = list(range(0, 18)) + [31, 32, 33, 63, 64, 65, 127, 128, 129]
DIG = b"0123456789"


def b(v):
    return str(v).encode()


def rdigits(rng, n, first_nonzero=True):
    if n <= 0:
        return b""
    d = bytearray(rng.choice(DIG) for _ in range(n))
    if first_nonzero:
        d[0] = rng.choice(b"123456789")
    return bytes(d)


# ------------------------------------------------------------------ generators (items: (bytes, offset, both_models))
def zeros_items(rng):
    out = []
    seen = set()

    def add(s, both):
        if s not in seen:
            seen.add(s)
            out.append((s, rng.randrange(0, 16), both))
    zs = sorted(set(range(0, 71)) | set(LADDER))
    for z in zs:
        Z = b"0" * z
        small = z <= SMALL
        huge = z >= 65533
        if small:
            bodies = [b"", b"1", b"9", b(U64_MAX), b(U64_MAX + 1), b(I64_MAX), b(I64_MAX + 1), b(G53), b(G53 + 1), b(10 ** 19), b(10 ** 19 - 1),
                      b(2 * 10 ** 19), b"1.5", b".5", b"1.25", b(G53) + b".0", b(G53 + 2) + b".0", b"18446744073709.551615", b"18446744073709.551616"]
        elif huge:
            bodies = [b"", b(U64_MAX), b(U64_MAX + 1), b"1.5"]
        else:
            bodies = [b"", b"1", b(U64_MAX), b(U64_MAX + 1), b(I64_MAX), b(I64_MAX + 1), b(G53 + 1), b"1.5", b"18446744073709.551616"]
        for pre in (b"", b"+", b"-"):
            for body in bodies:
                add(pre + Z + body, small)
        # zeros after the '.', before a digit / alone / after a digit (trailing); the same behind each sign
        fr = [b"0." + Z, b"0." + Z + b"5", b"1." + Z, b"1.5" + Z, b"-." + Z + b"1", b"." + Z]
        if small:
            fr += [b"+0." + Z + b"25", b"-1." + Z + b"5", Z + b"." + Z, Z + b"1." + Z + b"1", b"-" + Z + b"." + Z + b"1", b"0." + Z + b(G53),
                   b"0." + Z + b(U64_MAX), b"0." + Z + b(U64_MAX + 1)]
        for s in fr:
            add(s, small)
    return out


def digits_items(rng):
    out = []
    for n in sorted(set(range(0, 71)) | set(LADDER)):
        both = n <= SMALL
        pats = [b"9" * n, (b"1" + b"0" * (n - 1)) if n else b"", b"1" * n]
        if n <= 70:
            pats.append(rdigits(rng, n))
        strs = []
        for p in pats:
            strs += [p, b"-" + p, b"+" + p]
            if n < 65533 or p == pats[0]:
                strs += [b"." + p, p + b".5", b"1." + p, b"-0." + p]
        if n >= 2 and n < 65533:
            # the '.' inside the run, at the ends and next to the 8/16-byte boundaries
            for q in sorted({1, 7, 8, 9, 15, 16, 17, n // 2, n - 1}):
                if 0 < q < n:
                    strs.append(pats[1][:q] + b"." + pats[1][q:])
        for s in dict.fromkeys(strs):
            out.append((s, rng.randrange(0, 16), both))
    return out


def grid_items(rng, nrand):
    """integer digits d x fraction digits k; i = digits as one integer must stay <= u64::MAX and k <= 22 to be accepted"""
    out = []
    um = b(U64_MAX)
    for d in range(0, 22):
        for k in range(0, 27):
            n = d + k
            pats = [b"9" * n, (b"1" + b"0" * (n - 1)) if n else b"", (um + b"0" * n)[:n], (b"0" * n + um)[-n:] if n else b"", b"0" * n]
            pats += [rdigits(rng, n) for _ in range(nrand)]
            if n >= 16:
                pats.append((b(2 ** 53) + b"0" * n)[:n])
            for p in dict.fromkeys(pats):
                s = p[:d] + (b"." + p[d:] if k else b"")
                if k == 0 and not s:
                    continue
                out.append((s, 0, True))
                out.append((b"-" + s, 0, True))
            out.append((b"+" + pats[-1][:d] + (b"." + pats[-1][d:] if k else b""), 0, True))
    # zeros before the '.' (ladder) x fraction digits
    for z in [x for x in LADDER if x <= 4097]:
        for k in range(0, 26):
            fr = rdigits(rng, k, first_nonzero=False)
            for lead in (b"", b"1", b"12345"):
                s = b"0" * z + lead + (b"." + fr if k else b"")
                if s:
                    out.append((s, z % 16, z <= SMALL))
            out.append((b"-" + b"0" * z + b"." + fr if k else b"-" + b"0" * z + b"7", z % 16, z <= SMALL))
    return out


def garbage_items(rng):
    out = []
    fi = 0
    for n in range(1, 71):
        plain = (b"0" * n + b"123")[-n:]
        q = n // 2
        dotted = (b"0" * n + b"12")[-q:] + b"." + (b"5" + b"0" * n)[:n - q - 1] if n >= 3 else plain
        for p in range(n):
            for body in (plain, dotted):
                x = FOREIGN[fi % len(FOREIGN)]
                fi += 1
                out.append((body[:p] + x + body[p + 1:], p % 16, True))
        # one foreign byte appended / prepended to an in-range value of this length
        out.append((plain + b"x", 0, True))
        out.append((b"x" + plain, 0, True))
    for n in [x for x in LADDER if x > 70]:
        plain = b"0" * (n - 3) + b"123"
        dotted = b"0" * (n - 5) + b"12.50"
        ps = sorted({0, 1, 7, 8, 9, 15, 16, 17, n // 2, n - 17, n - 16, n - 15, n - 9, n - 8, n - 7, n - 2, n - 1})
        if n >= 65533:
            ps = [0, 8, n // 2, n - 9, n - 1]
        for p in ps:
            for body in ((plain, dotted) if n < 65533 else (plain,)):
                x = FOREIGN[fi % len(FOREIGN)]
                fi += 1
                out.append((body[:p] + x + body[p + 1:], p % 16, n <= SMALL))
    # runs: signs, dots, garbage after / before a value
    for k in LADDER:
        both = k <= SMALL
        strs = [b"-" * k + b"1", b"+" * k + b"1", b"-+" * k + b"1", b"1" + b"." * k, b"." * k + b"5", b"1.5" + b"x" * k, b"1" + b"x" * k, b"x" * k + b"1",
                b"1." + b"x" * k, b"-" + b" " * k + b"1", b"1" + b"\x00" * k, b"1." + b"5" + b"." * k]
        if k >= 65533:
            strs = strs[:2] + strs[3:7]
        for s in strs:
            if s:
                out.append((s, k % 16, both))
    return out


def align_cases(rng):
    cases = []
    um, um1, im = b(U64_MAX), b(U64_MAX + 1), b(I64_MAX)
    for n in range(0, 71):
        pats = [(b"0" * n + um)[-n:] if n else b"", (b"0" * n + um1)[-n:] if n else b"", (b"-" + (b"0" * n + im)[-(n - 1):]) if n >= 2 else b"-"[:n]]
        if n >= 3:
            q = rng.randrange(1, n - 1)
            pats.append((b"0" * n + rdigits(rng, min(q, 9)))[-q:] + b"." + (rdigits(rng, min(n - q - 1, 9), False) + b"0" * n)[:n - q - 1])
        if n >= 1:
            pats.append(rdigits(rng, n - 1) + b"x")
            pats.append((b"0" * n + b"77")[-(n - 1):] + b":" if n >= 2 else b":")
        for off in OFFS:
            for s in pats:
                cases.append("c11.at\t%s\t%d" % (hexs(s), off))
    for n in [x for x in LADDER if x > 70]:
        for off in (0, 1, 7, 8, 9, 15):
            cases.append("c11.at\t%s\t%d" % (hexs(b"0" * (n - 20) + um), off))
            cases.append("c11.at\t%s\t%d" % (hexs(b"-" + b"0" * (n - 5) + b"12.5"), off))
            if n < 65533:
                cases.append("c11.at\t%s\t%d" % (hexs(b"0" * (n - 20) + um1), off))
                cases.append("c11.at\t%s\t%d" % (hexs(b"0" * (n - 1) + b"/"), off))
    return cases


def decade_items(rng, per):
    out = []
    for n in range(1, 27):
        for first in b"123456789":
            for _ in range(per):
                s = bytes([first]) + rdigits(rng, n - 1, False)
                q = rng.randrange(0, n + 1)
                for t in (s, b"-" + s, b"+" + s, b"0" + s, s + b".0", s[:q] + b"." + s[q:], b"-" + s[:q] + b"." + s[q:]):
                    out.append((t, rng.randrange(0, 16), True))
    for k in range(0, 91):
        for dlt in (-1, 0, 1):
            v = 2 ** k + dlt
            for t in (b(v), b"-" + b(v), b(v) + b".0"):
                out.append((t, rng.randrange(0, 16), True))
    return out


def prefix_cases(rng):
    """(kind-less) list of ('u', data, start) / ('i', data)"""
    out = []
    starts = {0, 1, 9, U64_MAX, U64_MAX - 1, I64_MAX, I64_MAX + 1}
    for a in range(0, 20):
        starts.update([10 ** a, 10 ** a - 1, 10 ** a + 1, rng.randrange(10 ** a, min(10 ** (a + 1), 2 ** 64)), U64_MAX // 10 ** a, U64_MAX // 10 ** a + 1])
    starts = sorted(s for s in starts if 0 <= s <= U64_MAX)
    for st in starts:
        for n in range(0, 22):
            room = U64_MAX - st * 10 ** n
            bodies = {b"0" * n, b"9" * n, rdigits(rng, n, False)}
            if room >= 0:
                m = min(10 ** n - 1, room)
                bodies.add(b(m).rjust(n, b"0") if n else b"")
                if m + 1 < 10 ** n:
                    bodies.add(b(m + 1).rjust(n, b"0"))
            for body in bodies:
                out.append(("u", body + rng.choice([b"", b".5", b"x", b".", b"-1"]), st))
    for k in LADDER:
        Z = b"0" * k
        out += [("u", Z, 0), ("u", Z + b"7", 0), ("u", Z + b(U64_MAX), 0), ("u", Z + b(U64_MAX + 1), 0), ("u", Z, 1), ("u", Z + b".1", 18), ("u", b"12" + b"." * k, 3), ("u", b"12" + b"x" * k, 0)]
        for sg in (b"", b"-", b"+"):
            out += [("i", sg + Z), ("i", sg + Z + b"7.1.1"), ("i", sg + Z + b(I64_MAX)), ("i", sg + Z + b(I64_MAX + 1) + b"."), ("i", sg + b"1444" + b"." * k), ("i", sg * k + b"1")]
    for n in range(0, 24):
        for sg in (b"", b"-", b"+"):
            for body in (b"9" * n, (b"0" * n + b(I64_MAX))[-n:] if n else b"", (b"0" * n + b(I64_MAX + 1))[-n:] if n else b"", rdigits(rng, n)):
                out.append(("i", sg + body + rng.choice([b"", b".11.11", b"x", b"-"])))
    return out


def bool_cases():
    cases = []
    for k in LADDER:
        for s in (b"yes" + b"s" * k, b"no" + b"o" * k, b"y" * k, b"yes" + b"\x00" * k, b"no" + b" " * k, b" " * k + b"yes", b"\x00" * k + b"no", b"yes" * k, b"n" * k + b"o"):
            cases.append("c11.bool\t" + hexs(s))
            if k <= SMALL:
                cases.append("scalar.bool\t" + hexs(s))
    for off in OFFS:
        for s in (b"yes", b"no", b"ye", b"n", b"yess", b"noo", b"yes\x00\x00\x00\x00\x00", b"no\x00\x00\x00\x00\x00\x00"):
            cases.append("c11.at\t%s\t%d" % (hexs(s), off))
    return cases


def pub_pairs():
    out = []
    for n in LADDER:
        a = (b"abcdefghijklmnop" * (n // 16 + 1))[:n]
        out.append((a, a))
        out.append((a, a + b" "))
        out.append((a + b" ", a))
        big = n >= 65533
        ps = sorted({p for p in (0, 1, 7, 8, 9, 15, 16, 17, n // 2, n - 17, n - 16, n - 9, n - 8, n - 2, n - 1) if 0 <= p < n})
        if big:
            ps = [0, n // 2, n - 1]
        for p in ps:
            out.append((a, a[:p] + bytes([a[p] ^ 0x20]) + a[p + 1:]))          # == : one byte differs
            out.append((a[:p] + b"\xe9" + a[p + 1:], a))                       # is_ascii / Display: one non-ASCII byte
            if not big:
                out.append((a[:p] + b"\x80" + a[p + 1:], a[:p] + b"\x80" + a[p + 1:]))
                out.append((a[:p] + b"\\" + a[p + 1:], a))                     # Display: one backslash
        # runs of trailing blanks / backslashes / inner blanks
        for s in (b"a" + b" " * n, b"a" + b"\t\n\r " * (n // 4) + b" " * (n % 4), b"\\" * n, b"a" + b" " * n + b"b", b" " * n, b"a\\" * (n // 2)):
            if len(s) <= 65536 + 1 and not (big and s[:2] == b"a\\"):
                out.append((s, s))
    return out


# ------------------------------------------------------------------ running
_NZ = re.compile(rb"[1-9]")


def heavy(s, start=0):
    """more than 300 digits after the first non-zero digit: the spec functions of ScalarSpec.v take the decimal value of the
    whole digit span as one N before comparing it with 2^64 (quadratic, 4096 digits: 0.8 s); the state-machine models of
    Scalar.v / ScalarF64.v stop at the first overflow like the code (linear), so such a case is diffed against those only"""
    if len(s) <= 300:
        return False
    m = None if start else _NZ.search(s)
    k = 0 if start else (m.start() if m else len(s))
    return sum(1 for c in s[k:] if 48 <= c <= 57) > 300


def run_items(ctx, base, more, stream, items):
    cases = []
    for s, off, both in items:
        h = hexs(s)
        hv = heavy(s)
        if both or hv:
            cases += ["scalar.u64\t" + h, "scalar.i64\t" + h, "f64.parse\t" + h]
        if not hv:
            cases.append("c11.at\t%s\t%d" % (h, off))
    check_cases(ctx, base, more, stream, cases)
    ctx.count(stream, len(items))


def check_cases(ctx, base, more, stream, cases):
    impl, _ = ctx.correspond(stream, cases, nontrivial=lambda c, i: True)
    off = len(impl) - len(cases)
    allc = (ctx.corpus(stream) if off else []) + cases
    if off:
        ctx.corpus_cases -= off
    last_h, last_s = None, None
    for k, c in enumerate(allc):
        out = impl[k]
        f = c.split("\t")
        if f[1] != last_h:
            last_h, last_s = f[1], unhex(f[1])
        s = last_s
        if f[0] == "scalar.u64":
            base.check_int(ctx, "u64", s, c, out, base.expect_u64(s))
        elif f[0] == "scalar.i64":
            base.check_int(ctx, "i64", s, c, out, base.expect_i64(s))
        elif f[0] == "f64.parse":
            base.check_f64(ctx, s, c, out)
        elif f[0] in ("c11.bool", "scalar.bool"):
            e = {b"yes": "true", b"no": "false"}.get(s)
            if (e is None) != out.startswith("ERR") or (e is not None and out != e):
                ctx.fail("bool", "to_bool(%r...) (length %d) = %s" % (s[:40], len(s), out), [c], [out], e or "refusal")
        elif f[0] == "c11.at":
            parts = out.split(";")
            if len(parts) != 4:
                ctx.fail("at-crash", "conversions of %r... (length %d) on a slice at offset %s: %s" % (s[:40], len(s), f[2], out), [c], [out], "four results")
            else:
                more.check_four(ctx, base, s, c, parts)


def run_prefix_sizes(ctx, base, more):
    items = prefix_cases(random.Random(ctx.seed ^ 0xC116))
    cases = []
    for it in items:
        h = hexs(it[1])
        small = len(it[1]) <= 2 * SMALL
        hv = heavy(it[1], it[2] if it[0] == "u" else 0)
        if it[0] == "u":
            if not hv:
                cases.append("c11.u64t\t%s\t%d" % (h, it[2]))
            if small or hv:
                cases.append("scalar.u64t\t%s\t%d" % (h, it[2]))
        else:
            if not hv:
                cases.append("c11.i64t\t" + h)
            if small or hv:
                cases.append("scalar.i64t\t" + h)
    impl, _ = ctx.correspond("size_prefix", cases, nontrivial=lambda c, i: True)
    off = len(impl) - len(cases)
    for k, c in enumerate(cases):
        out = impl[off + k]
        f = c.split("\t")
        s = unhex(f[1])
        if f[0].endswith("i64t"):
            neg, v, rest, n, signed = more.ref_prefix(s, None, (b"-", b"+"))
            want = None if (not s or (n == 0 and not signed) or v > base.I64_MAX) else "%d %s" % (-v if neg else v, hexs(rest))
        else:
            st = int(f[2])
            _, v, rest, n, _ = more.ref_prefix(s, st, ())
            want = None if (n == 0 or v > base.U64_MAX) else "%d %s" % (v, hexs(rest))
        if out in ("PANIC", "ABORT", "HANG") or (want is None) != out.startswith("ERR") or (want is not None and out != want):
            ctx.fail("prefix-parse", "%s(%r...%s) (length %d) = %s" % (f[0].split(".")[1], s[:40], ", start=" + f[2] if len(f) > 2 else "", len(s), out[:80]), [c], [out],
                     (want or "refusal")[:200])
    ctx.count("size_prefix", len(items))


def run_pub_sizes(ctx, base, more):
    pairs = pub_pairs()
    for stream, sel, model in (("size_pub", [p for p in pairs if len(p[0]) <= 300], True), ("size_pub_long", [p for p in pairs if len(p[0]) > 300], False)):
        cases = ["c11.pub\t%s\t%s" % (hexs(a), hexs(bb)) for a, bb in sel]
        impl, _ = ctx.correspond(stream, cases, nontrivial=lambda c, i: True, model=model)
        off = len(impl) - len(cases)
        for k, c in enumerate(cases):
            out = impl[off + k]
            a, bb = sel[k]
            want = "|".join([hexs(a), str(all(x < 128 for x in a)).lower(), more.expect_display(a), "true", str(a == bb).lower(), "true"])
            if out != want:
                ctx.fail("scalar-pub", "as_bytes|is_ascii|Display|Debug|==|Copy of a Scalar of %d bytes (%r...) vs one of %d bytes: %s" % (len(a), a[:24], len(bb), out[:120]),
                         [c], [out[:400]], want[:400])
        ctx.count(stream, len(sel))


def run_sizes(ctx, base, more):
    old = sys.get_int_max_str_digits() if hasattr(sys, "get_int_max_str_digits") else None
    if old is not None:
        sys.set_int_max_str_digits(0)          # the oracles take int() of digit runs of up to 65536 bytes
    try:
        seed = ctx.seed
        run_items(ctx, base, more, "size_zeros", zeros_items(random.Random(seed ^ 0xC111)))
        run_items(ctx, base, more, "size_digits", digits_items(random.Random(seed ^ 0xC112)))
        run_items(ctx, base, more, "size_grid", grid_items(random.Random(seed ^ 0xC113), ctx.scale(1, 6)))
        run_items(ctx, base, more, "size_garbage", garbage_items(random.Random(seed ^ 0xC114)))
        ac = align_cases(random.Random(seed ^ 0xC115))
        check_cases(ctx, base, more, "size_align", ac)
        ctx.count("size_align", len(ac))
        run_items(ctx, base, more, "size_decades", decade_items(random.Random(seed ^ 0xC117), ctx.scale(2, 12)))
        run_prefix_sizes(ctx, base, more)
        bc = bool_cases()
        check_cases(ctx, base, more, "size_bool", bc)
        ctx.count("size_bool", len(bc))
        run_pub_sizes(ctx, base, more)
    finally:
        if old is not None:
            sys.set_int_max_str_digits(old)
