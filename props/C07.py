"""C07 Streaming text reader is independent of read chunking and buffer size."""
from vlib import hexs, unhex
from props import textgen as tg

RULE = ("inputs: generated token streams (keys/operators/values/braces, quoted strings with escapes, comments, CRLF, tabs, ';', BOM, "
        "@var/@[..], non-ASCII, word lengths straddling 8/9/16 bytes) and byte soups over the significant alphabet (incl. 0x08 0x0b 0xef 0xbb 0xbf); "
        "schedules: every composition of the length for inputs <= 11 bytes, all-1-byte, periodic 2..17, 1- and 2-cut, random; caps from the "
        "just-sufficient size (largest atom + look-ahead) to larger than the input, plus undersized caps; fresh and recycled buffers. "
        "non-trivial = at least one refill happened inside the input (schedule shorter than the input or cap smaller than it) and a token was produced. "
        "wave 4 (props/C07_more.py, audit/C07.md): atoms of every kind (quoted/escapes, unquoted, @word, @[..], comment, operator, blank run, BOM probe, truncated tails) sized "
        "1..33 bytes with caps need-1/need/need+1 under one schedule of every family; ALL 1- and 2-cut schedules of longer inputs; all compositions of targeted short inputs; "
        "NUL, lone CR, bytes >= 0x80, BOM at every offset; lists of calls next/read/read_bytes with position() after each call and into_parts at the end, on readers built by "
        "from_slice / new (32 KiB) / buffer_len / a dirty buffer / a buffer recycled from a real previous reader; judged by a python reference tokenizer independent of the model")
TRUSTED = ["std::io::Read contract is modelled by BufWin.rd_read (schedule of Data n | Fail events)",
           "props/C07_more.ref_tokenize: python reference tokenizer written from the format (oracle for the from_slice reader and for call lists)"]
ASSUMPTIONS = ["'the buffer can hold the longest token' is TextRef.need (Coq, extracted; proved tight by C07_stream_eq_slice + C07_stream_full); inputs with a byte >= 256 do not occur"]
# >>> w_buf (wave 5)
RULE += ("; wave 5 (props/bufstore.py, coq/theories/BufStore.v): buffer.rs at STORAGE level -- op lists (fill_buf over a scripted, possibly "
         "scribbling Read; advance; advance_to; get; window/position/consumed_data after every op) on the real BufferWindow for every "
         "capacity 0..40 over dirty buffers (bytes of the data alphabet), zeroed buffers, the bufferless slice window and buffers recycled from a "
         "previous window; schedules with short reads, reads at the end of the data (Ok(0)), full buffers, faults; extracted storage model = "
         "implementation, and a stream-level python oracle that keeps no buffer contents (window = slice of the delivered data at position)")
TRUSTED = TRUSTED + ["props/bufstore.Sim: offsets-only reference of BufferWindow (oracle bufstore-window / bufstore-position / bufstore-full)"]
# <<< w_buf
# >>> s_c07 (wave 6)
RULE += ("; wave 6 (props/C07_sizes.py, audit/C07.md 'Size dimensions'): every size dimension walked one at a time over 0 1 2 3 7 8 9 15 16 17 31 32 33 "
         "63 64 65 127 128 129 255 256 257 1023 1024 1025 4095 4096 4097 65533 65534 65535 65536 on an otherwise small input: the length of one atom "
         "of every kind (unquoted, @word, @[..], quoted, escape pairs, backslash runs, comments, truncated tails) x capacity need-1 / need / need+1 / 2^k / "
         "recycled hostile buffer x chunk sizes; blank runs (tab/newline SWAR path, spaces, CRLF, mixed) in front of every token kind; the window length "
         "0..26 at the moment of the next() call x token kind x length x leading tabs (measured by tr.trace); alignment with hostile bytes behind the "
         "window (tr.subslice / recycled buffer); capacities 2^k-1, 2^k, 2^k+1 up to 2^20; TokenReader::new with atoms needing 32767 / 32768 / 32769 "
         "bytes; 1..4100 refills inside one token, chunk sizes up to 65536; position() beyond 2^16 and 2^20, EF BB BF at a window start far from 0; "
         "0..65536 tokens in one stream; read_bytes(k) on the ladder x capacity k-1 / k / k+1; expected tokens known by construction, the extracted "
         "model runs the cases of <= 300 bytes (and every 4th of <= 1100 bytes), longer ones are judged by the oracles only")
TRUSTED = TRUSTED + ["props/C07_sizes.Doc: the expected tokens of a ladder input are recorded while its bytes are written (oracle by construction)"]
# <<< s_c07


def sched_str(s):
    return ",".join(str(x) for x in s) if s else "-"


def short(s):
    return s if len(s) <= 60 else s[:40] + "...(%d reads)" % (s.count(",") + 1)


def split_out(o):
    """tokens, terminal, position"""
    parts = o.split(" ")
    if not parts or not parts[-1].startswith("@"):
        return None
    return parts[:-2], parts[-2], parts[-1][1:]


def judge(ctx, inp, need, cap, sched, s_out, t_out, cases):
    """the property, on implementation outputs: stream result vs slice result"""
    if t_out in ("PANIC", "ABORT", "HANG") or "RUNAWAY" in t_out:
        ctx.fail("crash", "stream reader %s on %r cap=%d sched=%s" % (t_out, inp, cap, sched), cases, [s_out, t_out]); return
    S, T = split_out(s_out), split_out(t_out)
    if S is None or T is None:
        ctx.fail("format", "unparsable output", cases, [s_out, t_out]); return
    if cap >= need:
        if T[0] != S[0] or T[1] != S[1]:
            # classify the divergence for known-finding keys
            ctx.fail(classify(inp, S, T), "on %r stream (cap=%d, sched=%s) differs from slice: slice=%s stream=%s" % (inp, cap, short(sched), s_out, t_out), cases, [s_out, t_out], s_out)
        elif T[1] == "END" and T[2] != str(len(inp)):
            ctx.fail("position", "clean end at position %s, input length %d (%r, cap=%d, sched=%s)" % (T[2], len(inp), inp, cap, sched), cases, [s_out, t_out], "@%d" % len(inp))
    else:
        # buffer too small: equal to slice, or a proper prefix of the slice tokens followed by an error
        same = T[0] == S[0] and T[1] == S[1]
        prefix_err = T[1].startswith("ERR") and T[0] == S[0][:len(T[0])]
        if not (same or prefix_err):
            ctx.fail("undersized-" + ("clean-end" if T[1] == "END" else "split"), "on %r cap=%d < needed %d sched=%s: slice=%s stream=%s" % (inp, cap, need, short(sched), s_out, t_out), cases, [s_out, t_out], "prefix of slice tokens then ERR")


def classify(inp, S, T):
    return "stream-ne-slice"


def run(ctx):
    rng = ctx.rng
    # ---- per-function: leading_whitespace against its byte-wise meaning
    cases = []
    for _ in range(ctx.scale(3000, 40000)):
        k = rng.randrange(0, 9)
        b = bytearray(rng.choice(b"\t\n") for _ in range(k)) + bytearray(rng.choice(b"\x08\x0b\t\n a{\x0c\r\x00\xff=") for _ in range(8 - k))
        cases.append("util.lw\t%d" % int.from_bytes(bytes(b[:8]), "little"))
    impl, _ = ctx.correspond("leading_whitespace", cases, nontrivial=lambda c, i: i != "0")
    base = len(impl) - len(cases)
    for k, c in enumerate(cases):
        w = int(c.split("\t")[1]).to_bytes(8, "little")
        exp = 0
        while exp < 8 and w[exp] in (9, 10):
            exp += 1
        if impl[base + k] != str(exp):
            ctx.fail("lw-spec", "leading_whitespace(%s) = %s, leading tab/newline bytes = %d" % (w.hex(), impl[base + k], exp), [c], [impl[base + k]], str(exp))

    # ---- inputs
    inputs = []
    for _ in range(ctx.scale(500, 6000)):
        inputs.append(tg.gen_stream(rng))
    for _ in range(ctx.scale(500, 6000)):
        inputs.append(tg.gen_soup(rng))
    # targeted shapes around the refill sites
    inputs += [b'"a\\"b" x=y', b'"ab\\\\\\"c" x=y', b"\x08abc=1 foo=bar baz", b" \xef\xbb\xbfabc=1", b"\xef\xbb\xbfabc=1", b"abcdefghijklmnop=1",
               b"#abcdefghijklmnop\na=1", b"a=b #c", b"a=b #c\n", b"@[1+1]=x", b"a ?= b", b"a != b c>=1 d<=2 e==3 f<4 g>5", b"\x0babc=1 foo=bar baz",
               b"a=b\n\t\t\t\t\t\t\tc=d", b"x={ y }\n\n\n\n\t\t\t\t z", b"k=v" + b"\n" + b"\t" * 15 + b"w=1", b"k=v" + b"\n\n" + b"\t" * 22 + b"w=1", b"q" + b"\t" * 17 + b"=r", b'k="' + b"x" * 20 + b'\\"' + b"y" * 9 + b'" z', b"a={ b=c }", b"a=", b"a", b'"', b'"abc', b"{", b"}", b"", b" ", b"\xef", b"\xef\xbb"]
    short = [i for i in inputs if len(i) <= 11]
    ctx.count("inputs", len(inputs)); ctx.count("inputs_short_all_compositions", min(len(short), ctx.scale(12, 120)))

    cases, meta = [], []
    def add(inp, cap, sched, recycled=None):
        h = hexs(inp)
        c = "tr.stream\t%d\t%s\t%s" % (cap, sched_str(sched), h) + ("\t%d" % recycled if recycled is not None else "")
        cases.append(c); meta.append((inp, cap, sched))
    slice_cases = ["tr.slice\t%s" % hexs(i) for i in inputs]
    for idx, inp in enumerate(inputs):
        n = len(inp)
        need = tg.atoms(inp)
        caps = sorted(set([need, need + 1, need + 7, n + 1, n + 8, 64, 1024]))
        scheds = tg.schedules(rng, n, ctx.scale(3, 10))
        for s in scheds:
            add(inp, rng.choice(caps), s)
        add(inp, need, [1] * n)
        add(inp, need, [n or 1])
        add(inp, n + 9, [1] * n, recycled=rng.choice([0, 0x22, 0x5c, 0x7b, 0x41, 0xff]))
        add(inp, rng.choice(caps), rng.choice(scheds), recycled=rng.choice([0x7b, 0x7d, 0x22, 0x23, 0x5c]))
        # a read that ends exactly after 8 tab/newline bytes, in a recycled buffer whose stale bytes look like braces
        for p in range(1, max(1, n - 8)):
            if inp[p - 1] not in (9, 10) and all(x in (9, 10) for x in inp[p:p + 8]):
                run_len = 8
                while p + run_len < n and inp[p + run_len] in (9, 10):
                    run_len += 1
                for L in sorted(set([8, 16, 24, run_len - run_len % 8, run_len])):
                    if 8 <= L <= run_len:
                        for fill in (0x7d, 0x7b):
                            add(inp, n + 9, [p + L, n], recycled=fill)
                add(inp, n + 9, [p + 9, 1, n], recycled=0x7d)
                break
        # undersized buffers: never a clean end / split token
        for cap in set([max(1, need - 1), max(1, need // 2), 1, 2, 8]):
            if cap < need:
                add(inp, cap, rng.choice(scheds))
    for inp in short[:ctx.scale(12, 120)]:
        need = tg.atoms(inp)
        for comp in tg.compositions(len(inp)):
            add(inp, max(need, len(inp) + 1), comp)
    import vlib
    need_out = vlib.run_model(["tr.need\t%s" % hexs(i) for i in inputs])
    exact_need = {}
    for inp, o in zip(inputs, need_out):
        if o.isdigit():
            exact_need[inp] = int(o)
    ctx.count("exact_need_computed", len(exact_need))
    s_impl, _ = ctx.correspond("slice", slice_cases, nontrivial=lambda c, i: " " in i)
    sbase = len(s_impl) - len(slice_cases)
    smap = {}
    for k, inp in enumerate(inputs):
        smap[inp] = s_impl[sbase + k]
        o = s_impl[sbase + k]
        S = split_out(o)
        if o in ("PANIC", "ABORT", "HANG"):
            ctx.fail("crash", "slice reader %s on %r" % (o, inp), [slice_cases[k]], [o])
        elif S and S[1] == "END" and S[2] != str(len(inp)):
            ctx.fail("position", "slice reader ends cleanly at %s, length %d: %r" % (S[2], len(inp), inp), [slice_cases[k]], [o])
    nt = lambda c, i: ("U:" in i or "Q:" in i)
    t_impl, _ = ctx.correspond("stream", cases, nontrivial=nt)
    tbase = len(t_impl) - len(cases)
    for k, (inp, cap, sched) in enumerate(meta):
        # threshold: TextRef.need (Coq, proved tight: cap >= need => equal to the slice reader; 0 < cap < need => a prefix of the
        # slice tokens followed by BufferFull); props/textgen.atoms is only used to choose interesting capacities
        nd = exact_need.get(inp, tg.atoms(inp))
        judge(ctx, inp, nd, cap, sched_str(sched), smap[inp], t_impl[tbase + k], ["tr.slice\t%s" % hexs(inp), cases[k]])
        if inp in exact_need and 0 < cap < nd:
            T = split_out(t_impl[tbase + k])
            if T and T[1] != "ERR:101":
                ctx.fail("undersized-not-bufferfull", "on %r cap=%d < need %d the reader ended with %s instead of BufferFull" % (inp, cap, nd, T[1]), ["tr.slice\t%s" % hexs(inp), cases[k]], [smap[inp], t_impl[tbase + k]], "ERR:101")
    ctx.count("stream_cases", len(cases))
    # >>> a_c07 (wave 4): remaining entry points, constructions, schedule families, atom kinds -- see audit/C07.md
    import sys
    from props import C07_more
    C07_more.run(ctx, sys.modules[__name__])
    # <<< a_c07
    # >>> w_buf (wave 5): buffer.rs at storage level -- op lists on the real BufferWindow over dirty / recycled buffers
    # against the extracted storage model (coq/theories/BufStore.v) and a stream-level oracle; see props/bufstore.py
    from props import bufstore
    bufstore.run(ctx, "C07", 4000, 60000)
    # <<< w_buf
    # >>> s_c07 (wave 6): size / boundary ladders (one dimension at a time up to 65536, position() beyond 2^20, the default
    # 32 KiB buffer at need 32767..32769) -- see props/C07_sizes.py and audit/C07.md, "Size dimensions"
    from props import C07_sizes
    C07_sizes.run(ctx, sys.modules[__name__])
    # <<< s_c07
    shrink(ctx)


def diverges(inp):
    """does some small schedule / sufficient cap make stream != slice on the implementation? returns the witness or None"""
    import vlib
    n = len(inp)
    need = tg.atoms(inp)
    scheds = [[1] * n, [n or 1], [2] * (n // 2 + 1), [3] * (n // 3 + 1)] + [[c, n] for c in range(1, n)]
    cases = ["tr.slice\t%s" % hexs(inp)]
    for cap in (need, n + 9):
        for sc in scheds:
            cases.append("tr.stream\t%d\t%s\t%s" % (cap, sched_str(sc), hexs(inp)))
    out = vlib.run_sharded(vlib.harness_bin(), cases, shards=1)
    S = split_out(out[0])
    for c, o in zip(cases[1:], out[1:]):
        T = split_out(o)
        if S is None or T is None:
            return (c, out[0], o)
        both_err = T[1].startswith("ERR") and S[1].startswith("ERR") and T[0] == S[0]
        if (T[0] != S[0] or T[1] != S[1] or (T[1] == "END" and T[2] != str(n))) and not both_err:
            return (c, out[0], o)
    return None


def shrink(ctx):
    """replace the first stream-ne-slice failure by a minimised one"""
    import vlib
    for f in ctx.failures:
        if f["key"] == "stream-ne-slice":
            inp = unhex(f["cases"][0].split("\t")[1])
            small = vlib.ddmin_bytes(inp, lambda c: diverges(c) is not None)
            w = diverges(small)
            if w:
                f["cases"] = ["tr.slice\t%s" % hexs(small), w[0]]
                f["impl"] = [w[1], w[2]]
                f["what"] = "on %r %s differs from slice: slice=%s stream=%s" % (small, short(w[0].replace("\t", " ")), w[1], w[2])
                f["key"] = classify(small, None, None)
            break


def search(ctx):
    import random
    ctx.rng = random.Random(ctx.seed + 1)
    old = ctx.tier
    ctx.tier = "thorough"
    try:
        run(ctx)
    finally:
        ctx.tier = old


CLAIM = {
    "text": "Coq theorems over a literal Gallina model of text/reader.rs + buffer.rs (window/carry-over/offset arithmetic, SWAR fast paths bit-exact, BOM state, refill call sites) tied to the code by running model and implementation on the same (input, schedule, capacity) triples; the property itself (stream = slice for every schedule and sufficient capacity, position = length, undersized buffer => error not split/clean end) is evaluated on the implementation for every case",
    "note": "Trusted: Coq kernel, tools/gen_tables.py, extraction, harness; std::io::Read modelled as an event schedule. See evidence coverage.theorems for what is proved; remaining clauses are carried by correspondence + oracle.",
    "technique": "machine-checked proof in Coq over an executable model + model/implementation correspondence by extraction",
}
