"""C20 Underlying I/O failures surface as errors (reader-based deserializers part)."""
import struct
from props import dedoc as D
from props.dedoc import hx

RULE = ("documents (text and binary renderings, ghost {} objects included) x read schedules {fill, 1 byte, chunks} x buffer sizes x a fault "
        "injected at EVERY read-call index of the fault-free run x {one-shot, persistent}, through from_*_reader / deserialize_reader "
        "into full and partial shapes; oracle: a run that returns Ok returns the fault-free value, a persistent fault before the last "
        "needed read ends in an I/O error, nothing panics.  non-trivial = the fault was actually hit (fault index < calls of the clean run)")
TRUSTED = ["std::io::Read is modelled by the scripted reader of the harness (Data n | Fail events; 0 only at end of data)"]
ASSUMPTIONS = ["this file covers the two serde reader deserializers; TokenReader::{next,read,skip_container,read_bytes} and BufferWindow::fill_buf are "
               "the buffer/reader families' (C07/C08) streams",
               "documents follow the C02/C04 generator assumptions (no escapes: chunked reads through an escaped quote are finding J)"]

G_DOC = None


def g_doc():
    # a={ {} b=1 } c=2   (binary): DESIGN 7-G
    s = lambda b: D.bstr(b, False)
    i32 = lambda v: D.tok(0x0c) + struct.pack("<i", v)
    return s(b"a") + D.EQ + D.OPEN + D.OPEN + D.CLOSE + s(b"b") + D.EQ + i32(1) + D.CLOSE + s(b"c") + D.EQ + i32(2)


def run(ctx):
    rng = ctx.rng
    nt = lambda c, i: True
    _fail = ctx.fail

    def fail(key, *a, **kw):
        ctx.count("fail_" + key)
        if not key.startswith("G-") or ctx.dist["fail_" + key] <= 5:
            _fail(key, *a, **kw)
    base_cases = []     # (kind-args-prefix, suffix args after path) for the clean run
    specs = []
    n = ctx.scale(160, 1200)
    for _ in range(n):
        doc = D.gen_doc(rng, ops=False, allow_escape=False, i64=False)
        if rng.random() < 0.5:
            enc = rng.choice(["w1252", "utf8"])
            sh = D.gen_shape(rng, [doc], dict(mode="text", full=rng.random() < 0.4, mishint=0.0, prop=False, any=False, root=True))
            if D.captures_header(sh, doc) or D.expected(sh, doc, D.Mode("text", enc=enc)) == "ERR:unfit":
                continue
            txt = D.render_text(doc, rng, enc)
            mt = D.max_token_len(doc, enc)
            buf = rng.choice([mt, mt + 7, 64 + mt, 32768])
            sched = rng.choice(["-", "1*", "3,5*", "7*", "16,1*"])
            specs.append(("text", buf, sched, [enc, D.shape_str(sh), hx(txt)], []))
        else:
            fl = rng.choice(["eu4", "raw"])
            ids = doc["ids"]
            sh = D.gen_shape(rng, [doc], dict(mode="bin", full=rng.random() < 0.4, mishint=0.0, prop=False, any=False, root=True))
            M = D.Mode("bin", flavor=fl, strategy="ignore", known=set(ids), ids=ids)
            if D.expected(sh, doc, M) == "ERR:unfit":
                continue
            b = D.render_bin(doc, fl)
            mt = max(32, D.max_token_len(doc, D.flavor_enc(fl)) + 4)
            buf = rng.choice([mt, mt + 7, 64 + mt, 32768])
            sched = rng.choice(["-", "1*", "3,5*", "7*", "16,1*"])
            specs.append(("bin", buf, sched, [D.shape_str(sh), hx(b)], ["ignore", D.resolver_spec(ids, set(ids)), fl]))
    # the DESIGN 7-G document, every schedule
    gsh = "struct(%s:struct(%s:i32),%s:i32)" % (hx("a"), hx("b"), hx("c"))
    for sched in ["-", "1*", "2*", "4*", "6*"]:
        specs.append(("bin", 32, sched, [gsh, hx(g_doc())], ["error", "map:-", "eu4"]))

    def case(kind, spec, sched_suffix, calls=False):
        fam, buf, sched, tail, pre = spec
        path = "reader:%d:%s%s" % (buf, sched, sched_suffix)
        k = ("de.calls." if calls else "de.") + fam
        return "\t".join([k, path] + pre + tail)

    clean = [case(None, s, "") for s in specs]
    callc = [case(None, s, "", calls=True) for s in specs]
    impl_clean, _ = ctx.correspond("clean", clean, nontrivial=nt, model=False)
    impl_calls, _ = ctx.correspond("calls", callc, nontrivial=nt, model=False)
    bc, bk = len(impl_clean) - len(clean), len(impl_calls) - len(callc)
    fcases, fmeta = [], []
    for j, s in enumerate(specs):
        ref = impl_clean[bc + j]
        try:
            ncalls = int(impl_calls[bk + j].split()[0].split("=")[1])
        except (ValueError, IndexError):
            continue
        ctx.count("read_calls", ncalls)
        idx = list(range(ncalls)) if ncalls <= ctx.scale(40, 400) else sorted(set(rng.randrange(ncalls) for _ in range(ctx.scale(40, 400))))
        for k in idx:
            for kindf in ("F", "P"):
                fcases.append(case(None, s, "@%d%s" % (k, kindf)))
                fmeta.append((ref, k, kindf, ncalls, s[0]))
    impl, _ = ctx.correspond("faults", fcases, nontrivial=nt, model=False)
    b0 = len(impl) - len(fcases)
    for k, (ref, idx, kindf, ncalls, fam) in enumerate(fmeta):
        o = impl[b0 + k]
        if o in ("PANIC", "ABORT", "HANG"):
            fail("fault-panic", "fault at read call %d (%s): %s" % (idx, kindf, o), [fcases[k]], [o], "ERR:io")
        elif not o.startswith("ERR"):
            if o != ref:
                key = "G-bin-stream-discarded-read" if fam == "bin" else "fault-wrong-value"
                fail(key, "fault at read call %d (%s) is swallowed: the call returns %s, the fault-free run returns %s" % (idx, kindf, o[:150], ref[:150]), [fcases[k]], [o], ref)
            elif kindf == "P" and idx < ncalls - 1:
                # a persistent fault strictly before the last read call of a clean run must surface, unless the
                # remaining reads only probe for end of data
                ctx.count("persistent_ok_same_value")
                # >>> a_c20 (wave 4): "persistent failures always end in an error": read call idx of the fault-free run
                # is issued in this run too (the runs are identical up to it) and fails, and so does every later one
                fail("persistent-swallowed", "persistent fault from read call %d of %d on: the call still returns Ok (%s)" % (idx, ncalls, o[:100]), [fcases[k]], [o], "ERR:io")
                # <<< a_c20
        elif o != "ERR:io" and o != ref:
            key = "G-bin-stream-discarded-read" if fam == "bin" else "fault-other-error"
            fail(key, "fault at read call %d (%s) surfaces as %s instead of an I/O error (fault-free: %s)" % (idx, kindf, o, ref[:100]), [fcases[k]], [o], "ERR:io")

    # >>> a_c20 (wave 4): the extracted walk model of the binary reader deserializer (BinDeReader.deser_reader, the
    # function Props/C20_dewalk.v is stated over) run on the SAME fault cases: schedule with Fail events on both sides
    bde = ["c20.bde" + c[len("de.bin"):] for c in fcases if c.startswith("de.bin\t")]
    ctx.correspond("bin_de_fault_model", bde, nontrivial=lambda c, i: i == "ERR:io")
    # <<< a_c20

    # >>> w_tdef (wave 5): the extracted walk model of the TEXT reader deserializer (TextDeReader.deser_text_reader, the
    # function Props/C20_textde.v is stated over: TextDeStream.sde_root over the byte-level reader with Fail events)
    # run on the SAME fault cases, plus directed documents (ghost objects, ignored containers, tuples, operators,
    # quoted scalars, `==`) under 1-/2-/3-byte reads with a fault at every read-call index
    tde = ["c20.tde" + c[len("de.text"):] for c in fcases if c.startswith("de.text\t")]
    ctx.correspond("text_de_fault_model", tde, nontrivial=lambda c, i: i == "ERR:io")
    H = lambda b: hx(b if isinstance(b, bytes) else b.encode())
    directed = [
        (b'a=1 b={1 2 3} {} c={x=1 y=2} d="q r" e=yes\n', "struct(%s:i32,%s:seq(i32),%s:ign,%s:str,%s:bool)" % tuple(H(k) for k in "abcde")),
        (b'a={1 2} {} b={ {} k=v } c=3', "map(ign)"),
        (b't={1 2} u={3 4} v=1', "struct(%s:tup(i32,i32),%s:tup(i32,i32),%s:i32)" % (H("t"), H("u"), H("v"))),
        (b't={1 2} u={3 4 5}', "struct(%s:tup(i32,i32),%s:tup(i32,i32))" % (H("t"), H("u"))),
        (b'a>=5 b<3 c==4 d=7', "map(prop(i32))"),
        (b'a = b c== d e = = f', "map(str)"),
        (b'\xef\xbb\xbfa="x y" # c\nb=@[1+2] c={}', "map(any)"),
        (b'a=1 a=2 b={a=1} a=3', "struct(%s*:i32,%s:opt(map(i32)))" % (H("a"), H("b"))),
        (b'k=rgb {1 2 3} m=hsv{ 1 2 }', "map(any)"),
        (b'a="unterminated', "map(str)"),
        (b'a={1 2', "map(seq(i32))"),
    ]
    dcalls, dmeta = [], []
    for txt, shp in directed:
        for enc in ("w1252", "utf8"):
            for buf, sched in ((16, "1*"), (16, "2*"), (24, "3,1*"), (64, "-")):
                dcalls.append("\t".join(["c20.tde.calls", "reader:%d:%s" % (buf, sched), enc, shp, hx(txt)]))
                dmeta.append((txt, shp, enc, buf, sched))
    ic, mc = ctx.correspond("text_de_calls_model", dcalls, nontrivial=lambda c, i: i.endswith("ok"))
    bcalls = len(ic) - len(dcalls)
    # fault-free values of the directed documents: short reads of any size never change the result (oracle), model = code
    dclean = [c.replace("c20.tde.calls", "c20.tde", 1) for c in dcalls]
    icl, _ = ctx.correspond("text_de_directed_clean", dclean, nontrivial=lambda c, i: not i.startswith("ERR"))
    bcl = len(icl) - len(dclean)
    cleanv = {}
    for j, m in enumerate(dmeta):
        o = icl[bcl + j]
        cleanv[m] = o
        ref = cleanv.setdefault((m[0], m[1], m[2]), o)
        if o in ("PANIC", "ABORT", "HANG"):
            fail("fault-panic", "fault-free run: %s" % o, [dclean[j]], [o], ref)
        elif o != ref:
            fail("short-read-changes-value", "buffer %d, schedule %s gives %s; 1-byte reads through a 16-byte buffer give %s" % (m[3], m[4], o[:120], ref[:120]), [dclean[j]], [o], ref)
    dfault = []
    for j, (txt, shp, enc, buf, sched) in enumerate(dmeta):
        o = ic[bcalls + j]
        # number of read calls of the fault-free run (successful runs print it; failing ones: bound by the size)
        try:
            ncalls = int(o.split()[0].split("=")[1]) if o.endswith("ok") else len(txt) + 3
        except (ValueError, IndexError):
            continue
        ks = list(range(ncalls)) if ncalls <= ctx.scale(30, 400) else sorted(set(rng.randrange(ncalls) for _ in range(ctx.scale(30, 400))))
        for k in ks:
            for kf in ("F", "P"):
                dfault.append("\t".join(["c20.tde", "reader:%d:%s@%d%s" % (buf, sched, k, kf), enc, shp, hx(txt)]))
            dfault.append("\t".join(["c20.tde.calls", "reader:%d:%s@%dF" % (buf, sched, k), enc, shp, hx(txt)]))
    idf, _ = ctx.correspond("text_de_directed_faults", dfault, nontrivial=lambda c, i: i in ("ERR:io", "err"))
    bdf = len(idf) - len(dfault)
    # oracle on the real code (C20_text_deser_reader_fault_at_k): a run with a failure at read call k that still returns
    # Ok has issued at most k read calls
    for j, c in enumerate(dfault):
        o = idf[bdf + j]
        if c.startswith("c20.tde\t"):
            # a run that returns Ok returns the fault-free value; any other outcome is the I/O error or the fault-free error
            a = c.split("\t")
            _, bufs, schedk = a[1].split(":")
            ref = cleanv.get((bytes.fromhex(a[4]) if a[4] != "-" else b"", a[3], a[2]))
            if ref is None:
                continue
            if o in ("PANIC", "ABORT", "HANG"):
                fail("fault-panic", "directed document, %s: %s" % (a[1], o), [c], [o], "ERR:io")
            elif not o.startswith("ERR"):
                if o != ref:
                    fail("fault-wrong-value", "directed document, %s: the fault is swallowed: the call returns %s, the fault-free run returns %s" % (a[1], o[:150], ref[:150]), [c], [o], ref)
            elif o != "ERR:io" and o != ref:
                fail("fault-other-error", "directed document, %s: surfaces as %s instead of an I/O error (fault-free: %s)" % (a[1], o, ref[:100]), [c], [o], "ERR:io")
        if c.startswith("c20.tde.calls") and o.endswith("ok"):
            k = int(c.split("\t")[1].split("@")[1][:-1])
            ncall = int(o.split()[0].split("=")[1])
            if ncall > k:
                fail("fault-reached-but-ok", "failure at read call %d, the run issued %d read calls and still returned Ok" % (k, ncall), [c], [o], "err")
    # <<< w_tdef


def search(ctx):
    import random
    ctx.rng = random.Random(ctx.seed + 1)
    old = ctx.tier
    ctx.tier = "thorough"
    try:
        run(ctx)
    finally:
        ctx.tier = old


CLAIM = {
    "text": "both serde reader deserializers are run with a fault injected at every read-call index (one-shot and persistent) under several schedules and buffer sizes; a call that returns Ok must return the fault-free value and any other outcome must be the I/O error; Coq: see coverage.theorems",
    "note": "Coq side: a small model of the two streaming MapAccess key loops (propagate vs. discard of the read result) with the soundness statement for the text loop and the refutation witness for the binary loop (finding G). BufferWindow/TokenReader fault behaviour is the buffer family's.",
    "technique": "machine-checked proof in Coq over an executable model + fault-injection oracle on the implementation",
}


def run_part(ctx):
    run(ctx)
