"""C19 wave 4 (a_c19), text half: the STRICT reading of "consistent with the complete document" and the entry points behind the tape.

1. strict tape oracle (stream text_special_ends, model = extracted TextTape.parse): the Python transcription of
   TextTrunc.consistent_tape (the predicate of C19_trunc_text / C19_trunc_generic) evaluated on the implementation's tape of
   EVERY prefix against td.flatten(doc), the tape the abstract document denotes:
       t is F cut short (all tokens but the last literally F's, absolute indices included; the last one equal, or an unquoted
       scalar that is a non-empty prefix of the unquoted scalar / header at that place), or
       exactly one top-level container was open and was closed by the parser as a non-mixed Object:
       t = F[0..p) ++ O:<len-1>:0 :: body ++ [E:p], F[p] an OBJECT token (stricter than the Coq predicate, which says "a
       container": the code never closes an array for the user -- inside an array the state is ArrayValue, not Key -- so an
       auto-closed array, `a={1 2 3` read as the object 1=2 3=?, would be fabricated structure), body = F[p+1..) cut short.
   The older oracle of props/C19_text.py leaves the last TWO top-level items free (a whole nested container may differ);
   this one leaves exactly one token free.
   Inputs: the general generator plus DIRECTED documents whose last top-level field ends in each of the constructs the
   general generator rarely puts last: a parameter block (value / object, defined / undefined), an `rgb {..}` / `hsv {..}`
   header, an `@[..]` expression (as value and as key), an `@var`, a quoted string with escapes, an object / array / mixed
   container (the auto-close candidates), each behind an optional BOM and followed by nothing / white space / a comment with
   and WITHOUT a final newline.
2. the same directed documents through the token readers (tr.slice / tr.stream) with the oracle of props/C19_lex.py.
3. stream text_views (kind c19.view, no model): DOM readers and `json()` of the truncated parse.  Oracle, independent of any
   model: the top-level fields / JSON members of the prefix are those of the complete document; only the last one (the field
   being cut) may differ, and then its key is the original key; when the last field's value is an object in both, its inner
   fields but the last are the original's too (the auto-closed container).
"""
import json
from vlib import hexs
from props import textdoc as td

CRASH = ("PANIC", "ABORT", "HANG")
CONT = ("A:", "O:")


# ------------------------------------------------------------------ directed documents
def _last_fields(rng):
    """candidate LAST top-level fields, one per construct"""
    U = lambda b: ("s", "U", b)
    Q = lambda b: ("s", "Q", b)
    key = lambda: rng.choice([U(b"k"), U(b"key_1"), Q(b"q k"), U(b"x" * 16)])
    arr = lambda items: ("a", items)
    out = [
        ("param-value", ("p", b"p", False, ("v", b"foo"))),
        ("param-undef-value", ("p", b"param_1", True, ("v", b"y" * 15))),
        ("param-object", ("p", b"p", False, ("o", [("f", U(b"k"), "=", U(b"v")), ("f", U(b"k2"), "=", Q(b"w w"))]))),
        ("param-undef-object", ("p", b"x" * 14, True, ("o", [("f", U(b"key_1"), "=", U(b"1"))]))),
        ("header-rgb", ("f", key(), "=", ("h", b"rgb", arr([U(b"1"), U(b"22"), U(b"255")])))),
        ("header-hsv", ("f", key(), "=", ("h", b"hsv", arr([U(b"0.5"), U(b"1.0"), U(b"0.25")])))),
        ("header-list", ("f", key(), "=", ("h", b"LIST", arr([U(b"a"), U(b"b")])))),
        ("expr-value", ("f", key(), "=", U(b"@[1+2]"))),
        ("expr-space-value", ("f", key(), "=", U(b"@[a b]"))),
        ("expr-key", ("f", U(b"@[a b]"), "=", U(b"1"))),
        ("var-value", ("f", key(), "=", U(b"@var"))),
        ("var-key", ("f", U(b"@var"), "=", U(b"12"))),
        ("quoted-escapes", ("f", key(), "=", Q(b'a\\"b \\\\ #{}= c'))),
        ("quoted-empty", ("f", key(), "=", Q(b""))),
        ("operator", ("f", key(), rng.choice(["<", "<=", ">", ">=", "!=", "==", "?="]), U(b"100"))),
        ("object", ("f", key(), "=", ("o", [("f", U(b"a"), "=", U(b"bcd")), ("f", Q(b"e"), "=", Q(b"f g"))], []))),
        ("object-noeq", ("f", key(), None, ("o", [("f", U(b"a"), "=", U(b"bcd")), ("f", U(b"e"), ">", U(b"5"))], []))),
        ("object-nested", ("f", key(), "=", ("o", [("f", U(b"a"), "=", ("o", [("f", U(b"b"), "=", U(b"c"))], [])), ("f", U(b"d"), "=", U(b"e"))], []))),
        ("object-header-inside", ("f", key(), "=", ("o", [("f", U(b"color"), "=", ("h", b"rgb", arr([U(b"1"), U(b"2"), U(b"3")]))), ("f", U(b"z"), "=", U(b"1"))], []))),
        ("object-param-inside", ("f", key(), "=", ("o", [("f", U(b"a"), "=", U(b"1")), ("p", b"p", False, ("v", b"foo")), ("f", U(b"b"), "=", U(b"2"))], []))),
        ("object-tail", ("f", key(), "=", ("o", [("f", U(b"a"), "=", U(b"b"))], [U(b"t1"), U(b"t2")]))),
        ("array", ("f", key(), "=", arr([U(b"1"), U(b"22"), Q(b"3 3"), U(b"4444")]))),
        ("array-of-objects", ("f", key(), "=", arr([("o", [("f", U(b"a"), "=", U(b"1"))], []), ("o", [("f", U(b"b"), "=", U(b"2"))], [])]))),
        ("array-kv", ("f", key(), "=", ("ak", [U(b"1"), U(b"2")], [("f", U(b"a"), "=", U(b"b"))]))),
        ("empty-array", ("f", key(), "=", arr([]))),
        ("long-scalar", ("f", key(), "=", U(b"z" * 16))),
        ("long-scalar-33", ("f", U(b"w" * 17), "=", U(b"v" * 33))),
    ]
    return out


TAILS = [b"", b"", b" ", b"\n", b"\r\n", b"\t", b" # end", b"#", b" # a comment = { \"\n", b"\n# c1\n# c2", b" ;", b"\n\n"]


def special_docs(rng, per_kind):
    """[(tag, doc, data)]: 0..2 generated fields, then the directed last field, then a tail"""
    out = []
    for _ in range(per_kind):
        for tag, last in _last_fields(rng):
            doc = td.gen_doc(rng, depth=rng.choice([0, 1, 2]), n=rng.choice([0, 1, 1, 2])) + [last]
            body = td.render(doc, rng, rng.choice(td.STYLES), bom=rng.random() < 0.25)
            # td.render ends with an optional gap; drop it so that the tail decides how the document ends
            data = body.rstrip(b" \t\r\n;") if rng.random() < 0.7 else body
            if b"#" in data[data.rfind(b"\n") + 1:] and not data.endswith(b"\n"):
                data = body       # the stripped gap ended a comment line: keep it
            data += rng.choice(TAILS)
            if len(data) <= 220:
                out.append((tag, doc, data))
    return out


# ------------------------------------------------------------------ strict tape oracle
def _hexb(t):
    h = t.split(":", 1)[1]
    return "" if h == "-" else h


def tok_cut(x, y):
    if x == y:
        return True
    if x[:2] == "U:" and y[:2] in ("U:", "H:"):
        a, b = _hexb(x), _hexb(y)
        return b.startswith(a) and (a != "" or b == "")
    return False


def prefix_cut(t, F):
    if not t:
        return True
    n = len(t) - 1
    return n < len(F) and t[:n] == F[:n] and tok_cut(t[n], F[n])


def consistent_tape(F, t):
    """TextTrunc.consistent_tape, returns None or a reason"""
    if prefix_cut(t, F):
        return None
    if t and t[-1].startswith("E:"):
        p = int(t[-1][2:])
        if 0 < p < len(t) - 1 and p < len(F) and t[p] == "O:%d:0" % (len(t) - 1) and t[:p] == F[:p] and F[p][:2] == "O:" \
                and prefix_cut(t[p + 1:-1], F[p + 1:]):
            return None
        return "neither the complete tape cut short nor one auto-closed top-level container (the parser closed the container at %d)" % p
    n = min(len(t), len(F))
    for i in range(n):
        if t[i] != F[i]:
            return "token %d is %s, the complete document has %s there%s" % (i, t[i], F[i], "" if i == len(t) - 1 else " (not the last token)")
    return "%d tokens, the complete document has %d" % (len(t), len(F))


def toks_of(o):
    """'ok <bom> <tokens>' -> token list"""
    parts = o.split(" ", 2)
    return parts[2].split(" ") if len(parts) > 2 and parts[2] != "-" else []


def strict_tape(ctx, stream, docs, counter):
    cases, meta = [], []
    for tag, doc, data in docs:
        F = td.flatten(doc)
        F = F.split(" ") if F != "-" else []
        for k in range(len(data) + 1):
            cases.append("tt.parse\t%s" % hexs(data[:k])); meta.append((tag, data, k, F))
    impl, _ = ctx.correspond(stream, cases, nontrivial=lambda c, i: i.startswith("ok") and len(i) > 6)
    base = len(impl) - len(cases)
    whole_ok = {}
    for j, (tag, data, k, F) in enumerate(meta):
        if k == len(data):
            o = impl[base + j]
            whole_ok[data] = o.startswith("ok ") and toks_of(o) == F
            if not whole_ok[data]:
                # the complete document is not parsed to its own tape: C01's business (its oracle reports it); no reference here
                ctx.count(counter + "_skipped_docs")
    for j, (tag, data, k, F) in enumerate(meta):
        o = impl[base + j]
        if o in CRASH:
            ctx.fail("text-trunc-crash", "parse of %r cut at %d: %s" % (data, k, o), [cases[j]], [o]); continue
        if not o.startswith("ok ") or not whole_ok.get(data):
            continue
        ctx.count("accepted_" + tag)
        why = consistent_tape(F, toks_of(o))
        if why:
            ctx.fail("text-trunc-strict", "%r (%s) cut at %d parses to %s: %s; complete tape %s" % (data, tag, k, o[:200], why, " ".join(F)[:200]),
                     [cases[j]], [o], " ".join(F))
    ctx.count(counter, len(cases))


# ------------------------------------------------------------------ DOM / JSON of the truncated parse
def split_top(s, seps):
    """split at the characters of `seps` that are outside every bracket; returns [(sep_before, piece)]"""
    out, depth, cur, sep = [], 0, "", ""
    for ch in s:
        if ch in "{[(":
            depth += 1
        elif ch in "}])":
            depth -= 1
        if depth == 0 and ch in seps:
            out.append((sep, cur)); cur, sep = "", ch
        else:
            cur += ch
    out.append((sep, cur))
    return out


def dom_fields(dom):
    """top-level fields (the part before a top-level `^`)"""
    if dom == "-":
        return []
    fields = []
    for sep, piece in split_top(dom, ";^"):
        if sep == "^":
            break
        fields.append(piece)
    return fields


def field_parts(f):
    p = [x for _, x in split_top(f, "~")]
    return p if len(p) == 3 else None


def inner_fields(v):
    """fields of an object value `{f,f^v,v}`"""
    if not (v.startswith("{") and v.endswith("}")):
        return None
    out = []
    for sep, piece in split_top(v[1:-1], ",^"):
        if sep == "^":
            break
        if piece:
            out.append(piece)
    return out


def judge_fields(got, ref, what):
    """got / ref: lists of comparable items with a .key; returns a reason or None"""
    if len(got) > len(ref):
        return "%d %s, the complete document has %d" % (len(got), what, len(ref))
    for i in range(len(got) - 1):
        if got[i] != ref[i]:
            return "%s %d is %s, the complete document has %s (not the one being cut)" % (what, i, str(got[i])[:80], str(ref[i])[:80])
    return None


def parse_view(o):
    p = o.split(" | ")
    if len(p) != 3 or not p[0].startswith("tape=") or not p[1].startswith("dom=") or not p[2].startswith("json="):
        return None
    return p[0][5:], p[1][4:], p[2][5:]


def json_pairs(hexjson):
    txt = bytes.fromhex(hexjson if hexjson != "-" else "").decode("utf-8")      # invalid UTF-8 raises: reported by the caller
    v = json.loads(txt, object_pairs_hook=lambda pairs: ("obj", pairs))
    return v


def run_views(ctx, docs):
    cases, meta = [], []
    for tag, doc, data in docs:
        enc = "u" if data.startswith(b"\xef\xbb\xbf") else "w"
        for k in range(len(data) + 1):
            cases.append("c19.view\t%s\t%s" % (enc, hexs(data[:k]))); meta.append((tag, data, k))
    impl, _ = ctx.correspond("text_views", cases, model=False, nontrivial=lambda c, i: i.startswith("tape=") and "~" in i)
    base = len(impl) - len(cases)
    full = {}
    for j, (tag, data, k) in enumerate(meta):
        if k == len(data):
            v = parse_view(impl[base + j])
            if v:
                full[data] = v
    for j, (tag, data, k) in enumerate(meta):
        o = impl[base + j]
        if o in CRASH:
            ctx.fail("view-trunc-crash", "DOM / JSON of %r cut at %d: %s" % (data, k, o), [cases[j]], [o]); continue
        if o == "ERR" or data not in full:
            continue
        v = parse_view(o)
        if v is None or "MISMATCH" in o or "NOBODY" in o or "DEEP" in o:
            ctx.fail("view-trunc-format", "DOM / JSON view of %r cut at %d: %s" % (data, k, o[:200]), [cases[j]], [o]); continue
        ref = full[data]
        # ---- DOM readers
        gf, rf = dom_fields(v[1]), dom_fields(ref[1])
        bad = judge_fields(gf, rf, "top-level DOM fields")
        if not bad and gf:
            a, b = field_parts(gf[-1]), field_parts(rf[len(gf) - 1])
            if a is None or b is None:
                bad = "unreadable field %s" % gf[-1][:80]
            elif a[0][0] != b[0][0] or not b[0][1:].replace("-", "").startswith(a[0][1:].replace("-", "")):
                bad = "the key of the last field is %s, the complete document has %s" % (a[0], b[0])
            else:
                ia, ib = inner_fields(a[2]), inner_fields(b[2])
                if ia is not None and ib is not None:
                    bad = judge_fields(ia, ib, "fields of the auto-closed container")
        if bad:
            ctx.fail("view-trunc-dom", "%r (%s) cut at %d, DOM readers: %s; dom=%s complete dom=%s" % (data, tag, k, bad, v[1][:160], ref[1][:160]), [cases[j]], [o], ref[1]); continue
        # ---- JSON
        try:
            jg, jr = json_pairs(v[2]), json_pairs(ref[2])
        except Exception as e:
            ctx.fail("view-trunc-json-invalid", "%r cut at %d: json() is not valid JSON / UTF-8 (%s)" % (data, k, e), [cases[j]], [o]); continue
        if not (isinstance(jg, tuple) and isinstance(jr, tuple)):
            continue
        bad = judge_fields(jg[1], jr[1], "top-level JSON members")
        if not bad and jg[1]:
            ka, kb = jg[1][-1][0], jr[1][len(jg[1]) - 1][0]
            if not kb.startswith(ka):
                bad = "the key of the last JSON member is %r, the complete document has %r" % (ka, kb)
            va, vb = jg[1][-1][1], jr[1][len(jg[1]) - 1][1]
            if not bad and isinstance(va, tuple) and isinstance(vb, tuple):
                bad = judge_fields(va[1], vb[1], "members of the auto-closed container")
        if bad:
            ctx.fail("view-trunc-json", "%r (%s) cut at %d, json(): %s; json=%s" % (data, tag, k, bad, bytes.fromhex(v[2] if v[2] != "-" else "")[:160]), [cases[j]], [o], ref[2])
    ctx.count("text_view_cases", len(cases))


def run_part(ctx):
    rng = ctx.rng
    docs = special_docs(rng, ctx.scale(2, 12))
    for tag, _, _ in docs:
        ctx.count("special_" + tag)
    # the general generator through the strict oracle as well
    general = []
    for _ in range(ctx.scale(40, 500)):
        doc = td.gen_doc(rng, depth=rng.choice([1, 2, 3]), n=rng.randrange(1, 5))
        data = td.render(doc, rng, rng.choice(td.STYLES), bom=rng.random() < 0.1)
        if len(data) <= 200:
            general.append(("general", doc, data))
    strict_tape(ctx, "text_special_ends", docs + general, "text_strict_cases")
    from props import C19_lex
    # (documents where a quote is glued to a non-separator, `]"q k"`, are left out by judge_text: see C19_lex.quote_glued)
    C19_lex.judge_text(ctx, "text_token_special_ends", [d for _, _, d in docs if len(d) <= 130], "text_token_special_cases")
    run_views(ctx, docs + general[: ctx.scale(15, 200)])
