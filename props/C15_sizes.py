"""C15 wave 6 (s_wr): size / boundary ladders for the call API of the text writer (audit/C15.md, "Size dimensions").

One dimension at a time on an otherwise small history, values from docgen.LADDER (0 1 2 3 7 8 9 15 16 17 31 .. 65535 65536):

  sizes_calls       call lists of the ladder documents of props/docgen.py (deep_doc: nesting depth to 4097 with a random
                    start flavour and container kind per level; wide_doc: siblings / calls per history to 65536 fields =
                    131072 calls; scalar_doc: payload length per role to 65536; indent width depth x factor around 16 / 256 /
                    1024 / 4096, factor 0..255) -- oracles: depth() counter, expecting_key / at_unknown_start /
                    at_array_value from the document, final state, re-parse = flatten(document), indentation law on the bytes
  sizes_cheap       D x (`{=`) opened at 3 bytes per level, then `k=v k2={ a }`: the EXACT expected bytes by construction;
                    indent width D x factor to 65537, D to 65536
  sizes_escape      escape(): position of the first escape x bytes after it x kind of the last byte, to 65536 (reference
                    docgen.escape); scratch handed over from a previous payload of ladder length
  sizes_payload     write_unquoted / write_quoted / write_header / write_fmt / write_binary(Quoted|Unquoted) payload length
                    to 65536 through the whole pipeline (raw token read back = escape(payload) / payload)
  sizes_history     n quoted writes on ONE writer (n to 1025), lengths walking the ladder up and down, escaping and not
  sizes_numbers     every digit count / power of ten and of two +-1 of i32 u32 i64 u64 (exact read-back), float magnitude
                    10^-324 .. 10^308 and 2^k (structure; value within 2 ulp inside the readable domain), precision 0 .. 65535
                    (structure), token ids, rgb components, date years
  sizes_illformed   every call of the alphabet repeated 300 times; random histories of 255 .. 65536 calls; sessions of up to
                    300 segments; inner() writes of ladder length
All streams are also model-vs-implementation comparisons (exact bytes + four state queries after every call) unless the
output is too long for the extracted model (it appends to a list: quadratic); those cases run with the oracles only."""
import random, struct
from vlib import hexs, unhex
from props import docgen as D
from props.docgen import S, Field, Obj, Arr, Hdr, Doc

CRASH = ("PANIC", "ABORT", "HANG")


def with_profile(case, p):
    parts = case.split("\t")
    parts[1] = parts[1][:-1] + p
    return "\t".join(parts)


def f64_bits(x):
    return struct.unpack("<Q", struct.pack("<d", x))[0]


def f32_bits(x):
    return struct.unpack("<I", struct.pack("<f", x))[0]


def bits_f64(b):
    return struct.unpack("<d", struct.pack("<Q", b))[0]


def bits_f32(b):
    return struct.unpack("<f", struct.pack("<I", b))[0]


def short(c, n=3000):
    return c if len(c) <= n else c[:n] + "...(%d bytes)" % len(c)


# ------------------------------------------------------------------ 1. documents -> calls
def doc_items(ctx):
    rng = ctx.rng
    items = []
    ch = lambda: rng.choice([32, 9])
    cheap = lambda dp, f: dp * dp * f <= 150000
    for dp in D.ladder(4097, extra=(130, 200, 300, 511, 512, 513)):
        pats = ["mix", "mix", "blocks"] if 30 <= dp <= 520 else (["mix"] if dp > 520 else ["mix", "o", "a", "oa"])
        for j, pat in enumerate(pats):
            f = 0 if dp > 520 else (rng.choice([0, 1, 2, 3, 4, 9]) if dp <= 65 else (rng.choice([1, 2, 3]) if j == 0 else rng.choice([0, 0, 1])))
            items.append(("depth:%d:%s" % (dp, pat), D.deep_doc(rng, dp, pat), (ch(), f), dp <= 1025 and cheap(dp, f)))
    for dp, pat in ((1024, "o"), (1024, "a"), (4097, "oa"), (4097, "blocks")):
        items.append(("depth:%d:%s" % (dp, pat), D.deep_doc(rng, dp, pat), (ch(), 0), dp <= 1025))
    for w in (15, 16, 17, 31, 32, 33, 255, 256, 257, 1023, 1024, 1025, 4095, 4096, 4097):
        pairs = [(dp, w // dp) for dp in range(1, 40) if w % dp == 0 and w // dp <= 255]
        for dp, f in pairs[:6] + pairs[-2:]:
            if dp * dp * f <= 400000:
                items.append(("width:%d=%dx%d" % (w, dp, f), D.deep_doc(rng, dp + 2, "mix"), (ch(), f), cheap(dp + 2, f)))
    for f in D.ladder(255):
        items.append(("factor:%d" % f, D.deep_doc(rng, 3, "mix"), (ch(), f), True))
    for kind in D.WIDE_KINDS:
        if kind == "params":
            continue
        top = {"top": 65536, "elems": 65536, "fields": 4097, "kv": 4097, "objfields": 4097, "containers": 4097}.get(kind, 1025)
        for n in D.ladder(top, lo=(1 if kind == "top" else 0), extra=(300, 500)):
            if n > 4097 and n != 65536:
                continue
            items.append(("siblings:%s:%d" % (kind, n), D.wide_doc(kind, n), (ch(), rng.choice([0, 1, 2, 8, 9, 17])), n <= 4097))
    for role in ["key", "value", "opvalue", "elem", "firstelem", "nestedkey", "kvkey", "kvvalue", "header"]:
        for n in D.ladder(65536):
            if n > 4097 and role not in ("key", "value", "elem", "header") and n != 65535:
                continue
            for kind in ("u", "q"):
                if (kind == "u" and n == 0) or (kind == "q" and role == "header"):
                    continue
                esc = 0 if kind == "u" else rng.choice([0, 0, 1, 2, n // 8, n // 2])
                s = S(kind, D.long_scalar(kind, n, esc, rng.choice([b"a", b"ab", b"x1_", b"\xe9t\xfc", b"a.b-c:d'"])))
                items.append(("len:%s:%s:%d" % (role, kind, n), D.scalar_doc(role, s), (ch(), rng.choice([0, 1, 2, 9])), True))
    return items


def sizes_calls(ctx, _fail):
    from props.C15 import check_log
    rng = ctx.rng
    items = doc_items(ctx)
    ctx.count("size_call_lists", len(items))
    cases, meta = [], []
    for (label, d, (c, f), model) in items:
        tr, qt = [], []
        calls = D.to_calls(d, rng, binary=rng.choice([0.0, 0.0, 0.3, 1.0]), trace=tr, qtrace=qt)
        cases.append("writer.calls\t%d,%d,r\t%s" % (c, f, calls)); meta.append((label, d, c, f, model, tr, qt))
        ctx.dist["size_max_calls"] = max(ctx.dist.get("size_max_calls", 0), len(tr))
    nt = lambda c, i: "7b" in i.split(" ")[0]
    small = [k for k, m in enumerate(meta) if m[4]]
    big = [k for k, m in enumerate(meta) if not m[4]]
    for stream, idx, prof, model in (("sizes_calls", small, "release", True), ("sizes_calls_debug", small, "debug", True),
                                     ("sizes_calls_big", big, "release", False), ("sizes_calls_big_debug", big, "debug", False)):
        cs = [cases[k] if prof == "release" else with_profile(cases[k], "d") for k in idx]
        impl, _ = ctx.correspond(stream, cs, nontrivial=nt, profile=prof, model=model)
        b0 = len(impl) - len(cs)
        for j, k in enumerate(idx):
            o = impl[b0 + j]
            label, d, c, f, model_, tr, qt = meta[k]
            sc = [short(cs[j])]
            if o in CRASH or " " not in o:
                _fail(ctx, "size-calls-crash", "the call list of the ladder document %s crashed: %s (%s profile)" % (label, o[:40], prof), sc, [o[:100]]); continue
            out, log = o.split(" ")
            check_log(ctx, "size-calls-depth", sc[0], o, cases[k].split("\t")[2])
            got = log.split(",") if log != "-" else []
            okq = len(got) == len(tr)
            for jj, g in enumerate(got if okq else []):
                fl = int(g.lstrip("E").split(".")[1])
                if (bool(fl & 1), bool(fl & 2), bool(fl & 4)) != (tr[jj], qt[jj][0], qt[jj][1]):
                    _fail(ctx, "size-calls-queries", "ladder document %s, after call %d of %d: expecting_key/at_unknown_start/at_array_value = %s, the document says %s (%s profile)"
                          % (label, jj, len(got), (bool(fl & 1), bool(fl & 2), bool(fl & 4)), (tr[jj],) + qt[jj], prof), sc, [short(o, 600)], str((tr[jj],) + qt[jj]))
                    okq = False
                    break
            if got and got[-1] != "0.1":
                _fail(ctx, "size-calls-state", "ladder document %s: after the complete call list depth()/expecting_key() are %s" % (label, got[-1]), sc, [short(o, 600)], "0.1")
            bad = D.indent_law(unhex(out), c, f)
            if bad:
                _fail(ctx, "size-calls-indent", "ladder document %s (cfg %d,%d, %s profile): line %d of the output is indented by %d characters, expected %d" % ((label, c, f, prof) + bad), sc, [short(o, 600)], "indent = depth x factor")
            elif okq:
                ctx.count("size_calls_ok")
    pc = ["writer.reparse\t" + c.split("\t", 1)[1] for c in cases]
    impl, _ = ctx.correspond("sizes_calls_reparse", pc, model=False, nontrivial=lambda c, i: " A:" in i or " O:" in i)
    b0 = len(impl) - len(pc)
    for k, m in enumerate(meta):
        exp = "ok 0 " + D.flatten(m[1])
        if impl[b0 + k] != exp:
            _fail(ctx, "size-calls-reparse", "the call list of the ladder document %s describes %s but its output parses to %s" % (m[0], exp[:200], impl[b0 + k][:200]), [short(pc[k])], [short(impl[b0 + k], 2000)], short(exp, 2000))
        else:
            ctx.count("size_calls_reparse_ok")


# ------------------------------------------------------------------ 2. indent width without the quadratic output
def sizes_cheap(ctx, _fail):
    from props.C15 import check_log
    rng = ctx.rng
    pairs = set()
    for w in (15, 16, 17, 255, 256, 257, 1023, 1024, 1025, 4095, 4096, 4097, 65533, 65534, 65535, 65536, 65537):
        ds = [dp for dp in range(1, w + 1) if w % dp == 0 and w // dp <= 255]
        for dp in (ds[:3] + ds[-2:]) if w < 65000 else ds[:2] + ds[-1:]:
            pairs.add((dp, w // dp))
    for dp in D.ladder(65536, lo=1):
        pairs.add((dp, 1 if dp > 300 else rng.choice([1, 2, 3])))
    pairs |= {(5, 0), (300, 0), (258, 255), (256, 255), (17, 15), (16, 16), (1, 16), (1, 17), (2, 8), (3, 5), (64, 4), (65, 4), (128, 2), (129, 2), (256, 1)}
    cases, exp = [], []
    for (dp, f) in sorted(pairs):
        c = rng.choice([32, 9])
        fl = rng.choice(["os", "as", "s"])
        calls = ";".join(["os"] + ["op:6;os"] * (dp - 1)) + ";u:6b;u:76;u:6b32;%s;u:61;u:62;e" % fl
        ind = lambda k: bytes([c]) * (k * f)
        want = b"{" + b"=\n{" * (dp - 1) + b"\n" + ind(dp) + b"k=v\n" + ind(dp) + b"k2={\n" + ind(dp + 1) + (b"a=b\n" if fl == "os" else b"a b\n") + ind(dp) + b"}"
        cases.append("writer.calls\t%d,%d,r\t%s" % (c, f, calls)); exp.append((dp, f, want))
    # the model's log holds depth() after every call (the length of a list): quadratic in the depth; beyond 4097 levels the
    # exact expected bytes are the only judge
    runs = []
    for sel, model, tag in ((lambda dp: dp <= 4097, True, ""), (lambda dp: dp > 4097, False, "_big")):
        idx = [k for k, e in enumerate(exp) if sel(e[0])]
        runs += [("sizes_cheap" + tag, "release", idx, model), ("sizes_cheap" + tag + "_debug", "debug", idx, model)]
    for stream, prof, idx, model in runs:
        cs = [cases[k] if prof == "release" else with_profile(cases[k], "d") for k in idx]
        impl, _ = ctx.correspond(stream, cs, nontrivial=lambda c, i: True, profile=prof, model=model)
        b0 = len(impl) - len(cs)
        for k, (dp, f, want) in enumerate([exp[j] for j in idx]):
            o = impl[b0 + k]
            if o in CRASH or " " not in o:
                _fail(ctx, "size-calls-crash", "%d nested containers, factor %d: %s (%s profile)" % (dp, f, o[:40], prof), [short(cs[k])], [o[:100]]); continue
            got = unhex(o.split(" ")[0])
            if got != want:
                pre = len(b"{" + b"=\n{" * (dp - 1))
                bad = D.indent_law(got[pre:], int(cs[k].split("\t")[1].split(",")[0]), f, base=dp) if got[:pre] == want[:pre] else None
                _fail(ctx, "size-calls-indent", "a field written inside %d open containers with indent factor %d (%s profile) is not indented by %d characters%s" % (dp, f, prof, dp * f, (": line %d has %d, expected %d" % bad) if bad else ""),
                      [short(cs[k])], [short(o, 600)], short(hexs(want), 600))
            else:
                ctx.count("size_cheap_ok")
            check_log(ctx, "size-calls-depth", short(cs[k]), o, cs[k].split("\t")[2])


# ------------------------------------------------------------------ 3. escape(): first escape position x tail x last byte
def sizes_escape(ctx, _fail):
    rng = ctx.rng
    pay = []
    for i in D.ladder(65536):
        tails = [0, 1, 17, 300] if i <= 4097 else [0, 1]
        for j in tails:
            for last in ([b"", b"a", b"\n", b'"', b"\\"] if i <= 4097 else [b"a", b"\n", b"\\"]):
                pay.append(b"a" * i + rng.choice([b'"', b"\\"]) + b"b" * j + last)
    for j in D.ladder(65536):                  # bytes after an escape at position 0 / all escapes / no escape at all
        pay.append(b'"' + b"t" * j)
        if j <= 4097 or j == 65535:
            pay.append(bytes(rng.choice(b'\\"') for _ in range(j)))
        pay.append(b"n" * j + (b"\n" if j % 2 else b""))
    ecases = ["writer.escape\t%s" % hexs(p) for p in pay]
    prevs = [D.long_scalar("q", n, n // 4).replace(b"\\\\", b'"') for n in D.ladder(65536)]
    nexts = [b"", b"x", b'"', b"plain text", b'say "hi"', b"a" * 300, b'\\' * 17, b"tail\n", b'q"' * 40 + b"\n"]
    for pv in prevs:
        for nx in (nexts if len(pv) <= 4097 else nexts[:5]):
            ecases.append("writer.escape_reuse\t%s\t%s" % (hexs(pv), hexs(nx)))
    for nx in prevs[-6:]:
        ecases.append("writer.escape_reuse\t%s\t%s" % (hexs(b'"' * 5), hexs(nx)))
    for stream, prof in (("sizes_escape", "release"), ("sizes_escape_debug", "debug")):
      impl, _ = ctx.correspond(stream, ecases, nontrivial=lambda c, i: "5c" in i, profile=prof)
      b0 = len(impl) - len(ecases)
      for k, c in enumerate(ecases):
        p = unhex(c.split("\t")[-1])
        o = impl[b0 + k]
        if o in CRASH or unhex(o) != D.escape(p):
            _fail(ctx, "size-escape-ref", "escape of a %d-byte payload (first escape at %d)%s = %s, reference %s" % (len(p), min([x for x in (p.find(b'"'), p.find(b"\\")) if x >= 0] or [-1]),
                  " after a previous payload of %d bytes" % len(unhex(c.split("\t")[1])) if "reuse" in c else "", short(o, 200), short(hexs(D.escape(p)), 200)), [short(c)], [short(o, 2000)], short(hexs(D.escape(p)), 2000))
        else:
            ctx.count("size_escape_ok")


# ------------------------------------------------------------------ 4. payload lengths through the whole pipeline, scratch histories
def sizes_payload(ctx, _fail):
    rng = ctx.rng
    cases, meta = [], []        # meta: list of (kind, expected raw token) in order of the scalars of the output
    for n in D.ladder(65536):
        word = (b"w.1-x_" * (n // 6 + 1))[:n]
        if n:
            for call, kind in (("u:%s", "U"), ("bin:U:%s", "U"), ("fmt:%s", "U")):
                if n > 4097 and call != "u:%s" and n != 65535:
                    continue
                cases.append("writer.calls\t%s\tu:6b;%s;u:6b32;u:76" % (rcfg(rng), call % hexs(word)))
                meta.append([("U", b"k"), (kind, word), ("U", b"k2"), ("U", b"v")])
            cases.append("writer.calls\t%s\t%s;u:76;u:6b32;as;%s;e" % (rcfg(rng), "u:" + hexs(word), "u:" + hexs(word)))      # as a key and as an element
            meta.append([("U", word), ("U", b"v"), ("U", b"k2"), ("U", word)])
            cases.append("writer.calls\t%s\tu:6b;h:%s;as;u:31;e;u:6b32;u:76" % (rcfg(rng), hexs(word)))
            meta.append([("U", b"k"), ("U", word), ("U", b"1"), ("U", b"k2"), ("U", b"v")])
        for e in sorted({0, 1, n // 16, n // 2, n}):
            if n > 4097 and e not in (0, 1, n):
                continue
            p = bytearray((b"p q\xe9{}=#" * (n // 8 + 1))[:n])
            for pos in rng.sample(range(n), e) if e < n else range(n):
                p[pos] = rng.choice(b'"\\')
            p = bytes(p) + (b"\n" if rng.random() < 0.15 else b"")
            for call in ("q:%s", "bin:Q:%s"):
                if n > 4097 and call != "q:%s":
                    continue
                cases.append("writer.calls\t%s\tu:6b;%s;%s;u:76" % (rcfg(rng), call % hexs(p), call % hexs(p)))      # as a value and as the next key
                meta.append([("U", b"k"), ("Q", D.escape(p)), ("Q", D.escape(p)), ("U", b"v")])
    # histories: n quoted writes on one writer, lengths walking the ladder up and down, escaping and not (the scratch buffer is
    # handed to escape() and taken back on every call; only the escaping path refills it)
    lens = [0, 1, 2, 3, 7, 8, 9, 15, 16, 17, 31, 32, 33, 63, 64, 65, 127, 128, 129, 255, 256, 257, 1023, 1024, 1025, 4097]
    for n in D.ladder(1025, lo=1, extra=(300,)):
        calls, m = [], []
        for j in range(n):
            L = rng.choice(lens[:min(len(lens), 8 + (3000 // n))])
            esc = rng.random() < 0.5
            p = bytearray((b"ab c\xe9" * (L // 5 + 1))[:L])
            if esc and L:
                for pos in rng.sample(range(L), min(L, rng.choice([1, 1, 2, max(1, L // 3)]))):
                    p[pos] = rng.choice(b'"\\')
            p = bytes(p) + (b"\n" if rng.random() < 0.1 else b"")
            calls.append("u:%s" % hexs(b"k%d" % j)); m.append(("U", b"k%d" % j))
            calls.append(("q:%s" if rng.random() < 0.8 else "bin:Q:%s") % hexs(p)); m.append(("Q", D.escape(p)))
        cases.append("writer.calls\t%s\t%s" % (rcfg(rng), ";".join(calls))); meta.append(m)
    for big in (65536, 65535, 4097):               # one long escaping payload, then short ones of both kinds (and the other way round)
        p = (b'long "x" \\ ' * (big // 11 + 1))[:big]
        seq = [p, b"", b"s", b'"', b"plain", p[:100], b"z" * 300, p, b"end"]
        calls, m = [], []
        for j, q in enumerate(seq):
            calls += ["u:%s" % hexs(b"k%d" % j), "q:%s" % hexs(q)]; m += [("U", b"k%d" % j), ("Q", D.escape(q))]
        cases.append("writer.calls\t%s\t%s" % (rcfg(rng), ";".join(calls))); meta.append(m)
    ctx.count("size_payload_cases", len(cases))
    nt = lambda c, i: "5c" in i
    ctx.correspond("sizes_payload", cases, nontrivial=nt)
    ctx.correspond("sizes_payload_debug", [with_profile(c, "d") for c in cases], nontrivial=nt, profile="debug")
    vc = ["writer.values\t" + c.split("\t", 1)[1] for c in cases]
    impl, _ = ctx.correspond("sizes_payload_readback", vc, model=False, nontrivial=nt)
    b0 = len(impl) - len(vc)
    for k, m in enumerate(meta):
        o = impl[b0 + k]
        toks = o.split(" ") if o not in CRASH and o not in ("ERR", "-") else []
        if len(toks) != len(m):
            _fail(ctx, "size-payload", "%d scalars written (longest payload %d bytes), %d read back: %s" % (len(m), max(len(x[1]) for x in m), len(toks), o[:80]), [short(vc[k]), short(cases[k])], [short(o, 2000)]); continue
        for j, (kind, raw) in enumerate(m):
            t = toks[j].split(":")
            if t[0] != kind or unhex(t[1]) != raw:
                _fail(ctx, "size-payload", "scalar %d of %d (%s, %d bytes) comes back as %s of %d bytes: %r..." % (j, len(m), kind, len(raw), t[0], len(unhex(t[1])), unhex(t[1])[:40]), [short(vc[k]), short(cases[k])], [short(o, 2000)], short(hexs(raw), 2000))
                break
        else:
            ctx.count("size_payload_ok")


def rcfg(rng):
    return "%d,%d,r" % (rng.choice([32, 9]), rng.randrange(0, 10))


# ------------------------------------------------------------------ 5. numbers, tokens, rgb, dates
INT_RANGES = {"i32": (-2 ** 31, 2 ** 31 - 1), "u32": (0, 2 ** 32 - 1), "i64": (-2 ** 63, 2 ** 63 - 1), "u64": (0, 2 ** 64 - 1)}


def sizes_numbers(ctx, _fail):
    rng = ctx.rng
    cases, meta = [], []
    for k, (lo, hi) in INT_RANGES.items():
        vals = set()
        for e in range(0, 21):
            for dlt in (-1, 0, 1):
                vals |= {10 ** e + dlt, -(10 ** e) + dlt}
        for e in range(0, 65):
            for dlt in (-1, 0, 1):
                vals |= {2 ** e + dlt, -(2 ** e) + dlt}
        for v in sorted(x for x in vals if lo <= x <= hi):
            for call in ("%s:%d" % (k, v), "bin:%s:%d" % (k.upper(), v)):
                cases.append("writer.calls\t%s\tu:6b;%s" % (rcfg(rng), call)); meta.append(("int", k, v))
    # token ids, rgb components, date years: the printed text by construction
    for tid in sorted(set(range(0, 0x21)) | set(D.ladder(65535)) | {0xf, 0x10, 0xff, 0x100, 0xfff, 0x1000, 0xffff, 0x2d82}):
        cases.append("writer.calls\t%s\tu:6b;bin:T:%d" % (rcfg(rng), tid)); meta.append(("text", [b"k", b"__unknown_0x%x" % tid]))
    comps = [0, 1, 9, 10, 99, 100, 255, 256, 999, 1000, 65535, 65536, 2 ** 31 - 1, 2 ** 31, 2 ** 32 - 2, 2 ** 32 - 1]
    for x in comps:
        for rgb in ([x, 1, 2], [1, x, 2], [1, 2, x], [1, 2, 3, x], [x, x, x, x]):
            call = rng.choice(["rgb:%s", "bin:RGB:%s"]) % ":".join(str(v) for v in rgb)
            cases.append("writer.calls\t%s\tu:63;%s;u:6b;u:76" % (rcfg(rng), call)); meta.append(("text", [b"c", b"rgb"] + [str(v).encode() for v in rgb] + [b"k", b"v"]))
    for y in (-32768, -32767, -10000, -9999, -1000, -999, -100, -99, -10, -9, -1, 0, 1, 9, 10, 99, 100, 999, 1000, 9999, 10000, 32766, 32767):
        for which, text, h in (("d", "%d.%d.%d" % (y, 2, 3), 0), ("h", "%d.%d.%d.%d" % (y, 12, 31, 24), 24), ("u", "%d.%02d.%02d" % (y, 2, 30), 0)):
            m_, d_ = {"d": (2, 3), "h": (12, 31), "u": (2, 30)}[which]
            cases.append("writer.calls\t%s\tu:6b;date:%s:%d:%d:%d:%d;u:6b32;u:76" % (rcfg(rng), which, y, m_, d_, h)); meta.append(("text", [b"k", text.encode(), b"k2", b"v"]))
    ctx.correspond("sizes_numbers", cases, nontrivial=lambda c, i: True)
    ctx.correspond("sizes_numbers_debug", [with_profile(c, "d") for c in cases], nontrivial=lambda c, i: True, profile="debug")
    vc = ["writer.values\t" + c.split("\t", 1)[1] for c in cases]
    impl, _ = ctx.correspond("sizes_numbers_readback", vc, model=False, nontrivial=lambda c, i: True)
    b0 = len(impl) - len(vc)
    for k, m in enumerate(meta):
        o = impl[b0 + k]
        toks = o.split(" ") if o not in CRASH and o not in ("ERR", "-") else []
        if m[0] == "int":
            _, ty, v = m
            if len(toks) != 2 or not toks[1].startswith("U:"):
                _fail(ctx, "number-reparse", "key + %s %d does not parse back to two scalars: %s" % (ty, v, o[:80]), [vc[k]], [o]); continue
            _, raw, i64, u64, f64 = toks[1].split(":")
            got = i64 if i64 != "-" else u64
            if got != str(v) or unhex(raw) != str(v).encode():
                _fail(ctx, "int-exact-i64min" if v == -2 ** 63 else "int-exact", "%s %d reads back as %s (text %r)" % (ty, v, got, unhex(raw)), [vc[k]], [o], str(v))
            else:
                ctx.count("size_int_ok")
        else:
            raws = [unhex(t.split(":")[1]) for t in toks]
            if raws != m[1]:
                _fail(ctx, "size-typed-text", "the scalars written should read back as %r, got %r" % (m[1], raws[:8]), [vc[k], cases[k]], [o[:300]], " ".join(hexs(x) for x in m[1]))
            else:
                ctx.count("size_typed_text_ok")
    sizes_floats(ctx, _fail)


def sizes_floats(ctx, _fail):
    """float magnitude and precision ladders: the text Display prints (asked from the implementation's fdisp, which is the
    model's oracle too) must come back as ONE unquoted scalar byte for byte; inside the readable domain within 2 ulp"""
    rng = ctx.rng
    vals = []            # (width, bits, precision|None)
    for e in range(-324, 309):
        try:
            x = float("1e%d" % e)
        except OverflowError:
            continue
        if x == 0.0:
            continue
        vals.append(("64", f64_bits(x), None))
        if e % 3 == 0:
            vals.append(("64", f64_bits(-x * 1.2345678901234567), None))
        if -45 <= e <= 38 and bits_f32(f32_bits(x)) not in (0.0, float("inf")):
            vals.append(("32", f32_bits(x), None))
    for e in sorted(set(list(range(-1074, 1024, 37)) + [-1074, -1073, -1023, -1022, -1, 0, 1, 23, 24, 52, 53, 54, 63, 64, 127, 128, 1023])):
        vals.append(("64", f64_bits(2.0 ** e), None))
        if -149 <= e <= 127:
            vals.append(("32", f32_bits(2.0 ** e), None))
    for p in D.ladder(65535, extra=(4, 5, 6, 12, 13, 17, 18, 22, 23, 24, 100, 300, 340, 400, 1100, 10000)):
        for x in (1.5, -0.04, 123456.789, 0.0, 5e-324, 1.7976931348623157e308, 2.5, 0.125) if p <= 4097 else (1.5, 5e-324):
            vals.append(("64", f64_bits(x), p))
        for x in (1.5, 0.1, 1e-45, 3.4028234663852886e38) if p <= 4097 else (0.1,):
            vals.append(("32", f32_bits(x), p))

    def hb(w, b):
        return ("%016x" if w == "64" else "%08x") % b
    dc = ["writer.fdisp\t%s\t%s" % (w, hb(w, b)) + ("" if p is None else "\t%d" % p) for (w, b, p) in vals]
    impl, _ = ctx.correspond("sizes_float_display", dc, model=False, nontrivial=lambda c, i: len(i) > 2)
    b0 = len(impl) - len(dc)
    cases, meta = [], []
    for k, (w, b, p) in enumerate(vals):
        o = impl[b0 + k]
        x = bits_f64(b) if w == "64" else bits_f32(b)
        if o in CRASH:
            _fail(ctx, "float-display-contract", "Display of float %s:%x (precision %s) crashed" % (w, b, p), [dc[k]], [o]); continue
        t = unhex(o)
        # independent reference for the fixed-precision text: Python's %.Nf is exact decimal rounding of the same binary value
        if p is not None and t != ("%.*f" % (p, x)).encode():
            _fail(ctx, "float-display-contract", "Display of float %s:%x with precision %d differs from the exactly rounded decimal expansion: %r..." % (w, b, p, t[:60]), [dc[k]], [short(o, 600)], short(hexs(("%.*f" % (p, x)).encode()), 600)); continue
        call = (("f64:%s:%s" if w == "64" else "f32:%s:%s") % (hb(w, b), hexs(t))) if p is None else (("f64p:%s:%d:%s" if w == "64" else "f32p:%s:%d:%s") % (hb(w, b), p, hexs(t)))
        if p is None and rng.random() < 0.25:
            call = "bin:" + call.upper().split(":")[0] + ":" + call.split(":", 1)[1]
        cases.append("writer.calls\t%s\tu:6b;%s;u:6b32;b:1" % (rcfg(rng), call)); meta.append((w, b, p, t, x))
    ctx.correspond("sizes_floats", cases, nontrivial=lambda c, i: True)
    vc = ["writer.values\t" + c.split("\t", 1)[1] for c in cases]
    impl, _ = ctx.correspond("sizes_floats_readback", vc, model=False, nontrivial=lambda c, i: True)
    b0 = len(impl) - len(vc)
    for k, (w, b, p, t, x) in enumerate(meta):
        o = impl[b0 + k]
        toks = o.split(" ")
        if o in CRASH or len(toks) != 4 or not toks[1].startswith("U:") or unhex(toks[1].split(":")[1]) != t:
            _fail(ctx, "float-structure", "k=<float %s:%x%s> k2=yes does not parse back to four scalars with the printed text %r...: %s" % (w, b, "" if p is None else " precision %d" % p, t[:40], o[:100]), [short(vc[k]), short(cases[k])], [short(o, 600)], "U:6b U:%s U:6b32 U:796573" % short(hexs(t), 300))
            continue
        ctx.count("size_float_structure_ok")
        lo = 1e-5 if w == "64" else 1e-13
        if p is None and lo <= abs(x) < 2 ** 53:
            f64 = toks[1].split(":")[4]
            if f64 == "-":
                _fail(ctx, "float-readback-wide", "%s bits %x printed as %r does not read back with Scalar::to_f64" % (w, b, t), [vc[k]], [o]); continue
            back = int(f64, 16)
            key = lambda bits, n: bits if bits < 2 ** (n - 1) else 2 ** (n - 1) - bits
            dist = abs(key(back, 64) - key(b, 64)) if w == "64" else abs(key(f32_bits(bits_f64(back)), 32) - key(b, 32))
            if dist > 2:
                _fail(ctx, "float-2ulp-wide", "%s bits %x printed as %r reads back %d ulp away" % (w, b, t, dist), [vc[k]], [o], "<= 2 ulp")
            else:
                ctx.count("size_float_2ulp_ok")
    # precision > 65535: core::fmt keeps the precision in a u16 and refuses a larger one at run time (known finding)
    pc = ["writer.calls\t32,2,r\tu:6b;f64p:3ff8000000000000:%d:312e35" % p for p in (65536, 65537, 100000)] + ["writer.calls\t32,2,r\tu:6b;f32p:3fc00000:65536:312e35"]
    impl, _ = ctx.correspond("sizes_float_precision_limit", pc, model=False, nontrivial=lambda c, i: True)
    for c, o in zip(pc, impl[len(impl) - len(pc):]):
        if o in CRASH:
            _fail(ctx, "float-precision-over-u16", "write_f64_precision / write_f32_precision with a precision above 65535 (a valid usize argument): %s" % o, [c], [o], "an error or a printed number")


# ------------------------------------------------------------------ 6. long ill-formed histories
def sizes_illformed(ctx, _fail):
    from props.C15 import check_log
    from props.C15_extra import ALPHABET, TAPE_TEXTS, expected_depth
    rng = ctx.rng
    cases = []
    for a in sorted(set(ALPHABET)):
        for n in (300,):
            cfg = "%d,%d,r" % (rng.choice([32, 9]), rng.choice([0, 1, 2]))
            cases.append("writer.calls\t%s\t%s" % (cfg, ";".join([a] * n)))
            cases.append("writer.calls\t%s\tu:6b;as;%s;e;u:6b;u:76" % (cfg, ";".join([a] * n)))
    for n in D.ladder(65536, lo=255):
        for _ in range(3 if n <= 4097 else 1):
            cfg = "%d,%d,r" % (rng.choice([32, 9]), rng.choice([0, 1, 2]))
            # closes a little more frequent than opens: the depth wanders around small values, the output stays linear
            alpha = ALPHABET + ["e", "e", "u:61", "u:6b6579", "q:76", "op:6"]
            cases.append("writer.calls\t%s\t%s" % (cfg, ";".join(rng.choice(alpha) for _ in range(n))))
    nti = lambda c, i: "7b" in i.split(" ")[0] or "E" in i
    for prof, stream in (("release", "sizes_illformed"), ("debug", "sizes_illformed_debug")):
        cs = cases if prof == "release" else [with_profile(c, "d") for c in cases]
        impl, _ = ctx.correspond(stream, cs, nontrivial=nti, profile=prof)
        b0 = len(impl) - len(cs)
        for k, c in enumerate(cs):
            o = impl[b0 + k]
            if o in CRASH:
                _fail(ctx, "illformed-crash", "a long misordered history (%d calls) crashes the writer (%s, %s profile)" % (c.count(";") + 1, o, prof), [short(c)], [o], "error or output")
            else:
                check_log(ctx, "illformed-depth", short(c), o, c.split("\t")[2])
    # sessions of many segments (calls / write_tape in any state / inner() writes of ladder length)
    pc = ["tt.parse\t%s" % hexs(x) for x in TAPE_TEXTS]
    impl, _ = ctx.correspond("sizes_session_parse", pc, model=False, nontrivial=lambda c, i: True)
    b0 = len(impl) - len(pc)
    tapes = [(x, impl[b0 + k].split(" ", 2)[2]) for k, x in enumerate(TAPE_TEXTS) if impl[b0 + k].startswith("ok ")]
    scases = []
    for nseg in (16, 17, 64, 65, 300):
        for _ in range(3):
            segs = []
            for _ in range(nseg):
                r = rng.random()
                if r < 0.5:
                    segs.append("c=" + ";".join(rng.choice(ALPHABET) for _ in range(rng.choice([1, 2, 3, 5]))))
                elif r < 0.9 and tapes:
                    x, t = rng.choice(tapes)
                    segs.append("t=%s|%s" % (hexs(x), t))
                else:
                    segs.append("i=" + hexs(rng.choice([b"\n", b" ", b"}", b"#c\n", b"x=y", b""])))
            scases.append("writer.session\t%d,%d,r\t%s" % (rng.choice([32, 9]), rng.choice([0, 1, 2, 3]), "\t".join(segs)))
    for n in D.ladder(65536):                   # raw bytes through inner() between two fields: the output holds them verbatim
        raw = b"\n#" + b"c" * n + b"\n"
        scases.append("writer.session\t32,2,r\tc=u:6b;u:76\ti=%s\tc=u:6b32;as;u:61;e" % hexs(raw))
    nt = lambda c, i: " " in i and ("7b" in i.split(" ")[0] or "E" in i)
    for prof, stream in (("release", "sizes_sessions"), ("debug", "sizes_sessions_debug")):
        cs = scases if prof == "release" else [with_profile(c, "d") for c in scases]
        impl, _ = ctx.correspond(stream, cs, nontrivial=nt, profile=prof)
        b0 = len(impl) - len(cs)
        for k, c in enumerate(cs):
            o = impl[b0 + k]
            if o in CRASH or " " not in o:
                _fail(ctx, "session-crash", "a writer session of %d segments crashed or was refused (%s, %s profile)" % (len(c.split("\t")) - 2, o[:40], prof), [short(c)], [o[:100]], "error or output"); continue
            segs = c.split("\t")[2:]
            exp = expected_depth(segs)
            got = []
            for s, lg in zip(segs, o.split(" ")[1].split("/")):
                if s.startswith("c="):
                    got += [("c", g.startswith("E"), int(g.lstrip("E").split(".")[0])) for g in lg.split(",") if g != "-"]
                elif s.startswith("t="):
                    got.append(("t", lg.startswith("TE"), int(lg.lstrip("TE").split(".")[0])))
            if got != exp:
                j = next((q for q in range(min(len(got), len(exp))) if got[q] != exp[q]), min(len(got), len(exp)))
                _fail(ctx, "session-depth", "event %d of a session of %d segments: (kind, error, depth()) = %s, the calls made so far say %s" % (j, len(segs), got[j] if j < len(got) else None, exp[j] if j < len(exp) else None), [short(c)], [short(o, 600)], str(exp[j] if j < len(exp) else None))
            if "i=0a23" in c and len(segs) == 3:
                raw = unhex(segs[1][2:])
                want = b"k=v" + raw + b"\nk2={\n  a\n}"
                if unhex(o.split(" ")[0]) != want:
                    _fail(ctx, "size-inner", "%d raw bytes written through inner() between two fields: the output is not `k=v` + the bytes + the second field" % len(raw), [short(c)], [short(o, 600)], short(hexs(want), 600))
                else:
                    ctx.count("size_inner_ok")


def run(ctx, _fail):
    D.deep_recursion()
    for _ in range(1 if ctx.tier == "quick" else 3):       # thorough: three draws of kinds / flavours / factors per ladder value
        sizes_calls(ctx, _fail)
    sizes_cheap(ctx, _fail)
    sizes_escape(ctx, _fail)
    sizes_payload(ctx, _fail)
    sizes_numbers(ctx, _fail)
    sizes_illformed(ctx, _fail)
