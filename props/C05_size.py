"""C05, wave 6 (audit/C05.md, section "Size dimensions"): size / boundary ladders.

Every earlier C05 stream draws inputs of a few dozen to a few hundred bytes; a change that only misbehaves beyond a SIZE
boundary (a 16-byte block, a u8 / u16 counter, a fixed stack of 64 / 256 parents, a 32 KiB buffer, the 65535-byte string
of the binary format) was out of reach.  This module walks ONE size dimension at a time along

    0 1 2 3 7 8 9 15 16 17 31 32 33 63 64 65 127 128 129 255 256 257 1023 1024 1025 4095 4096 4097 65533 65534 65535 65536

on an otherwise small input, through EVERY entry-point kind of the C05 inventory, in the release AND the debug profile (the
debug profile builds the library at opt-level 0 with overflow checks and debug assertions).  The oracle of every case is the
property itself: the call returns a value or an error -- no PANIC, no ABORT (process abort, stack overflow, or the per-case
watchdog = a hang), no RUNAWAY iterator, no BAD* self-check of the API walkers.

Case lines use the kind `c05.z <ms> <kind> <args>` (harness/src/fam_c05.rs): like the watchdog wrapper `c05.w`, and every
argument starting with `~` / `%` is a run-length encoded hex string / comma list (`~613d,7b*300,7d*300`, `%1*65536`), so that a
65536-byte input is a short, readable replay line.  Cases whose expansion is small are ALSO run as plain `c05.w` cases with the
extracted model (stream size_model_release), for the kinds that have one.

Known findings are respected: nesting depth stays below the per-entry-point depth where I-stack-depth starts (measured, see
DEPTH_CUT) and the number of refills inside one token stays below where N-refill-recursion-opt0 starts in the debug profile
(measured, see REFILL_LADDER); each has ONE probe beyond the limit, reported under the known finding's key.
"""
import struct
from vlib import hexs

LADDER = [0, 1, 2, 3, 7, 8, 9, 15, 16, 17, 31, 32, 33, 63, 64, 65, 127, 128, 129, 255, 256, 257, 1023, 1024, 1025,
          4095, 4096, 4097, 65533, 65534, 65535, 65536]
WATCHDOG_MS = 20000

# ---- measured in this sandbox (8 MiB main-thread stack), smallest nesting depth that overflows the stack (known finding I):
#        c05.dom object nesting: release 3246, debug 1721; array nesting: release 6253, debug 3809
#        writer.rt (write_tape): objects release 10159, debug 6591; arrays 14453 / 9240
#        de.text map(any) slice / tape / objreader: release 15400, debug 9350; reader / freader: 19385 / 16355
#        de.bin map(any) tape: 26187 / 15869; slice / fslice (arrays): 43624 / 13776; reader / freader: 20933 / 14144
#        c05.binapi (Hint / serde_json::Value targets) arrays: 65448 / 30809
#      every other kind (both tape parsers, lexer, readers, skip_container, IgnoredAny targets) is iterative: no limit up to 200000
#      containers of other kinds have larger frames: `a={{` x n (2n levels) c05.dom 2844 / 1503 units, writer.rt 6886 / 4875, de.text slice 8307 / 4984,
#      reader 9698 / 8179; `a={1 b=` x 4095 overflows write_tape in both profiles.  The cuts below are in LEVELS and leave a factor >= 1.4.
DEPTH_CUT = {"c05.dom": 1025, "writer.rt": 1025, "de.text": 2100, "de.bin": 2100, "c05.binapi": 2100}
# ---- known finding N, debug profile (library at opt-level 0): one stack frame per refill inside one token; first overflow at
#      47581 refills (binary reader, 176 bytes / frame) and 74809 refills (text reader, quoted and unquoted, 112 bytes / frame);
#      release: none up to 400000.  The ladder stops at 32768 refills (text and binary); the probe is the existing stream
#      refill_recursion_opt0 (65000 refills, binary).
#      The same recursion runs BETWEEN tokens (text: next_opt_refill(None) -> next_opt_fallback -> next_opt_refill while only whitespace /
#      comments arrive): `#c\n` x 65534 in 3-byte reads, or x 65535 in 5-byte reads through a 33-byte buffer, overflows the debug profile's stack.
#      So EVERY streaming case of this module keeps its total number of reads below MAX_READS (schedules are coarsened on long inputs).
REFILL_LADDER = [n for n in LADDER if n <= 4097] + [16384, 32768]
MAX_REFILLS = 32768
MAX_READS = 33000


# ------------------------------------------------------------------ run-length encoded arguments
def rle(parts):
    """parts: list of bytes or (bytes, n) -> `~hex*n,...`"""
    out = []
    for p in parts:
        b, n = (p, 1) if isinstance(p, (bytes, bytearray)) else p
        if not b or n <= 0:
            continue
        out.append(b.hex() if n == 1 else "%s*%d" % (b.hex(), n))
    return "~" + (",".join(out) if out else "-")


def plen(parts):
    return sum((len(p) if isinstance(p, (bytes, bytearray)) else len(p[0]) * max(p[1], 0)) for p in parts)


def flat(parts):
    return b"".join((p if isinstance(p, (bytes, bytearray)) else p[0] * max(p[1], 0)) for p in parts)


def coarse(chunk, total):
    """the read size, raised so that `total` bytes take at most MAX_READS reads (known finding N)"""
    return max(chunk, (total + MAX_READS - 1) // MAX_READS)


def sched(chunk, total):
    """a schedule of `chunk`-byte reads covering `total` bytes (+2 reads for the end of the data)"""
    if chunk <= 0:
        return "-"
    chunk = coarse(chunk, total)
    return "%%%d*%d" % (chunk, (total + chunk - 1) // chunk + 2)


def z(kind_and_args):
    return "c05.z\t%d\t%s" % (WATCHDOG_MS, kind_and_args)


# ------------------------------------------------------------------ text: one dimension each, n -> parts
def _cyc(b, n):
    """n bytes cycling through b"""
    q, r = divmod(n, len(b))
    return [(b, q), b[:r]]


TEXT_DIMS = {
    # lengths of scalars / keys / strings
    "unquoted_len": lambda n: [(b"a", n)],
    "key_len": lambda n: [(b"k", n), b"=v"],
    "value_len": lambda n: [b"k=", (b"v", n)],
    "quoted_len": lambda n: [b'k="', (b"q", n), b'"'],
    "quoted_key_len": lambda n: [b'"', (b"q", n), b'"=v'],
    "quoted_unterminated_len": lambda n: [b'k="', (b"q", n)],
    "escape_pairs": lambda n: [b'k="', (b'\\"', n), b'" x=y'],
    "backslash_run": lambda n: [b'k="', (b"\\", n), b'" x=y'],
    "high_bytes_len": lambda n: [b"k=", (b"\xe9", n), b" x=y"],
    "utf8_2byte_len": lambda n: [b'k="', (b"\xc3\xa9", n), b'"'],
    "utf8_truncated_tail": lambda n: [b"k=", (b"a", n), b"\xe2\x82"],
    "nul_run": lambda n: [b"k=", (b"\x00", n)],
    # whitespace / comments
    "space_run": lambda n: [b"a=", (b" ", n), b"b c=d"],
    "tab_run_before_brace": lambda n: [b"a=", (b"\t", n), b"{ b }"],
    "newline_run": lambda n: [b"a=b", (b"\n", n), b"}"],
    "mixed_ws_run": lambda n: [b"a"] + _cyc(b" \t\r\n", n) + [b"=b"],
    "leading_ws": lambda n: [(b" ", n), b'a="b" c={ d }'],
    "trailing_ws": lambda n: [b"a=b", (b" ", n)],
    "comment_len": lambda n: [b"#", (b"c", n), b"\na=b"],
    "comment_unterminated_len": lambda n: [b"a=b #", (b"c", n)],
    "comment_count": lambda n: [(b"#c\n", n), b"a=b"],
    "crlf_lines": lambda n: [(b"a=b\r\n", n)],
    # digits
    "digit_run": lambda n: [b"k=", (b"7", n)],
    "zero_padding": lambda n: [b"k=", (b"0", n), b"1"],
    "neg_zero_padding": lambda n: [b"k=-", (b"0", n), b"9"],
    "fraction_digits": lambda n: [b"k=1.", (b"0", n), b"5"],
    "fraction_zeros": lambda n: [b"k=0.", (b"0", n), b"5 x=y"],
    "dot_run": lambda n: [b"k=", (b"1.", n)],
    "minus_run": lambda n: [b"k=", (b"-", n), b"1"],
    # operators / braces / ghosts
    "equal_run": lambda n: [b"a", (b"=", n), b"b"],
    "operator_run": lambda n: [b"a"] + _cyc(b"<>!?=", n) + [b"b"],
    "consecutive_operators": lambda n: [b"a ", (b">= ", n), b"b"],
    "consecutive_operator_tokens_mixed": lambda n: [b"a={ 1 x=2 ", (b"<", n), b" 3 }"],
    "close_run": lambda n: [b"a=b ", (b"}", n)],
    "ghosts_leading": lambda n: [b"a={ ", (b"{} ", n), b"b=c }"],
    "ghosts_top": lambda n: [(b"{}", n), b" a=b"],
    "ghosts_after_value": lambda n: [b"a={ 1 ", (b"{ } ", n), b"}"],
    "bracket_run": lambda n: [b"a={ ", (b"[", n)],
    "param_blocks": lambda n: [b"a={ ", (b"[[p] x=y ] ", n), b"}"],
    "undef_param_blocks": lambda n: [b"a={ ", (b"[[!p] x ] ", n), b"}"],
    "at_expr_len": lambda n: [b"a=@[", (b"x", n), b"] b=c"],
    "at_word_len": lambda n: [b"@", (b"x", n), b"=1"],
    "bom_run": lambda n: [(b"\xef\xbb\xbf", n), b"a=b"],
    # counts
    "duplicate_keys": lambda n: [(b"k=v ", n)],
    "sibling_pairs": lambda n: [(b"a=1 b=2 c=3 ", (n + 2) // 3)],
    "array_elements": lambda n: [b"a={", (b"1 ", n), b"}"],
    "array_quoted_elements": lambda n: [b"a={", (b'"x" ', n), b"}"],
    "array_of_arrays": lambda n: [b"a={", (b"{1} ", n), b"}"],
    "object_fields": lambda n: [b"a={", (b"x=1 ", n), b"}"],
    "object_turning_mixed": lambda n: [b"a={", (b"x=1 ", n), b"2 3 }"],
    "array_turning_mixed": lambda n: [b"a={ 1 ", (b"x=1 ", n), b"}"],
    "headers": lambda n: [b"a=", (b"rgb{1 2 3} b=", n), b"c"],
    "header_elements": lambda n: [b"a=rgb{", (b"1 ", n), b"}"],
    "lone_values_top": lambda n: [(b"v ", n)],
    "quoted_count": lambda n: [(b'"a"="b" ', n)],
}

# nesting depth (each container kind); cut per entry point, see DEPTH_CUT
TEXT_DEPTH_DIMS = {        # name -> (levels of nesting per unit, n -> parts)
    "depth_objects": (1, lambda n: [(b"a={", n), b"b=c", (b"}", n)]),
    "depth_arrays": (1, lambda n: [b"a=", (b"{", n), b"1", (b"}", n)]),
    "depth_arrays_in_objects": (2, lambda n: [(b"a={{", n), b"1", (b"}}", n)]),
    "depth_mixed": (1, lambda n: [(b"a={1 b=", n), b"c", (b"}", n)]),
    "depth_headers": (2, lambda n: [b"a=", (b"rgb{", n), b"1", (b"}", n)]),
    "depth_params": (2, lambda n: [b"a={", (b"[[p] ", n), b"x=y", (b"] ", n), b"}"]),
    "depth_unclosed_objects": (1, lambda n: [(b"a={", n), b"b=c"]),
    "open_run_unclosed": (1, lambda n: [b"a=", (b"{", n)]),
}

# leaf conversions: the whole input is one scalar
LEAF_DIMS = {
    "leaf_digits": lambda n: [(b"7", n)],
    "leaf_zero_padding": lambda n: [(b"0", n), b"12"],
    "leaf_neg_zero_padding": lambda n: [b"-", (b"0", n), b"12"],
    "leaf_plus_zero_padding": lambda n: [b"+", (b"0", n), b"12"],
    "leaf_fraction": lambda n: [b"1.", (b"0", n), b"5"],
    "leaf_fraction_zeros": lambda n: [b"0.", (b"0", n), b"5"],
    "leaf_int_part": lambda n: [(b"9", n), b".5"],
    "leaf_letters": lambda n: [(b"y", n)],
    "leaf_yes_pad": lambda n: [b"yes", (b" ", n)],
    "leaf_date_year_digits": lambda n: [(b"1", n), b".1.1"],
    "leaf_date_zero_year": lambda n: [(b"0", n), b"1444.11.11"],
    "leaf_date_month_zeros": lambda n: [b"1444.", (b"0", n), b"1.1"],
    "leaf_date_day_zeros": lambda n: [b"1444.1.", (b"0", n), b"1"],
    "leaf_date_hour_zeros": lambda n: [b"1444.1.1.", (b"0", n), b"1"],
    "leaf_date_dots": lambda n: [b"1", (b".1", n)],
    "leaf_date_neg": lambda n: [b"-", (b"1", n), b".1.1"],
    "leaf_high": lambda n: [(b"\x80", n)],
    "leaf_utf8_3byte": lambda n: [(b"\xe2\x82\xac", n)],
    "leaf_utf8_4byte": lambda n: [(b"\xf0\x9f\x98\x80", n)],
    "leaf_ascii_then_high": lambda n: [(b"a", n), b"\xe9"],
    "leaf_backslashes": lambda n: [(b"\\", n)],
    "leaf_escaped_quotes": lambda n: [(b'\\"', n)],
}
LEAF_KINDS = ["scalar.u64", "scalar.i64", "scalar.bool", "f64.parse", "date.parse", "dh.parse", "ud.parse", "raw.parse", "enc.utf8", "enc.w1252", "c05.textapi"]

TEXT_SHAPES = ["map(any)", "map(ign)", "struct(61:any,6b*:any,78!:str)"]


MAX_INPUT = 300000      # bytes; a longer input costs more than ~50 ms at opt-level 0: that rung of the ladder is cut


def text_sinks(parts, n, rot, depth=0, heavy=True):
    """the text entry-point kinds over one input.  n = the dimension's value, rot = a counter that rotates the parameterised kinds
    (buffer size / schedule / path / target shape) from rung to rung so that every combination is met along every ladder,
    depth = nesting depth of the input when it is a depth dimension (cuts the recursive kinds, known finding I)"""
    h = rle(parts)
    L = plen(parts)
    if L > MAX_INPUT:
        return []
    out = [z("tt.parse\t" + h), z("tr.slice\t" + h)]
    streams = ["tr.stream\t%d\t-\t%s" % (L + 1, h),                       # everything in one read
               "tr.stream\t64\t-\t%s" % h,                               # a small buffer: BufferFull on the long tokens
               "tr.stream\t%d\t%s\t%s" % (L + 9, sched(7, L), h),        # 7-byte reads: at most L / 7 refills inside one token
               "tr.stream\t%d\t%s\t%s" % (L + 3, sched(1, L) if L <= MAX_REFILLS else sched(3, L), h),
               "tr.stream\t33\t%s\t%s\t125" % (sched(5, L), h)]         # recycled dirty buffer full of `}`
    out.append(z(streams[rot % 5]))
    ops = ["tr.skip\t%s\t-\t%s\t%d" % (["slice", 17, L + 2][rot % 3], h, rot % 4),
           "tr.skipuv\t%s\t-\t%s\t%d" % (["slice", 33, L + 2][rot % 3], h, rot % 4),
           "tr.readbytes\t%s\t-\t%s\t%d\t%d" % (["slice", L + 2][rot % 2], h, rot % 3, [n, max(n - 1, 0), n + 1, L, L + 1][rot % 5]),
           "c05.trops\t%s\t-\t%s\t%s" % (["slice", 16, L + 5][rot % 3], h, ["n,n,n,k,T", "r,r,k,u,T", "n,u,T", "n,n,b%d,T" % n, "k,T", "T"][rot % 6])]
    out.append(z(ops[rot % 4]))
    out.append(z(ops[(rot + 2) % 4]))
    big = n > 4097 and not heavy
    if depth <= DEPTH_CUT["c05.dom"] and not big:
        out.append(z("c05.dom\t" + h))
    if rot % 2 == 0 or big:
        out.append(z("c05.textapi\t" + h))
    elif depth <= DEPTH_CUT["writer.rt"]:
        out.append(z("writer.rt\t32,1,r\t" + h))
    combos = [(p, sh) for p in ("slice", "tape", "objreader", "reader:64:-", "reader:%d:%d*" % (L + 4, coarse(3, L)), "freader:-", "freader:%d*" % coarse(5, L)) for sh in TEXT_SHAPES
              if not (sh == TEXT_SHAPES[2] and p not in ("slice", "reader:64:-", "tape"))]
    for j in range(2 if not big else 1):
        path, shape = combos[(2 * rot + j) % len(combos)]
        if depth > DEPTH_CUT["de.text"] or big:
            shape = "map(ign)"
        out.append(z("de.text\t%s\t%s\t%s\t%s" % (path, "w1252" if rot % 2 else "utf8", shape, h)))
    return out


# ------------------------------------------------------------------ binary
def H(x):
    return struct.pack("<H", x)


ID, EQ, OPEN, CLOSE = H(0x2d84), H(1), H(3), H(4)
I32 = H(0x0c) + struct.pack("<i", 7)
U32 = H(0x14) + struct.pack("<I", 9)
U64 = H(0x29c) + struct.pack("<Q", 5)
I64 = H(0x317) + struct.pack("<q", -2)
F32 = H(0x0d) + struct.pack("<f", 1.5)
F64 = H(0x167) + struct.pack("<d", 2.5)
BOOL = H(0x0e) + b"\x01"
RGB3 = H(0x243) + OPEN + U32 * 3 + CLOSE


def bstr(tag, n, present=None):
    """a string token declaring n bytes (n <= 65535) of which `present` are there"""
    return [H(tag) + H(n), (b"q", n if present is None else present)]


BIN_DIMS = {
    "quoted_len": lambda n: [ID + EQ] + bstr(0x0f, n),
    "unquoted_len": lambda n: [ID + EQ] + bstr(0x17, n),
    "quoted_key_len": lambda n: bstr(0x0f, n) + [EQ + I32],
    "quoted_len_in_array": lambda n: [ID + EQ + OPEN] + bstr(0x0f, n) + [I32 + CLOSE],
    "string_declared_len_absent": lambda n: [ID + EQ] + bstr(0x0f, n, 0),
    "string_declared_len_one_short": lambda n: [ID + EQ] + bstr(0x17, n, max(n - 1, 0)),
    "string_then_tokens": lambda n: [ID + EQ] + bstr(0x0f, n) + [ID + EQ + I32],
    "pairs_i32": lambda n: [(ID + EQ + I32, n)],
    "pairs_id": lambda n: [(ID + EQ + ID, n)],
    "pairs_short_string": lambda n: [(ID + EQ + H(0x0f) + H(1) + b"a", n)],
    "pairs_u64": lambda n: [(ID + EQ + U64, n)],
    "pairs_f64": lambda n: [(ID + EQ + F64, n)],
    "pairs_bool": lambda n: [(ID + EQ + BOOL, n)],
    "pairs_rgb": lambda n: [(ID + EQ + RGB3, n)],
    "lone_ids": lambda n: [(ID, n)],
    "equal_run": lambda n: [ID, (EQ, n), I32],
    "array_i32": lambda n: [ID + EQ + OPEN, (I32, n), CLOSE],
    "array_ids": lambda n: [ID + EQ + OPEN, (ID, n), CLOSE],
    "array_f32": lambda n: [ID + EQ + OPEN, (F32, n), CLOSE],
    "array_i64": lambda n: [ID + EQ + OPEN, (I64, n), CLOSE],
    "array_strings": lambda n: [ID + EQ + OPEN, (H(0x17) + H(2) + b"ab", n), CLOSE],
    "array_empty_strings": lambda n: [ID + EQ + OPEN, (H(0x0f) + H(0), n), CLOSE],
    "array_of_arrays": lambda n: [ID + EQ + OPEN, (OPEN + I32 + CLOSE, n), CLOSE],
    "object_fields": lambda n: [ID + EQ + OPEN, (ID + EQ + I32, n), CLOSE],
    "array_turning_mixed": lambda n: [ID + EQ + OPEN, (I32, n), ID + EQ + I32 + CLOSE],
    "object_turning_mixed": lambda n: [ID + EQ + OPEN, (ID + EQ + I32, n), I32 + I32 + CLOSE],
    "mixed_tail": lambda n: [ID + EQ + OPEN + I32 + ID + EQ + I32, (I32, n), CLOSE],
    "ghosts_leading": lambda n: [ID + EQ + OPEN, (OPEN + CLOSE, n), ID + EQ + I32 + CLOSE],
    "ghosts_top": lambda n: [(OPEN + CLOSE, n), ID + EQ + I32],
    "ghosts_after_value": lambda n: [ID + EQ + OPEN + I32, (OPEN + CLOSE, n), CLOSE],
    "close_run": lambda n: [ID + EQ + I32, (CLOSE, n)],
    "rgb_elements": lambda n: [ID + EQ + H(0x243) + OPEN, (U32, n), CLOSE],
    "rgb_headers": lambda n: [ID + EQ, (H(0x243), n), OPEN + U32 * 3 + CLOSE],
    "zero_bytes": lambda n: [(b"\x00", n)],
    "ff_bytes": lambda n: [(b"\xff", n)],
    "odd_tail": lambda n: [(ID + EQ + I32, n), b"\x0c"],
}
BIN_DEPTH_DIMS = {
    "depth_objects": (1, lambda n: [(ID + EQ + OPEN, n), ID + EQ + I32, (CLOSE, n)]),
    "depth_arrays": (1, lambda n: [ID + EQ, (OPEN, n), I32, (CLOSE, n)]),
    "depth_mixed": (1, lambda n: [(ID + EQ + OPEN + I32, n), (CLOSE, n)]),
    "depth_unclosed_objects": (1, lambda n: [(ID + EQ + OPEN, n), ID + EQ + I32]),
    "open_run_unclosed": (1, lambda n: [ID + EQ, (OPEN, n)]),
    "depth_rgb_headers": (1, lambda n: [ID + EQ, (H(0x243) + OPEN, n), (CLOSE, n)]),
}
BIN_SHAPES = ["map(any)", "map(ign)", "struct(61#2d84*:any,62#2d85:any)"]
RES = "map:2d84=61,2d85=62"
# token ids: every id the lexer treats specially, their neighbours, the u8 / u16 edges
ID_LADDER = sorted(set(list(range(0, 0x21)) + [0xfe, 0xff, 0x100, 0x101, 0x165, 0x166, 0x167, 0x168, 0x169, 0x241, 0x242, 0x243, 0x244, 0x245,
                                                0x29a, 0x29b, 0x29c, 0x29d, 0x29e, 0x315, 0x316, 0x317, 0x318, 0x319, 0x10c, 0x10e, 0x10f, 0x114, 0x117,
                                                0x2d83, 0x2d84, 0x2d85, 0x7fff, 0x8000, 0x8001, 0xfffe, 0xffff]))


def bin_sinks(parts, n, rot, depth=0, heavy=True):
    h = rle(parts)
    L = plen(parts)
    if L > MAX_INPUT:
        return []
    big = n > 4097 and not heavy
    out = [z("bl.lex\t" + h), z("bt.all\t" + h)]
    if depth <= DEPTH_CUT["c05.binapi"] and not big:
        out.append(z("c05.binapi\t" + h))
    streams = ["bl.stream\t%s\t%d\t-" % (h, L + 1), "bl.stream\t%s\t64\t-" % h, "bl.stream\t%s\t%d\t%s" % (h, L + 9, sched(7, L)),
               "bl.stream\t%s\t%d\t%s" % (h, L + 3, sched(1, L) if L <= MAX_REFILLS else sched(3, L)), "bl.rslice\t" + h]
    out.append(z(streams[rot % 5]))
    out.append(z("bl.rops\t%s\t%d\t-\t%s" % (h, [16, 64, L + 5][rot % 3], ["n,n,n,k,T", "r,r,k,T", "n,n,by%d,T" % n, "k,T", "n,n,k,n,n,k,T"][rot % 5])))
    # count x capacity: the token vector handed to the tape parser has 0..3 spare slots around the count
    out.append(z("bt.cap\t%d\t%s" % ([0, n, n + 2, n + 3, n + 4, n + 5][rot % 6], h)))
    combos = [(p, sh) for p in ("tape", "slice", "fslice", "reader:64:-", "reader:%d:%d*" % (L + 4, coarse(3, L)), "freader:-", "freader:%d*" % coarse(5, L)) for sh in BIN_SHAPES
              if not (sh == BIN_SHAPES[2] and p not in ("slice", "tape", "reader:64:-"))]
    for j in range(2 if not big else 1):
        path, shape = combos[(2 * rot + j) % len(combos)]
        if depth > DEPTH_CUT["de.bin"] or big:
            shape = "map(ign)"
        out.append(z("\t".join(["de.bin", path, ["error", "stringify", "ignore"][rot % 3], RES, "eu4" if rot % 2 else "raw", shape, h])))
    return out


# ------------------------------------------------------------------ buffer sizes / refills / read chunks
BUF_SIZES = list(range(0, 41)) + [32767, 32768, 32769] + list(range(65535, 65541))


def buffer_cases(rng):
    out = []
    small = b'a=b c={ d "e" } #x\nf>=1 '
    bsmall = ID + EQ + I32 + ID + EQ + OPEN + H(0x0f) + H(3) + b"abc" + U64 + CLOSE + ID + EQ + F64
    for cap in BUF_SIZES:
        rep = 3 if cap < 100 else cap // len(small) + 3
        doc = [(small, rep)]
        hd = rle(doc)
        L = plen(doc)
        for sc in ("-", sched(max(cap // 2, 1), L) if cap > 100 else sched(1, L), sched(3, L) if cap < 100 else sched(4093, L)):
            out.append(z("tr.stream\t%d\t%s\t%s" % (cap, sc, hd)))
            out.append(z("c05.trops\t%d\t%s\t%s\t%s" % (cap, sc, hd, rng.choice(["n,n,n,k,T", "r,u,k,T", "n,b%d,T" % cap, "n,b%d,T" % (cap + 1), "n,n,b%d,k,T" % max(cap - 1, 0)]))))
        out.append(z("tr.stream\t%d\t-\t%s\t%d" % (cap, hd, 0x7b)))                     # recycled dirty buffer
        out.append(z("de.text\treader:%d:-\tutf8\tmap(any)\t%s" % (cap, hd)))
        out.append(z("de.text\treader:%d:2*\tw1252\tmap(ign)\t%s" % (cap, hd)))
        # one token that fills the buffer exactly / is one short / one over (BufferFull boundary), each token class
        for tl in sorted({max(cap - 2, 0), max(cap - 1, 0), cap, cap + 1}):
            for name, tok in (("q", [b'"', (b"q", max(tl - 2, 0)), b'"']), ("u", [(b"u", tl)]), ("c", [b"#", (b"c", max(tl - 1, 0)), b"\n"]), ("w", [(b" ", tl)])):
                doc = [b"a="] + tok + [b" x=y"]
                L = plen(doc)
                sc = rng.choice(["-", sched(1, L) if L <= MAX_REFILLS else sched(3, L), sched(5, L)])
                out.append(z("tr.stream\t%d\t%s\t%s" % (cap, sc, rle(doc))))
                if name in "qu" and tl in (cap, cap - 1):
                    out.append(z("tr.skip\t%d\t%s\t%s\t0" % (cap, sc, rle([b"{ "] + tok + [b" } x=y"]))))
                    out.append(z("tr.skipuv\t%d\t%s\t%s\t2" % (cap, sc, rle(doc))))
                    out.append(z("tr.readbytes\t%d\t%s\t%s\t2\t%d" % (cap, sc, rle(doc), tl)))
        # binary: data tokens of every width and a string token ending exactly at / around the end of the buffer
        rep = 3 if cap < 100 else cap // len(bsmall) + 3
        hb = rle([(bsmall, rep)])
        Lb = len(bsmall) * rep
        for sc in ("-", sched(max(cap // 2, 1), Lb) if cap > 100 else sched(1, Lb), sched(3, Lb) if cap < 100 else sched(4093, Lb)):
            out.append(z("bl.stream\t%s\t%d\t%s" % (hb, cap, sc)))
            out.append(z("bl.rops\t%s\t%d\t%s\t%s" % (hb, cap, sc, rng.choice(["n,n,n,k,T", "r,r,r,r,r,k,T", "n,by%d,T" % cap, "n,n,n,n,n,k,by%d,T" % max(cap - 1, 0)]))))
        out.append(z("de.bin\treader:%d:-\tstringify\t%s\traw\tmap(any)\t%s" % (cap, RES, hb)))
        out.append(z("de.bin\treader:%d:2*\terror\t%s\teu4\tmap(ign)\t%s" % (cap, RES, hb)))
        for sl in sorted({max(cap - 9, 0), max(cap - 5, 0), max(cap - 4, 0), max(cap - 3, 0), max(cap - 1, 0), cap}):
            if sl > 65535:
                continue
            doc = [ID + EQ] + bstr(rng.choice([0x0f, 0x17]), sl) + [ID + EQ + I32]
            L = plen(doc)
            sc = rng.choice(["-", sched(1, L) if L <= MAX_REFILLS else sched(3, L), sched(5, L)])
            out.append(z("bl.stream\t%s\t%d\t%s" % (rle(doc), cap, sc)))
            out.append(z("bl.rops\t%s\t%d\t%s\tn,n,k,T" % (rle([ID + EQ + OPEN] + bstr(0x0f, sl) + [CLOSE + ID + EQ + I32]), cap, sc)))
    return out


def refill_cases():
    """m refills inside ONE token: a token of m bytes delivered one byte per read into a buffer that holds it"""
    out = []
    for m in REFILL_LADDER:
        cap = m + 100
        for tok in ([b'"', (b"q", m), b'"'], [(b"u", m)], [b"#", (b"c", m), b"\n"], [(b" ", m)], [b'"', (b'\\"', m // 2), b'"'], [b"@[", (b"x", m), b"]"]):
            doc = [b"a="] + tok + [b" x=y"]
            L = plen(doc)
            out.append(z("tr.stream\t%d\t%s\t%s" % (cap, sched(1, L), rle(doc))))
        doc = [b"a={ ", (b"u", m), b' "', (b"q", m), b'" } x=y']
        L = plen(doc)
        out.append(z("tr.skip\t%d\t%s\t%s\t3" % (2 * cap, sched(1, L), rle(doc))))
        out.append(z("tr.skipuv\t%d\t%s\t%s\t2" % (2 * cap, sched(1, L), rle(doc))))
        out.append(z("tr.readbytes\t%d\t%s\t%s\t2\t%d" % (2 * m + 200, sched(1, L), rle(doc), m)))
        out.append(z("c05.trops\t%d\t%s\t%s\tn,n,n,k,b%d,T" % (2 * cap, sched(1, L), rle(doc), m)))
        if m <= 4097:       # cyclic 1-byte schedule of the deserializer paths
            out.append(z("de.text\treader:%d:1*\tutf8\tmap(any)\t%s" % (2 * cap, rle(doc))))
        if m <= 65535:
            doc = [ID + EQ] + bstr(0x0f, m) + [ID + EQ + I32]
            L = plen(doc)
            out.append(z("bl.stream\t%s\t%d\t%s" % (rle(doc), cap, sched(1, L))))
            out.append(z("bl.rops\t%s\t%d\t%s\tn,n,by%d,T" % (rle(doc), cap, sched(1, L), m)))
            out.append(z("bl.rops\t%s\t%d\t%s\tn,n,n,k,T" % (rle([ID + EQ + OPEN] + bstr(0x17, m) + [CLOSE + ID + EQ + I32]), cap, sched(1, L))))
            if m <= 4097:
                out.append(z("de.bin\treader:%d:1*\tstringify\t%s\traw\tmap(any)\t%s" % (cap, RES, rle(doc))))
    return out


def chunk_cases():
    """read-chunk size k on a document of ~9 KiB through a 4200-byte buffer"""
    out = []
    small = b'a=b c={ d "e" } #x\nf>=1 '
    bsmall = ID + EQ + I32 + ID + EQ + OPEN + H(0x0f) + H(3) + b"abc" + U64 + CLOSE + ID + EQ + F64
    for k in [n for n in LADDER if 1 <= n <= 4097]:
        L = len(small) * 380
        out.append(z("tr.stream\t4200\t%s\t%s" % (sched(k, L), rle([(small, 380)]))))
        out.append(z("c05.trops\t4200\t%s\t%s\tn,n,n,n,k,T" % (sched(k, L), rle([(small, 380)]))))
        out.append(z("de.text\treader:4200:%d*\tutf8\tmap(any)\t%s" % (k, rle([(small, 380)]))))
        Lb = len(bsmall) * 240
        out.append(z("bl.stream\t%s\t4200\t%s" % (rle([(bsmall, 240)]), sched(k, Lb))))
        out.append(z("de.bin\treader:4200:%d*\tstringify\t%s\traw\tmap(any)\t%s" % (k, RES, rle([(bsmall, 240)]))))
    return out


def align_cases():
    """length x alignment: a token of n bytes starting k bytes into the input (8-byte SWAR words, 16-byte SSE2 blocks)"""
    out = []
    r = 0
    for k in (0, 1, 7, 8, 9, 15, 16):
        for n in (7, 8, 9, 15, 16, 17, 31, 32, 33, 64):
            for tok in ([b'"', (b"q", n), b'"'], [(b"u", n)], [b"#", (b"c", n), b"\n"], [(b"\t", n), b"{ z }"], [(b"0", n), b"1"], [b'"', (b"\\", n - n % 2), b'"'], [(b"\xe9", n)]):
                doc = [(b" ", k), b"k="] + tok + [b" x=y"]
                h = rle(doc)
                L = plen(doc)
                r += 1
                more = [z("c05.dom\t" + h), z("tr.stream\t%d\t%s\t%s" % (L + 1, sched(8, L), h)),
                        z("tr.subslice\t%s\t%d" % (rle(doc + [b"}}}} {{{{"]), L)), z("de.text\tslice\tw1252\tmap(any)\t" + h)]
                out += [z("tt.parse\t" + h), z("tr.slice\t" + h), more[r % 4]]
            for sl in (n,):
                doc = [(ID, k)] + bstr(0x0f, sl) + [EQ + I32]
                h = rle(doc)
                out += [z("bl.lex\t" + h), z("bt.all\t" + h), z("bl.stream\t%s\t%d\t%s" % (h, plen(doc) + 1, sched(8, plen(doc))))]
            lf = rle([(b"0", k), (b"7", n)])
            out += [z("scalar.u64\t" + lf), z("scalar.i64\t" + lf), z("f64.parse\t" + lf), z("enc.w1252\t" + rle([(b"a", k), (b"\xe9", n)])), z("enc.utf8\t" + rle([(b"a", k), (b"\xc3\xa9", n)]))]
    return out


# ------------------------------------------------------------------ the writer's call API
def writer_cases():
    out = []
    def wc(cfg, calls):
        return "c05.w\t%d\twriter.calls\t%s\t%s" % (WATCHDOG_MS, cfg, ";".join(calls))
    for n in LADDER:
        for k in ("u", "q", "h"):
            out.append(wc("32,1,r", ["u:6b", "%s:%s" % (k, "61" * n if n else "-"), "u:78", "u:79"]))
        out.append(wc("9,3,r", ["u:6b", "q:%s" % ("5c22" * (n // 2) or "-"), "u:78"]))
        out.append(wc("32,1,r", ["u:6b", "q:%s" % ("0a" * n or "-"), "u:78"]))
    for n in [x for x in LADDER if x <= 4097]:
        out.append(wc("32,0,r", ["u:6b", "as"] + ["i32:1"] * n + ["e"]))                       # array elements
        out.append(wc("32,1,r", ["u:6b", "os"] + ["u:78", "i32:1"] * n + ["e"]))                # fields
        out.append(wc("32,1,r", ["u:6b", "u:76"] * n))                                          # top-level pairs
        out.append(wc("32,1,r", ["u:6b"] + ["op:%d" % (i % 7) for i in range(n)] + ["u:76"]))   # consecutive operators
        out.append(wc("32,1,r", ["e"] * n + ["u:6b", "u:76"]))                                  # unbalanced ends
    for n in [x for x in LADDER if x <= 1025]:                                                  # depth: output is quadratic in the depth (indent)
        out.append(wc("32,1,r", ["u:6b", "os", ] * n + ["u:78", "u:79"] + ["e"] * n))
        out.append(wc("9,1,r", ["u:6b"] + ["as"] * n + ["i32:1"] + ["e"] * n))
        out.append(wc("32,0,r", ["u:6b", "as", "m", "u:61", "op:0"] * n + ["i32:1"] + ["e"] * n))
    for n in [x for x in LADDER if x <= 129]:
        out.append(wc("32,255,r", ["u:6b", "os"] * n + ["u:78", "u:79"] + ["e"] * n))             # depth x indent factor 255
    return out


# ------------------------------------------------------------------ the part
MODEL_KINDS = ("tt.parse", "tr.slice", "tr.stream", "tr.skip", "tr.skipuv", "tr.readbytes", "scalar.u64", "scalar.i64", "scalar.bool", "date.parse",
               "dh.parse", "ud.parse", "raw.parse")


def expand_small(case, limit=2200):
    """a small `c05.z` case as a plain `c05.w` case (the OCaml driver knows c05.w), or None"""
    p = case.split("\t")
    if p[0] != "c05.z" or p[2] not in MODEL_KINDS:
        return None
    args = []
    for a in p[3:]:
        if a[:1] in "~%":
            items = []
            for it in a[1:].split(","):
                if not it or it == "-":
                    continue
                t, _, k = it.partition("*")
                items += [t] * (int(k) if k else 1)
                if len(items) > 4 * limit:
                    return None
            a = ("".join(items) if a[0] == "~" else ",".join(items)) or "-"
            if len(a) > 2 * limit:
                return None
        args.append(a)
    return "\t".join(["c05.w", p[1], p[2]] + args)


def all_cases(ctx):
    rng = ctx.rng
    thorough = ctx.tier == "thorough"
    cases = []
    tag = []
    rot = [rng.randrange(1000)]
    def add(name, cs):
        cases.extend(cs)
        tag.extend([name] * len(cs))
        ctx.count("size_" + name, len(cs))
    def nxt():
        rot[0] += 1
        return rot[0]
    def rungs(name, heavy_set):
        if thorough or name in heavy_set:
            return LADDER
        return [n for n in LADDER if n not in (65533, 65534)]
    for name, f in TEXT_DIMS.items():
        for n in rungs(name, HEAVY_TEXT):
            add("text:" + name, text_sinks(f(n), n, nxt(), heavy=thorough or name in HEAVY_TEXT))
    for name, (mult, f) in TEXT_DEPTH_DIMS.items():
        for n in rungs(name, ("depth_objects", "depth_arrays")):
            add("text:" + name, text_sinks(f(n), n, nxt(), depth=mult * n, heavy=thorough))
    for name, f in LEAF_DIMS.items():
        for n in rungs(name, ("leaf_digits", "leaf_zero_padding", "leaf_high")):
            r = nxt()
            add("leaf:" + name, [z("%s\t%s" % (LEAF_KINDS[(r + j) % len(LEAF_KINDS)], rle(f(n)))) for j in range(len(LEAF_KINDS) if thorough else 4)])
    for name, f in BIN_DIMS.items():
        for n in rungs(name, set(HEAVY_BIN) | {k for k in BIN_DIMS if "quoted" in k or "string" in k or "unquoted_len" in k}):
            if ("quoted" in name or "string" in name or "unquoted_len" in name) and n > 65535:
                continue        # the length prefix is a u16
            add("bin:" + name, bin_sinks(f(n), n, nxt(), heavy=thorough or name in HEAVY_BIN))
    for name, (mult, f) in BIN_DEPTH_DIMS.items():
        for n in rungs(name, ("depth_objects", "depth_arrays")):
            add("bin:" + name, bin_sinks(f(n), n, nxt(), depth=mult * n, heavy=thorough))
    for t in ID_LADDER:
        for parts in ([H(t) + EQ + H(t)], [ID + EQ + OPEN + H(t) + H(t) + CLOSE], [ID + EQ + H(t) + b"\x01\x00\x00\x00\x00\x00\x00\x00\x00" + ID + EQ + I32]):
            add("bin:token_id", bin_sinks(parts, 3, nxt()))
    add("buffer_size", buffer_cases(rng))
    add("refills_in_one_token", refill_cases())
    add("read_chunk", chunk_cases())
    add("length_x_alignment", align_cases())
    add("writer_calls", writer_cases())
    return cases, tag


# dimensions whose 65533..65536 cases also go through the costly kinds (DOM walk, write_tape, `any` targets on every path) in the quick tier
HEAVY_TEXT = {"quoted_len", "unquoted_len", "key_len", "duplicate_keys", "array_elements", "ghosts_leading", "space_run", "comment_len"}
HEAVY_BIN = {"quoted_len", "unquoted_len", "pairs_i32", "array_i32", "ghosts_leading", "object_fields"}


def run_size(ctx):
    from props import C05_inv
    cases, tag = all_cases(ctx)
    # the runner hands CONTIGUOUS slices to its worker processes: interleave, so that the long rungs do not all land in one slice
    order = sorted(range(len(cases)), key=lambda k: (k % 97, k))
    cases = [cases[k] for k in order]
    tag = [tag[k] for k in order]
    ctx.count("size_ladder_cases", len(cases))
    for prof in ("release", "debug"):
        r = C05_inv.guarded(ctx, "size_ladder_" + prof, cases, prof, nontrivial=lambda c, i: not (i.startswith("ERR") or i in ("NOKIND", "none", "BADCASE")), model=False)
        if r is None:
            continue
        impl = r[0]
        base = len(impl) - len(cases)
        C05_inv.judge(ctx, prof, cases, impl)
        for k, c in enumerate(cases):
            if C05_inv.crashed(impl[base + k]):
                ctx.count("size_crash_" + tag[k])
    # the small cases with the extracted model (release): a crash that the model does not have is also a disagreement
    small = sorted(set(e for e in (expand_small(c) for c in cases) if e))
    small = [small[k] for k in sorted(range(len(small)), key=lambda k: (k % 97, k))]
    ctx.count("size_model_cases", len(small))
    impl, _ = ctx.correspond("size_model_release", small, nontrivial=lambda c, i: not i.startswith("ERR"), profile="release", model=True)
    C05_inv.judge(ctx, "release", small, impl)
