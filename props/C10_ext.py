"""C10, wave 5 (engineer w_c10): the EXTENDED logical documents of coq/theories/LogicDocX.v -- colours that are READ at
arbitrary object-value positions, DateHour values -- run against the implementation (Props/C10_ext.v).

stream ext_docs (model only): every generated document (an xdoc + an encoding choice + a layout) goes through the
EXTRACTED LogicDocX.to_textx / to_binx / binx_bytes and TextDoc.render: the model prints the two byte renderings and the
flags wf_xdoc / rgbpos / TextDoc.wf_fields / ext_fields / sx_fields / plain_fields; and through the two specifications the
theorems are stated over: TextDeSpec2.spec_value2 true / false on to_textx d (T1 / T0) and BinDoc.spec_of on to_binx e d (B).
stream ext-text-vs-binary (implementation): the real deserializers on THOSE BYTES -- text: from_*_slice, from_*_tape,
ObjectReader, and (where no colour is captured) from_*_reader with small buffers and chopped schedules; binary: tape,
on-demand, stream reader.  Oracles:
  ext-differ   the property itself: all paths of a group return the same thing             (C10_ext_bytes_agree[_stream])
  ext-text     every text slice/tape path returns T1, every text reader path returns T0        (C02 tie of the new documents)
  ext-bin      every binary path returns B                                                    (C04 tie)
  model level  T1 = B (and T0 = B where no colour is captured) on every document that was generated as shared
               (C10_ext_spec_of_agree), never "unfit" (C10_ext_shared_fits); flags all 1 (C10_ext_renderings_wf)
stream ext_probes: the three refuted witnesses of Props/C10_ext.v replayed: colour as an array element (finding
rgb-in-array), colour captured through the text stream path (H-stream-header seen from C10), colour into a String."""
import hashlib
import struct
from fractions import Fraction
from props import dedoc as D
from props.dedoc import hx

RGB_SHAPES = ["tup(str,seq(u8))", "tup(str,seq(u8))", "tup(str,seq(u32))", "tup(ign,seq(u16))", "tup(str,ign)", "opt(tup(str,seq(u8)))",
              "tup(str,seq(i16))", "tup(str,seq(f32))", "tup(str,seq(f64))", "tup(str,seq(u64))", "tup(str,seq(bool))", "opt(opt(tup(ign,ign)))"]


def xfail(ctx, key, *a):
    """ctx.fail + a counter per oracle (evidence: distribution ext_failed_<key>)"""
    ctx.count("ext_failed_" + key)
    ctx.fail(key, *a)


class G:
    """random (document, shape) pairs, shared by construction"""

    def __init__(self, rng, enc):
        self.r = rng
        self.enc = enc
        self.ids = {}            # decoded name (str) -> token id
        self.used_ids = set()
        self.captures = False    # some colour is read by the full shape

    # ---- names / strings
    def ident(self, used=()):
        while True:
            s = self.r.choice(D.LOW) + "".join(self.r.choice(D.IDCH) for _ in range(self.r.randrange(0, 6)))
            if s not in used and s not in ("rgb", "yes", "no", "hsv"):
                return s

    def text_str(self):
        r = self.r
        k = r.random()
        if k < 0.5:
            return ("U", self.ident())
        if k < 0.65:
            return ("U", self.ident() + r.choice(D.HIGH_UNQ) + self.ident())
        if k < 0.9:
            return ("Q", " ".join(self.ident() for _ in range(r.randrange(1, 3))))
        return ("Q", self.ident() + r.choice(D.HIGH_Q) + " " + r.choice(["=", "{", "#", "1.5", ""]))

    def tok_id(self, name):
        if name not in self.ids:
            while True:
                i = self.r.choice([self.r.randrange(0x0400, 0xfff0), self.r.choice([x for x in range(0x0018, 0x0317) if x not in (0x0167, 0x0243, 0x029c)])])
                if i not in self.used_ids:
                    break
            self.used_ids.add(i)
            self.ids[name] = i
        return self.ids[name]

    def sform(self, s):
        """binary form of the string s: quoted / unquoted / resolvable token id"""
        k = self.r.random()
        if k < 0.3 and all(c in D.IDCH for c in s):
            return "I%04x" % self.tok_id(s)
        return "Q" if k < 0.65 else "U"

    # ---- scalars: (xdoc syntax, shape string, choice fields)
    def date(self, hour):
        r = self.r
        y = r.choice([r.randrange(1, 3000), r.randrange(-4999, 0), r.choice([-5000, -1, 0, 1, 9999, 10000, 32767])])
        m = r.randrange(1, 13)
        d = r.choice([1, D.DPM[m], r.randrange(1, D.DPM[m] + 1)])
        h = r.choice([1, 2, 9, 10, 12, 23, 24])
        wide = r.random() < 0.3 and (not hour or h >= 10)
        q = r.random() < 0.3
        if hour:
            txt = ("%d.%02d.%02d.%02d" if wide else "%d.%d.%d.%d") % (y, m, d, h)
            return "DH %d %d %d %d %d %d" % (y, m, d, h, wide, q), txt
        txt = ("%d.%02d.%02d" if wide else "%d.%d.%d") % (y, m, d)
        return "D %d %d %d %d %d" % (y, m, d, wide, q), txt

    def scalar(self, fl):
        """-> (value syntax, shape, choice dict)"""
        r = self.r
        k = r.choice([0, 0, 1, 1, 2, 3, 4, 5, 5, 6, 6, 7]) if r.random() < 0.93 else 7
        if k == 7 and r.random() < 0.8:
            k = 0
        ch = {}
        if k == 0:
            kind, s = self.text_str()
            ch["str"] = self.sform(s)
            return "S %s %s" % (kind, hx(D.enc_bytes(s, self.enc))), r.choice(["str", "str", "opt(str)", "enum(%s,%s)" % (hx(D.enc_bytes(s, "utf8")), hx("zz"))]), ch
        if k == 1:
            bits, signed = r.choice([(8, False), (16, False), (32, False), (64, False), (8, True), (16, True), (32, True), (64, True)])
            lo, hi = (-(1 << (bits - 1)), (1 << (bits - 1)) - 1) if signed else (0, (1 << bits) - 1)
            z = r.choice([lo, hi, r.randrange(lo, hi + 1), r.randrange(lo, hi + 1), max(lo, min(hi, r.randrange(-300, 300)))])
            if r.random() < 0.04:
                z = r.choice([hi + 1, lo - 1])
            z = max(-(1 << 63) + 1, min(z, (1 << 64) - 1))
            ws = [w for w, (a, b) in (("i32", (-2 ** 31, 2 ** 31 - 1)), ("u32", (0, 2 ** 32 - 1)), ("i64", (-2 ** 63, 2 ** 63 - 1)), ("u64", (0, 2 ** 64 - 1))) if a <= z <= b]
            ch["int"] = r.choice(ws)
            sh = "%s%d" % ("i" if signed else "u", bits)
            if bits == 16 and not signed:
                sh = "u32"                         # u16 is the token hint: not in scalar_shared on strings only, fine on ints; keep clear of it
            if r.random() < 0.02:
                sh = "bool"                        # both sides refuse
            return "I %d" % z, sh, ch
        if k == 2:
            z = r.choice([r.randrange(-100000, 100000), r.randrange(-2 ** 53 + 1, 2 ** 53), 0, 2 ** 24 + 1])
            ws = [w for w, (a, b) in (("i32", (-2 ** 31, 2 ** 31 - 1)), ("u32", (0, 2 ** 32 - 1)), ("i64", (-2 ** 63, 2 ** 63 - 1)), ("u64", (0, 2 ** 64 - 1))) if a <= z <= b]
            ch["int"] = r.choice(ws)
            return "I %d" % z, r.choice(["f64", "f32", "opt(f64)"]), ch     # int_float_ok: exact in f64
        if k == 3:
            b = r.random() < 0.5
            return "B %d" % b, ("bool" if r.random() < 0.95 else r.choice(["u8", "i32"])), ch
        if k == 4:
            v, txt = self.date(False)
            ch["date"] = r.random() < 0.6
            ch["str"] = r.choice(["Q", "U"])
            return v, r.choice(["date", "opt(date)"]), ch
        if k == 5:
            v, txt = self.date(True)
            ch["date"] = r.random() < 0.6
            ch["str"] = r.choice(["Q", "U", "I%04x" % self.tok_id(txt)])
            return v, r.choice(["dh", "dh", "opt(dh)"]), ch
        if k == 6:
            n8 = r.choice([r.randrange(-8000, 8000), r.randrange(0, 64)])
            fr = Fraction(n8, 8)
            txt = ("%.3f" % float(fr)).rstrip("0").rstrip(".") if r.random() < 0.5 else "%.3f" % float(fr)
            if txt in ("-0", "-0.000"):
                txt = "0"
            p32 = struct.pack("<i", int(fr * 1000)) if fl == "eu4" else struct.pack("<f", float(fr))
            p64 = struct.pack("<q", int(fr * 32768)) if fl == "eu4" else struct.pack("<d", float(fr))
            ch["f32"] = r.random() < 0.5
            sh = r.choice(["f32", "f64"])
            if sh == "f64" and ch["f32"]:
                # an f64 target on an F32 token is the widened f32: equal for n/8 (exact in f32)
                pass
            return "F %s %s %s" % (hx(txt), hx(p32), hx(p64)), sh, ch
        # a string under a typed hint that does not parse: both sides refuse / hand out the string
        kind, s = ("U", self.ident())
        ch["str"] = self.sform(s)
        return "S %s %s" % (kind, hx(s)), r.choice(["u8", "i64", "bool", "f64"]), ch

    def rgb(self):
        r = self.r
        n = r.choice([3, 3, 4])
        big = r.random() < 0.12
        c = [r.choice([r.randrange(0, 70000), 2 ** 32 - 1, 256, 2 ** 24 + 1, 65535, 65536]) if big else r.choice([r.randrange(0, 256), 0, 255]) for _ in range(n)]
        return "RGB %d %d %d %s" % (c[0], c[1], c[2], c[3] if n == 4 else "-")

    # ---- values: -> (syntax, full shape, plain shape, choices {relative path tuple: dict})
    def value(self, fl, depth, flat=False):
        r = self.r
        k = r.random()
        if k < 0.22:
            v = self.rgb()
            sh = r.choice(RGB_SHAPES + ["ign"])
            if sh != "ign":
                self.captures = True
            return v, sh, r.choice(["ign", "opt(ign)"]), {(): {}}
        if flat or depth >= 3 or k >= 0.55:
            sv, ssh, sch = self.scalar(fl)
            return sv, ssh, ssh, {(): sch}
        if k < 0.34:
            v, full, plain, chs, _ = self.obj(fl, depth + 1)
            return v, full, plain, chs
        if k < 0.42:
            # map-like object: values of one scalar kind, or colours
            n = r.randrange(1, 4)
            used, fs, chs = [], [], {(): {"ghost": r.random() < 0.15}}
            T = None
            col = r.random() < 0.3
            csh = r.choice(RGB_SHAPES)
            for i in range(n):
                key = self.ident(used)
                used.append(key)
                if col:
                    self.captures = True
                    item = (self.rgb(), csh, "ign", {(): {}})
                else:
                    sv, ssh, sch = self.scalar(fl) if T is None else self.scalar_like(T, fl)
                    if T is None:
                        T = ("scalar", ssh, sv.split(" ")[0])
                    item = (sv, ssh, ssh, {(): sch})
                fs.append(self.field(key, item, i, chs, first=(i == 0)))
            esh, epsh = (csh, "ign") if col else (T[1], T[1])
            return "O %d %s" % (n, " ".join(fs)), "map(%s)" % esh, "map(%s)" % epsh, chs
        # array: of objects with one schema (scalars / colours inside), or of scalars of one kind
        n = r.randrange(0, 4)
        chs = {(): {}}
        if r.random() < 0.5:
            schema, shapes, items = None, ("ign", "ign"), []
            for j in range(n):
                v, full, plain, c, schema = self.obj(fl, depth + 1, schema=schema, flat=True)
                if j == 0:
                    shapes = (full, plain)
                for p, d in c.items():
                    chs[(j,) + p] = d
                items.append(v)
            return ("A %d %s" % (n, " ".join(items))).strip(), "seq(%s)" % shapes[0], "seq(%s)" % shapes[1], chs
        T, items = None, []
        for j in range(n):
            sv, ssh, sch = self.scalar(fl) if T is None else self.scalar_like(T, fl)
            if T is None:
                T = ("scalar", ssh, sv.split(" ")[0])
            chs[(j,)] = sch
            items.append(sv)
        esh = T[1] if T else "u8"
        return ("A %d %s" % (n, " ".join(items))).strip(), "seq(%s)" % esh, "seq(%s)" % esh, chs

    def scalar_like(self, T, fl):
        """another scalar that the shape T[1] reads the same way from both sides: same generator branch, same shape"""
        for _ in range(300):
            sv, ssh, sch = self.scalar(fl)
            if ssh == T[1] and sv.split(" ")[0] == T[2] and not ssh.startswith("enum"):
                return sv, ssh, sch
            if T[1].startswith("enum") and sv.startswith("S ") and ssh == "str":
                return sv, T[1], sch          # any string into the enum: unknown variant -> the same refusal
        return "B 1", T[1], {}                # gives up: a boolean (shared for bool / ints; else counted not_shared)

    def field(self, key, item, i, chs, first):
        sv, _, _, c = item
        for p, d in c.items():
            chs[(i,) + p] = dict(d)
        kq = self.r.random() < 0.1
        top = chs[(i,)]
        top["key"] = self.sform(key)
        top["kghost"] = (not first) and self.r.random() < 0.1
        return "%s %s %s" % ("Q" if kq else "U", hx(key), sv)

    def obj(self, fl, depth, schema=None, flat=False):
        """a struct-like object -> (syntax, full shape, plain shape, choices, schema); with a schema: another instance of it"""
        r = self.r
        chs = {(): {"ghost": r.random() < 0.15}}
        first = schema is None
        if first:
            used, schema = [], []
            for _ in range(r.randrange(1, 5)):
                key = self.ident(used)
                used.append(key)
                schema.append([key, r.choice(["", "", "", "*", "!"]), None, r.random() < 0.85])
        fs, i = [], 0
        for ent in schema:
            key, mode = ent[0], ent[1]
            reps = r.choice([2, 3]) if mode in ("*", "!") and r.random() < 0.7 else 1
            if not first and r.random() < 0.1:
                reps = 0                                 # missing in this instance: None for Option, else missing_field on both sides
            for _ in range(reps):
                if ent[2] is None:
                    item = self.value(fl, depth, flat=flat)
                    ent[2] = (item[1], item[2], item[0].split(" ")[0])
                else:
                    item = self.like_value(ent[2], fl)
                    if item is None:
                        break
                fs.append(self.field(key, item, i, chs, first=(i == 0)))
                i += 1
        if not fs:
            fs.append(self.field("zz9", ("B 1", "bool", "bool", {(): {}}), 0, chs, first=True))
            i = 1
        full, plain = [], []
        for (key, mode, proto, known) in schema:
            if proto is not None and known:
                full.append("%s%s:%s" % (hx(key), mode, proto[0]))
                plain.append("%s%s:%s" % (hx(key), mode, proto[1]))
        if first and r.random() < 0.3:
            # a declared Option field that the document does not have: None on both sides
            extra = hx(self.ident([e[0] for e in schema]))
            osh = r.choice(["str", "u8", "dh", RGB_SHAPES[0]])
            full.append("%s:opt(%s)" % (extra, osh))
            plain.append("%s:opt(%s)" % (extra, "str" if osh == RGB_SHAPES[0] else osh))
        return "O %d %s" % (i, " ".join(fs)), "struct(%s)" % ",".join(full), "struct(%s)" % ",".join(plain), chs, schema

    def like_value(self, ref, fl):
        """another value for a repeated key / the same slot of the next array element, for the shapes ref[0] / ref[1]"""
        full, plain, tag = ref
        if tag == "RGB":
            return self.rgb(), full, plain, {(): {}}
        if tag in ("I", "B", "S", "D", "DH", "F"):
            sv, ssh, sch = self.scalar_like(("scalar", full, tag), fl)
            return sv, full, plain, {(): sch}
        return None


def choice_str(d):
    return ",".join([d.get("int", "i32"), d.get("str", "Q"), "1" if d.get("date", True) else "0", "1" if d.get("f32", False) else "0",
                     d.get("key", "U"), "1" if d.get("kghost") else "0", "1" if d.get("ghost") else "0"])


def choices_str(chs):
    items = []
    for p, d in sorted(chs.items()):
        items.append(("r" if p == () else ".".join(map(str, p))) + "=" + choice_str(d))
    return ";".join(items) if items else "-"


def count_tokens(syntax):
    """number of text tokens of an xdoc in the syntax above (for the layout)"""
    t = syntax.split(" ")
    pos = [0]

    def nxt():
        x = t[pos[0]]
        pos[0] += 1
        return x

    def val():
        k = nxt()
        if k in ("I", "B"):
            nxt()
            return 1
        if k == "S":
            nxt(); nxt()
            return 1
        if k == "D":
            for _ in range(5):
                nxt()
            return 1
        if k == "DH":
            for _ in range(6):
                nxt()
            return 1
        if k == "F":
            nxt(); nxt(); nxt()
            return 1
        if k == "RGB":
            a = [nxt() for _ in range(4)]
            return 3 + (4 if a[3] != "-" else 3)
        if k == "A":
            n = int(nxt())
            return 2 + sum(val() for _ in range(n))
        if k == "O":
            n = int(nxt())
            return 2 + sum(fld() for _ in range(n))
        raise RuntimeError(k)

    def fld():
        nxt(); nxt()
        return 2 + val()
    n = int(nxt())
    return sum(fld() for _ in range(n))


GAPS = [b" ", b" ", b" ", b"  ", b"\n", b"\t", b"\r\n", b" \n ", b"\n#c\n", b" # a = { \n", b"\n\n"]


def gen_group(rng, gi):
    enc = rng.choice(["w1252", "utf8"])
    fl = "eu4" if enc == "w1252" else "raw"
    g = G(rng, enc)
    v, full, plain, chs, _ = g.obj(fl, 0)
    assert v.startswith("O ")
    xdoc = v[2:]
    chs[()]["ghost"] = rng.random() < 0.1
    nt = count_tokens(xdoc)
    gaps = [rng.choice([b"", b" ", b"\n"])] + [rng.choice(GAPS) for _ in range(nt - 1)] + [rng.choice([b"", b" ", b"\n", b" #end\n"])]
    bom = enc == "utf8" and rng.random() < 0.1
    strat = rng.choice(["error", "stringify", "ignore"])
    res = D.resolver_spec(g.ids, set(g.ids), rng.choice(["map", "lines"]))
    return dict(xdoc=xdoc, ch=choices_str(chs), full=full, plain=plain, enc=enc, fl=fl, strat=strat, res=res, gaps=gaps, bom=bom,
                captures=g.captures, gi=gi)


def run(ctx):
    import vlib
    from props import spectie
    rng = ctx.rng
    nt = lambda c, i: i.startswith("(")
    n = ctx.scale(400, 4000)
    groups = [gen_group(rng, gi) for gi in range(n)]
    tie = spectie.Tie(ctx, stream="ext_docs")
    # ---- phase 1: the model renders and specifies
    for g in groups:
        rc = "\t".join(["spec.logicx", g["xdoc"], g["ch"], "1" if g["bom"] else "0", ",".join(hx(x) for x in g["gaps"])])
        g["rc"] = rc

        def chk_render(m, g=g, rc=rc):
            parts = m.split(" | ")
            if len(parts) != 3 or "GAP_NOT_OK" in m:
                tie.disagree(rc, "flags | text | binary", m)
                return
            g["flags"], g["text"], g["bin"] = parts[0], parts[1], parts[2]
            if parts[0] != "wf=1 rgbpos=1 twf=1 ext=1 sx=1 plain=1":
                tie.disagree(rc, "every flag 1 (C10_ext_renderings_wf, generator)", parts[0])
        tie.add(rc, chk_render)
        for which in ("full", "plain"):
            vc = "\t".join(["spec.logicx.value", g["enc"], g["strat"], g["res"], g["fl"], g[which], g["xdoc"], g["ch"]])
            g["vc_" + which] = vc

            def chk_value(m, g=g, which=which, vc=vc):
                if not (m.startswith("T1=") and " T0=" in m and " B=" in m):
                    tie.disagree(vc, "T1=.. T0=.. B=..", m)
                    return
                t1, rest = m[3:].split(" T0=", 1)
                t0, b = rest.split(" B=", 1)
                g[which + "_spec"] = (t1, t0, b)
                captures = g["captures"] and which == "full"
                if "ERR:unfit" in (t1, b) or t1 != b:
                    # the generator's sharedness is by construction; a miss is a generator imprecision, counted, and the group is
                    # then only used for the per-format ties (never silently dropped: see ext_not_shared in the evidence)
                    ctx.count("ext_not_shared_" + which)
                    g[which + "_shared"] = False
                    if "PANIC" in m:
                        tie.disagree(vc, "no crash outcome", m)
                    return
                g[which + "_shared"] = True
                ctx.count("ext_shared_" + which + ("_captures" if captures else ""))
                ctx.count("ext_expect_" + ("error" if t1.startswith("ERR") else "value"))
                if not captures and t0 != b:
                    tie.disagree(vc, "spec_value2 false = spec_of where no colour is captured  [C10_ext_spec_of_agree, tp = false]", m)

            tie.add(vc, chk_value)
    tie.run()
    # ---- phase 2: the implementation on those bytes
    cases, meta = [], []
    for g in groups:
        if "text" not in g or "full_spec" not in g or "plain_spec" not in g:
            continue
        gi = g["gi"]
        ntoks_max = max([len(x) for x in g["gaps"]] + [40])
        mtb = max(32, ntoks_max + 8)
        for which in ("full", "plain"):
            captures = g["captures"] and which == "full"
            shs = g[which]
            tp = ["slice", ["tape", "objreader", "mslice", "etape"][gi % 4]]
            if not captures:
                tp.append("reader:%d:%s" % ([mtb, 64 + mtb, 32768][gi % 3], ["-", "1*", "7,3*"][gi % 3]))
                tp.append(["freader:-", "freader:5,1*", "reader:32768:1*"][gi % 3])
            bp = ["tape", "slice", "reader:%d:%s" % ([mtb + 8, 200 + mtb, 32768][gi % 3], ["-", "1*", "5,3*"][gi % 3])]
            if g["strat"] == "ignore":
                bp.append(["fslice", "freader:-", "freader:3,1*"][gi % 3])
            g0 = len(cases)
            for p in tp:
                cases.append("\t".join(["de.text", p, g["enc"], shs, g["text"]]))
            for p in bp:
                cases.append("\t".join(["de.bin", p, g["strat"], g["res"], g["fl"], shs, g["bin"]]))
            meta.append((g, which, g0, len(tp), len(bp)))
    impl, _ = ctx.correspond("ext-text-vs-binary", cases, nontrivial=nt, model=False)
    base = len(impl) - len(cases)
    for (g, which, g0, ntp, nbp) in meta:
        t1, t0, b = g[which + "_spec"]
        gc = cases[g0: g0 + ntp + nbp]
        go = impl[base + g0: base + g0 + ntp + nbp]
        names = [c.split("\t")[1] for c in gc]
        ctx.count("ext_groups")
        failed = False
        # the property: one value on all paths
        if g.get(which + "_shared"):
            ctx.count("ext_property_groups")
            if any(o != go[0] for o in go):
                failed = True
                j = next(i for i, o in enumerate(go) if o != go[0])
                xfail(ctx, "ext-differ", "text (%s) gives %s, %s (%s) gives %s; the specifications say %s" % (
                    names[0], go[0][:160], gc[j].split("\t")[0], names[j], go[j][:160], t1[:120]), [gc[0], gc[j]], [go[0], go[j]], t1)
        # the per-format ties: the implementation against the Coq specifications of its own format
        for j in range(ntp):
            stream_path = names[j].startswith(("reader:", "freader:"))
            want = t0 if stream_path else t1
            if want == "ERR:unfit" or want == "PANIC":
                continue
            ctx.count("ext_text_compared")
            if go[j] != want and not failed:
                failed = True
                xfail(ctx, "ext-text-" + names[j].split(":")[0], "de.text %s returns %s, TextDeSpec2.spec_value2 %s on the text rendering says %s" % (
                    names[j], go[j][:200], "false" if stream_path else "true", want[:200]), [gc[j], g["vc_" + which]], [go[j]], want)
        for j in range(ntp, ntp + nbp):
            if b == "ERR:unfit" or b == "PANIC":
                continue
            ctx.count("ext_bin_compared")
            if go[j] != b and not failed:
                failed = True
                xfail(ctx, "ext-bin-" + names[j].split(":")[0], "de.bin %s returns %s, BinDoc.spec_of on the binary rendering says %s" % (names[j], go[j][:200], b[:200]),
                      [gc[j], g["vc_" + which]], [go[j]], b)
    # the binary walks of the Coq model on the same binary renderings, the text walks on the implementation's tapes
    wm = ["de.model.bin" + c[len("de.bin"):] for c in cases if c.startswith("de.bin\t") and c.split("\t")[1] in ("tape", "slice") or c.startswith("de.bin\treader:")]
    ctx.correspond("ext_walk_model", wm[: ctx.scale(1500, 20000)], nontrivial=nt)
    from props import C02
    tsel = [c for c in cases if c.startswith("de.text\t") and (c.split("\t")[1] in ("slice", "tape") or c.startswith("de.text\treader:"))]
    C02.walk_model(ctx, tsel[: ctx.scale(1200, 20000)], stream="ext_walk_text")
    embed(ctx)
    probes(ctx)


def embed(ctx):
    """C10_ext_embeds run: the renderings of of_ldoc d are LogicDoc's renderings of d (hand-made LogicDoc documents)"""
    import vlib
    docs = [("2 U 61 I 7 U 62 O 2 U 63 S Q 782079 U 64 A 2 B 1 D 1444 11 11 0 0", "0=u64,Q,1,0,I1234,0,0;1=i32,Q,1,0,Q,1,1;1.1.1=i32,U,0,0,U,0,0"),
            ("1 U 636f6c6f72 RGB 1 2 3 4", "-"),
            ("3 Q 6b O 1 U 78 F 312e35 0000c03f 000000000000f83f U 6c A 0 U 6d A 1 A 1 I -5", "r=i32,Q,1,0,U,0,1;0.0=i32,Q,1,1,U,0,0")]
    cases = []
    for d, ch in docs:
        cases.append("\t".join(["spec.logic", d, ch, "0", "-,20,20,20,20,20,20,20,20,20,20,20,20,20,20,20,20,20,20,20,20,20,20,20,20,20"]))
        cases.append("\t".join(["spec.logicx.embed", d, ch, "0", "-,20,20,20,20,20,20,20,20,20,20,20,20,20,20,20,20,20,20,20,20,20,20,20,20,20"]))
    out = vlib.run_model(cases)
    ctx.evaluations += len(cases)
    st = ctx.streams.setdefault("ext_embed", {"cases": 0, "disagree": 0})
    st["cases"] += len(cases)
    for k in range(0, len(cases), 2):
        a, b = (out[k], out[k + 1]) if k + 1 < len(out) else ("MISSING", "MISSING")
        old = " | ".join(a.split(" | ")[1:])
        if old != b or not b or b.startswith(("MODEL", "NOKIND", "BADCASE")):
            st["disagree"] += 1
            ctx.disagreements.append(("ext_embed", cases[k + 1][:300], "LogicDoc renderings: " + old[:200], "LogicDocX renderings of the embedding: " + b[:200]))
        else:
            ctx.nontrivial.add(hashlib.md5(("ext_embed\x00" + b).encode()).digest()[:8])


def probes(ctx):
    """the refuted witnesses of Props/C10_ext.v on the implementation (and on the extracted walks)"""
    nt = lambda c, i: i.startswith("(")
    col = hx("color")

    def rgb_block(c):
        return D.tok(0x0243) + D.OPEN + b"".join(D.tok(0x14) + struct.pack("<I", v) for v in c) + D.CLOSE
    arr_text = b" x = { rgb { 1 2 3 } } "
    arr_bin = D.bstr(b"x", False) + D.EQ + D.OPEN + rgb_block([1, 2, 3]) + D.CLOSE
    col_text = b" color = rgb { 1 2 3 } "
    col_bin = D.bstr(b"color", False) + D.EQ + rgb_block([1, 2, 3])
    pair = "(struct (636f6c6f72 (seq (str 726762) (seq (u 1) (u 2) (u 3)))))"
    groups = [
        # (name, text, binary, shape, expected per path prefix)
        ("rgb-in-array", arr_text, arr_bin, "struct(78:seq(tup(str,seq(u8))))",
         {"t:slice": "ERR:de", "t:reader": "ERR:de", "b:tape": "ERR:unktoken", "b:slice": "V", "b:reader": "V"}),
        ("rgb-stream", col_text, col_bin, "struct(%s:tup(str,seq(u8)))" % col,
         {"t:slice": "V", "t:reader": "ERR:de", "b:tape": "V", "b:slice": "V", "b:reader": "V"}),
        ("rgb-string", col_text, col_bin, "struct(%s:str)" % col,
         {"t:slice": "V", "t:reader": "V", "b:tape": "ERR:de", "b:slice": "ERR:de", "b:reader": "ERR:de"}),
    ]
    cases = []
    for (_, txt, b, shs, _) in groups:
        for p in ("slice", "reader:64:-"):
            cases.append("\t".join(["de.text", p, "utf8", shs, hx(txt)]))
        for p in ("tape", "slice", "reader:64:-"):
            cases.append("\t".join(["de.bin", p, "error", "map:-", "raw", shs, hx(b)]))
    impl, _ = ctx.correspond("ext_probes", cases, nontrivial=nt, model=False)
    base = len(impl) - len(cases)
    for gi, (name, txt, b, shs, want) in enumerate(groups):
        outs = impl[base + gi * 5: base + gi * 5 + 5]
        gc = cases[gi * 5: gi * 5 + 5]
        keys = ["t:slice", "t:reader", "b:tape", "b:slice", "b:reader"]
        ctx.count("ext_probe_" + name)
        ok = True
        for k, o in zip(keys, outs):
            w = want[k]
            if (w == "V" and not o.startswith("(")) or (w != "V" and o != w):
                ok = False
        if not ok:
            # the witness no longer replays: the implementation changed on a clause the theorems delimit
            xfail(ctx, "ext-probe-" + name, "the refuted witness of C10_ext_%s_refuted replays differently: %s" % (name.replace("-", "_"), outs), gc, outs, str(want))
        elif name == "rgb-in-array":
            xfail(ctx, "rgb-in-array", "a colour as an array element `x = { rgb { 1 2 3 } }`: text gives %s, binary tape %s, binary on-demand / stream %s" % (
                outs[0], outs[2], outs[3][:80]), gc, outs, "one value")
        elif name == "rgb-stream":
            xfail(ctx, "H-stream-header", "a colour captured as (String, Vec<u8>): the text stream path gives %s where the slice path and all binary paths give %s" % (
                outs[1], outs[0][:80]), [gc[0], gc[1]], outs[:2], outs[0])
    # the same cases on the extracted walks
    from props import C02
    C02.walk_model(ctx, [c for c in cases if c.startswith("de.text\t")], stream="ext_probes_walk_text")
    ctx.correspond("ext_probes_walk_bin", ["de.model.bin" + c[len("de.bin"):] for c in cases if c.startswith("de.bin\t")], nontrivial=nt)
