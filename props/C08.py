"""C08 Streaming binary reader equals the slice lexer; token encoding round-trips.
Also hosts the generators shared with the binary half of C09 (props/C09.py imports them)."""
import itertools
from vlib import hexs, unhex

RULE = ("token sequences over all 13 token kinds + ids (boundary payloads; string lengths 0,1,255,256,65535 and random; "
        "a sweep over lexeme ids incl. all 13 reserved ones and their neighbours), raw random byte strings biased to lexeme-id "
        "bytes, truncations and one-byte corruptions of encoded sequences; schedules: every composition of the input length for "
        "short inputs, all-1-byte, periodic 2..17, random, whole; capacities: largest token, +1, 100, 65539 and one below the "
        "largest token. non-trivial = at least one refill happened inside a token (stream), or the case decodes >= 1 token")
TRUSTED = ["std::io::Read is modelled by BufWin.rd_read (a schedule of Data n / Fail events) and driven on the real reader "
           "by the harness' SchedReader with the same schedule"]
ASSUMPTIONS = ["usize/depth arithmetic is unbounded in the model (inputs are far below 2^31 nested opens / 2^64 bytes)"]

# >>> a_c08 (wave 4)
RULE += ("; wave 4 (props/C08_more.py): all 65536 lexeme ids in one case, python reference lexer, the `_refuted` witnesses (reserved "
         "id, strings of 2^16+k bytes, zero-length buffer) asserted on the code, strings of 1000..65535 bytes, Lexer::remainder and "
         "next_*/peek_* vs read_* at every point incl. a stray tail, readers built with new / buffer_len / buffer / a buffer recycled "
         "through into_parts, capacities that hold the largest token but not the unlexable tail, call mixes run through failing "
         "calls (extracted BinOps), Token::write into a bounded writer, error accessors")
CLAIM_WAVE4 = ("Also proved (Props/C08_more.v, C08_ops.v): reader = lexer under the literal hypothesis max_token <= cap (BufferFull allowed "
               "where the lexer errs), from_slice reader = lexer unconditionally, read/read_bytes per call and arbitrary call mixes, "
               "and the Lexer cursor laws (position/remainder invariant kept by every method, next vs read, peek, id-then-payload).")
# <<< a_c08
PROFILES = ["release", "debug"]
# >>> w_buf (wave 5)
RULE += ("; wave 5 (props/bufstore.py, coq/theories/BufStore.v): buffer.rs at STORAGE level -- op lists (fill_buf over a scripted, possibly "
         "scribbling Read; advance; advance_to; get; window/position/consumed_data after every op) on the real BufferWindow for every "
         "capacity 0..40 over dirty buffers (bytes of the data alphabet), zeroed buffers, the bufferless slice window and buffers recycled from a "
         "previous window; schedules with short reads, reads at the end of the data (Ok(0)), full buffers, faults; extracted storage model = "
         "implementation, and a stream-level python oracle that keeps no buffer contents (window = slice of the delivered data at position)")
TRUSTED = TRUSTED + ["props/bufstore.Sim: offsets-only reference of BufferWindow (oracle bufstore-window / bufstore-position / bufstore-full)"]
# <<< w_buf
# >>> s_c08 (wave 6)
RULE += ("; wave 6 (props/C08_sizes.py): size ladders 0 1 2 3 7 8 9 15 16 17 31 .. 4097 65533 65534 65535 65536, one dimension at a time, "
         "expected answers by construction + python reference lexer, release (+ extracted model where it is fast enough) and debug: string "
         "payload length on the read side (lexer, from_slice, streaming under cap = token-1 / token / token+1 / 65539 / default 32768) and on "
         "the write side (up to 131073 bytes; sinks taking 1..9 bytes per call; fixed sinks with every amount of room), exact two-cut "
         "schedules at every pair of offsets of every token kind (+ truncated, + invalid rgb), the buffer ending at every offset of every "
         "kind, 0..65536 tokens per input / per sink, position() call by call across 2^16 / 2^17 / 2^18, capacities 1..65536, up to 65539 "
         "refills inside one token, read sizes, read_bytes(0..65536), integers around every power of two, a buffer recycled up to 300 times")
# <<< s_c08

OPEN, CLOSE, EQUAL, U32, U64, I32, BOOL, QUOTED, UNQUOTED, F32, F64, RGB, I64 = (
    0x0003, 0x0004, 0x0001, 0x0014, 0x029c, 0x000c, 0x000e, 0x000f, 0x0017, 0x000d, 0x0167, 0x0243, 0x0317)
RESERVED = [OPEN, CLOSE, EQUAL, U32, U64, I32, BOOL, QUOTED, UNQUOTED, F32, F64, RGB, I64]
E_EOF, E_RGB = 110, 111


def le(n, w):
    return int(n % (1 << (8 * w))).to_bytes(w, "little")


# ---------------------------------------------------------------- tokens: tuples (kind, payload)
def enc(t):
    k = t[0]
    if k == "O": return le(OPEN, 2)
    if k == "C": return le(CLOSE, 2)
    if k == "EQ": return le(EQUAL, 2)
    if k == "U32": return le(U32, 2) + le(t[1], 4)
    if k == "U64": return le(U64, 2) + le(t[1], 8)
    if k == "I32": return le(I32, 2) + le(t[1], 4)
    if k == "BOOL": return le(BOOL, 2) + bytes([1 if t[1] else 0])
    if k == "Q": return le(QUOTED, 2) + le(len(t[1]), 2) + t[1]
    if k == "U": return le(UNQUOTED, 2) + le(len(t[1]), 2) + t[1]
    if k == "F32": return le(F32, 2) + t[1]
    if k == "F64": return le(F64, 2) + t[1]
    if k == "RGB":
        b = le(RGB, 2) + le(OPEN, 2)
        for c in t[1]:
            b += le(U32, 2) + le(c, 4)
        return b + le(CLOSE, 2)
    if k == "I64": return le(I64, 2) + le(t[1], 8)
    if k == "T": return le(t[1], 2)
    raise ValueError(k)


def txt(t):
    k = t[0]
    if k in ("O", "C", "EQ"): return k
    if k in ("U32", "U64", "I32", "I64", "T"): return "%s:%d" % (k, t[1])
    if k == "BOOL": return "BOOL:%d" % (1 if t[1] else 0)
    if k in ("Q", "U", "F32", "F64"): return "%s:%s" % (k, hexs(t[1]))
    if k == "RGB": return "RGB:" + ",".join(str(c) for c in t[1])
    raise ValueError(k)


def wf_tok(t):
    k = t[0]
    if k == "T": return t[1] not in RESERVED
    if k in ("Q", "U"): return len(t[1]) < 65536
    return True


def py_lex(data, start=0, limit=None):
    """reference decoding used only to size buffers / pick primitives: list of (text, start, end), end class, need of the
    failing token (bytes read_token must see before it answers InvalidRgb; 0 for Eof)"""
    out, p, n = [], start, len(data)

    def u(o, w):
        return int.from_bytes(data[o:o + w], "little")
    while True:
        if limit is not None and len(out) >= limit:
            return out, "MORE", 0
        if p == n:
            return out, "END", 0
        if n - p < 2:
            return out, "ERR:%d" % E_EOF, 0
        i = u(p, 2)
        q = p + 2
        fixed = {U32: 4, U64: 8, I32: 4, I64: 8, F32: 4, F64: 8, BOOL: 1}
        if i in (OPEN, CLOSE, EQUAL):
            out.append(({OPEN: "O", CLOSE: "C", EQUAL: "EQ"}[i], p, q)); p = q
        elif i in fixed:
            w = fixed[i]
            if n - q < w:
                return out, "ERR:%d" % E_EOF, 0
            v = u(q, w)
            if i == U32: s = "U32:%d" % v
            elif i == U64: s = "U64:%d" % v
            elif i == I32: s = "I32:%d" % (v - (1 << 32) if v >= 1 << 31 else v)
            elif i == I64: s = "I64:%d" % (v - (1 << 64) if v >= 1 << 63 else v)
            elif i == BOOL: s = "BOOL:%d" % (1 if v else 0)
            elif i == F32: s = "F32:" + hexs(data[q:q + 4])
            else: s = "F64:" + hexs(data[q:q + 8])
            out.append((s, p, q + w)); p = q + w
        elif i in (QUOTED, UNQUOTED):
            if n - q < 2 or n - q - 2 < u(q, 2):
                return out, "ERR:%d" % E_EOF, 0
            ln = u(q, 2)
            out.append((("Q:" if i == QUOTED else "U:") + hexs(data[q + 2:q + 2 + ln]), p, q + 2 + ln)); p = q + 2 + ln
        elif i == RGB:
            if n - q < 22:
                return out, "ERR:%d" % E_EOF, 0
            ids = [u(q, 2), u(q + 2, 2), u(q + 8, 2), u(q + 14, 2), u(q + 20, 2)]
            vals = [u(q + 4, 4), u(q + 10, 4), u(q + 16, 4)]
            if ids[:4] == [OPEN, U32, U32, U32] and ids[4] == CLOSE:
                out.append(("RGB:%d,%d,%d" % tuple(vals), p, q + 22)); p = q + 22
            elif ids[:4] == [OPEN, U32, U32, U32] and ids[4] == U32:
                if n - q < 28:
                    return out, "ERR:%d" % E_EOF, 0
                if u(q + 26, 2) == CLOSE:
                    out.append(("RGB:%d,%d,%d,%d" % tuple(vals + [u(q + 22, 4)]), p, q + 28)); p = q + 28
                else:
                    return out, "ERR:%d" % E_RGB, 30
            else:
                return out, "ERR:%d" % E_RGB, 24
        else:
            out.append(("T:%d" % i, p, q)); p = q


def need_of(data):
    """smallest capacity with which the streaming reader must behave like the slice lexer: every token (and the bytes an
    InvalidRgb verdict looks at) fits, and where the lexer runs out of data (clean end / truncated token) the remaining
    bytes leave at least one byte of room (with a full buffer the reader cannot see the end of the stream: BufferFull)"""
    toks, end, need = py_lex(data)
    pos = toks[-1][2] if toks else 0
    tail = len(data) - pos + 1 if end in ("END", "ERR:%d" % E_EOF) else 0
    return max([e - s for (_, s, e) in toks] + [need, tail, 1])


def ops_need(data, lops):
    """largest number of bytes a single step of the lexer-op list looks at (n/t/by<k> only)"""
    p, need = 0, 0
    for o in lops:
        if o.startswith("by"):
            k = int(o[2:])
            need = max(need, k)
            if len(data) - p >= k:
                p += k
        else:
            toks, end, nd = py_lex(data, p, 1)
            if toks:
                need = max(need, toks[0][2] - toks[0][1]); p = toks[0][2]
            elif end == "ERR:%d" % E_RGB:
                need = max(need, nd)
            else:
                need = max(need, len(data) - p + 1)
    return need


def show_lex(data):
    toks, end, _ = py_lex(data)
    pos = toks[-1][2] if toks else 0
    return "%s|%s|%d" % (" ".join(t for t, _, _ in toks) if toks else "-", end, pos)


# ---------------------------------------------------------------- generators
def rand_string(rng, n):
    r = rng.random()
    if r < 0.3:  # bytes that look like open/close/other ids
        return b"".join(le(rng.choice([OPEN, CLOSE, QUOTED, RGB, U32, EQUAL]), 2) for _ in range((n + 1) // 2))[:n]
    if r < 0.6:
        return bytes(rng.choice(b"abcxyz_ 01\"\\{}#=") for _ in range(n))
    return bytes(rng.randrange(256) for _ in range(n))


def rand_token(rng, big=False):
    k = rng.choice(["O", "C", "EQ", "U32", "U64", "I32", "BOOL", "Q", "U", "F32", "F64", "RGB", "I64", "T", "T", "Q", "U"])
    if k in ("O", "C", "EQ"): return (k,)
    if k == "U32": return (k, rng.choice([0, 1, 2 ** 32 - 1, 2 ** 31, 0x00040003, 0x00030004, rng.randrange(2 ** 32)]))
    if k == "U64": return (k, rng.choice([0, 1, 2 ** 64 - 1, 2 ** 63, 0x0004000400030003, rng.randrange(2 ** 64)]))
    if k == "I32": return (k, rng.choice([0, -1, 1, 2 ** 31 - 1, -2 ** 31, rng.randrange(-2 ** 31, 2 ** 31)]))
    if k == "I64": return (k, rng.choice([0, -1, 1, 2 ** 63 - 1, -2 ** 63, rng.randrange(-2 ** 63, 2 ** 63)]))
    if k == "BOOL": return (k, rng.random() < 0.5)
    if k in ("Q", "U"):
        lens = [0, 1, 2, 3, 4, 5, 7, 8, 9, 15, 16, 17, 30]
        if big:
            lens += [255, 256, 257, 1000]
        return (k, rand_string(rng, rng.choice(lens)))
    if k == "F32": return (k, bytes(rng.randrange(256) for _ in range(4)))
    if k == "F64": return (k, bytes(rng.randrange(256) for _ in range(8)))
    if k == "RGB":
        c = [rng.choice([0, 255, 2 ** 32 - 1, 0x00040003, rng.randrange(2 ** 32)]) for _ in range(rng.choice([3, 3, 4]))]
        return (k, tuple(c))
    if k == "T":
        base = rng.choice(RESERVED)
        return (k, rng.choice([0, 2, 5, 0xffff, 0x2d28, 0x0100, 0x0300, 0x0400, base + 1, base - 1 if base else 7, base ^ 0x100,
                               ((base & 0xff) << 8) | (base >> 8), rng.randrange(65536)]))
    raise ValueError(k)


def wf_fix(t, rng):
    """replace a reserved Id by a true id (so that the sequence is well formed)"""
    while not wf_tok(t):
        t = ("T", rng.randrange(65536))
    return t


def rand_seq(rng, n, big=False):
    return [wf_fix(rand_token(rng, big), rng) for _ in range(n)]


def rand_doc(rng, depth=0, budget=None):
    """a balanced document body (between an Open and its Close): key = value pairs / arrays, nested containers, strings whose
    bytes look like OPEN/CLOSE ids, rgb blocks"""
    out = []
    n = rng.randrange(0, 6 if depth else 8)
    for _ in range(n):
        r = rng.random()
        if r < 0.6:
            out.append(wf_fix(rng.choice([("T", rng.randrange(65536)), ("Q", rand_string(rng, rng.randrange(0, 9))),
                                          ("U", rand_string(rng, rng.randrange(0, 9))), ("I32", rng.randrange(-5, 5))]), rng))
            out.append(("EQ",))
        r = rng.random()
        if r < 0.28 and depth < 5:
            out.append(("O",)); out.extend(rand_doc(rng, depth + 1)); out.append(("C",))
        elif r < 0.36:
            out.append(("O",)); out.append(("C",))
        else:
            t = rand_token(rng)
            while t[0] in ("O", "C", "EQ"):
                t = rand_token(rng)
            out.append(wf_fix(t, rng))
    return out


def raw_bytes(rng, n):
    """random bytes biased towards id-looking words"""
    out = bytearray()
    words = RESERVED + [0x2d28, 0xffff, 0, 1, 2, 3, 4, 5, 0x0300, 0x0400]
    while len(out) < n:
        r = rng.random()
        if r < 0.55:
            out += le(rng.choice(words), 2)
        elif r < 0.7:
            out += le(rng.choice([0, 1, 2, 3, 4, 8, 0xffff, 0x0100]), 2)   # plausible string lengths
        else:
            out.append(rng.randrange(256))
    return bytes(out[:n])


def compositions(n):
    """every way to cut n bytes into consecutive reads"""
    if n == 0:
        yield []
        return
    for mask in range(1 << (n - 1)):
        parts, cur = [], 1
        for i in range(n - 1):
            if mask >> i & 1:
                parts.append(cur); cur = 1
            else:
                cur += 1
        parts.append(cur)
        yield parts


def sched_str(s):
    return ",".join("F" if x == "F" else str(x) for x in s) if s else "-"


def schedules(rng, n, k):
    """k schedules for an n-byte input: 1-byte, periodic, random, whole"""
    out = [[1] * (n + 2), [], [n + 5]]
    for p in rng.sample(range(2, 18), min(k, 4)):
        out.append([p] * (n // p + 2))
    while len(out) < k + 3:
        s, tot = [], 0
        hi = rng.choice([2, 3, 5, 9, 17, 40, 70000])
        while tot < n + 2:
            x = rng.randrange(1, hi + 1); s.append(x); tot += x
        out.append(s)
    return out


def fits_ops(ops, cap):
    return all(not o.startswith("by") or int(o[2:]) <= cap for o in ops)


# ---------------------------------------------------------------- the streams
def inputs(ctx):
    """(label, bytes) inputs shared by several streams"""
    rng = ctx.rng
    out = []
    for _ in range(ctx.scale(600, 3000)):
        out.append(("seq", b"".join(enc(t) for t in rand_seq(rng, rng.randrange(0, 9)))))
    for _ in range(ctx.scale(300, 1500)):
        out.append(("doc", b"".join(enc(t) for t in rand_doc(rng))))
    for _ in range(ctx.scale(600, 3000)):
        out.append(("raw", raw_bytes(rng, rng.randrange(0, 48))))
    for _ in range(ctx.scale(500, 2500)):
        b = bytearray(b"".join(enc(t) for t in rand_seq(rng, rng.randrange(1, 7))))
        r = rng.random()
        if r < 0.5 and b:
            b = b[:rng.randrange(len(b))]
            out.append(("trunc", bytes(b)))
        elif b:
            p = rng.randrange(len(b)); b[p] = rng.choice([0, 1, 3, 4, 0x14, 0x43, 0x02, 0xff, rng.randrange(256)])
            out.append(("corrupt", bytes(b)))
    # rgb near misses: each of the five ids replaced, each truncation point
    good3 = enc(("RGB", (1, 2, 3))); good4 = enc(("RGB", (1, 2, 3, 4)))
    for g in (good3, good4):
        for cut in range(len(g) + 1):
            out.append(("rgbcut", g[:cut]))
        for off in range(0, len(g), 2):
            for w in (OPEN, CLOSE, U32, I32, 0x2d28):
                b = bytearray(g); b[off:off + 2] = le(w, 2)
                out.append(("rgbmiss", bytes(b) + enc(("T", 7))))
    return out


def run_binary(ctx):
    rng = ctx.rng
    is_tok = lambda c, i: "|" in i and not i.startswith("-|")

    # ---- ids: is_id sweep (all reserved, neighbours, strided) and a one-token lex of every swept id
    ids = set(RESERVED)
    for r in RESERVED:
        ids.update([(r + 1) & 0xffff, (r - 1) & 0xffff, r ^ 0x100, ((r & 0xff) << 8) | (r >> 8)])
    stride = ctx.scale(131, 7)
    ids.update(range(rng.randrange(stride), 65536, stride))
    ids.update([0, 0xffff, 0x8000, 0x7fff, 0x00ff, 0xff00])
    ids = sorted(ids)
    cases = ["bl.isid\t%d" % i for i in ids] + ["bl.lex\t%s" % hexs(le(i, 2) + b"\x01\x00\x00\x00\x00\x00\x00\x00\x00\x00") for i in ids]
    impl, _ = ctx.correspond("id_sweep", cases, nontrivial=lambda c, i: True)
    base = len(impl) - len(cases)
    for k, i in enumerate(ids):
        isid = impl[base + k]
        first = impl[base + len(ids) + k].split("|")[0].split(" ")[0]
        if (isid == "true") != (first == "T:%d" % i):
            ctx.fail("isid-lex", "id %#06x: is_id = %s but read_token yields %s" % (i, isid, first), [cases[k], cases[len(ids) + k]], [isid, first])
        if (isid == "true") != (i not in RESERVED):
            ctx.fail("isid", "is_id(%#06x) = %s" % (i, isid), [cases[k]], [isid], str(i not in RESERVED).lower())
    ctx.count("ids", len(ids))

    # ---- write -> lex round trip on the implementation (encoder and lexer are both the real code)
    seqs = []
    for _ in range(ctx.scale(1500, 20000)):
        seqs.append(rand_seq(rng, rng.randrange(0, 12), big=True))
    for k in ("Q", "U"):
        for ln in (0, 1, 255, 256, 65535):
            seqs.append([(k, rand_string(rng, ln)), ("T", 0x2d28)])
    for i in rng.sample([x for x in range(65536) if x not in RESERVED], ctx.scale(300, 3000)) + [0, 2, 0xffff]:
        seqs.append([("T", i), ("EQ",), ("T", i)])
    for t in [("U32", 0), ("U32", 2 ** 32 - 1), ("U64", 0), ("U64", 2 ** 64 - 1), ("I32", -2 ** 31), ("I32", 2 ** 31 - 1), ("I64", -2 ** 63),
              ("I64", 2 ** 63 - 1), ("BOOL", True), ("BOOL", False), ("RGB", (0, 0, 0)), ("RGB", (2 ** 32 - 1,) * 4), ("F32", b"\xff" * 4),
              ("F64", b"\x00" * 8), ("F32", le(OPEN, 2) + le(CLOSE, 2)), ("F64", le(CLOSE, 2) * 4)]:
        seqs.append([t]); seqs.append([("O",), t, ("C",), t])
    # not well formed on purpose (definitional, not findings): reserved ids as Id, strings of 2^16 and more bytes (their
    # payload is itself one long string token so that the truncated length leaves few tokens to lex)
    illformed = [[("T", r)] for r in RESERVED] + [[("T", U32), ("T", 0x2d28), ("T", 0x2d28)], [("Q", le(QUOTED, 2) + le(65532, 2) + b"a" * 65532), ("T", 9)],
                                                             [("U", b"bbbbb" + le(UNQUOTED, 2) + le(65532, 2) + b"b" * 65532)]]
    wcases = ["bl.write\t%s" % (" ".join(txt(t) for t in s) if s else "-") for s in seqs + illformed]
    impl, _ = ctx.correspond("write", wcases, nontrivial=lambda c, i: i != "-")
    base = len(impl) - len(wcases)
    lcases = []
    for k, s in enumerate(seqs + illformed):
        h = impl[base + k]
        if k < len(seqs) and h != hexs(b"".join(enc(t) for t in s)):
            ctx.fail("write-format", "Token::write of [%s] is %s" % (wcases[k].split("\t")[1][:200], h[:200]), [wcases[k]], [h], hexs(b"".join(enc(t) for t in s))[:400])
        lcases.append("bl.lex\t%s" % (h if all(c in "0123456789abcdef-" for c in h) else "-"))
    impl2, _ = ctx.correspond("lex_written", lcases, nontrivial=is_tok)
    base2 = len(impl2) - len(lcases)
    for k, s in enumerate(seqs):
        exp = "%s|END|%d" % (" ".join(txt(t) for t in s) if s else "-", sum(len(enc(t)) for t in s))
        if impl2[base2 + k] != exp:
            ctx.fail("roundtrip", "lex(write [%s]) = %s" % (wcases[k].split("\t")[1][:200], impl2[base2 + k][:300]), [wcases[k], lcases[k]], [impl2[base2 + k][:1000]], exp[:1000])
    ctx.count("roundtrip_sequences", len(seqs))

    # ---- slice lexer on all inputs; the slice TokenReader agrees with it
    ins = inputs(ctx)
    for lab, _ in ins:
        ctx.count("input_" + lab)
    datas = [d for _, d in ins]
    lc = ["bl.lex\t%s" % hexs(d) for d in datas]
    lex_out, _ = ctx.correspond("lex", lc, nontrivial=is_tok)
    lbase = len(lex_out) - len(lc)
    rc = ["bl.rslice\t%s" % hexs(d) for d in datas]
    rs_out, _ = ctx.correspond("reader_from_slice", rc, nontrivial=is_tok)
    rbase = len(rs_out) - len(rc)
    for k in range(len(datas)):
        if rs_out[rbase + k] != lex_out[lbase + k]:
            ctx.fail("slice-reader", "TokenReader::from_slice gives %s, Lexer gives %s" % (rs_out[rbase + k][:200], lex_out[lbase + k][:200]), [lc[k], rc[k]], [rs_out[rbase + k], lex_out[lbase + k]])

    # ---- primitives / next_token / peek agree with read_token
    prim = {"U32": "u32", "U64": "u64", "I32": "i32", "I64": "i64", "BOOL": "b", "Q": "s", "U": "s", "F32": "f32", "F64": "f64", "RGB": "rgb"}
    pcases, pmeta = [], []
    for k, d in enumerate(datas):
        toks, end, _ = py_lex(d)
        ops, plan = [], []
        for (t, s, e) in toks:
            kind = t.split(":")[0]
            mode = rng.choice(["peek", "prim", "next", "nid"]) if kind in prim else rng.choice(["peek", "next", "nid0"])
            if mode == "peek": ops += ["pi", "pt", "t"]
            elif mode == "next": ops += ["n"]
            elif mode == "prim": ops += ["pi", "i", prim[kind]]
            elif mode == "nid": ops += ["ni", prim[kind]]
            else: ops += ["ni"]
            plan.append(mode)
        ops += ["pi", "pt", "n"]
        pcases.append("bl.lops\t%s\t%s" % (hexs(d), ",".join(ops))); pmeta.append((k, plan))
        pcases.append("bl.lops\t%s\tT" % hexs(d)); pmeta.append((k, None))
    pimpl, _ = ctx.correspond("primitives", pcases, nontrivial=lambda c, i: " " in i)
    pbase = len(pimpl) - len(pcases)
    for j in range(0, len(pcases), 2):
        k, plan = pmeta[j]
        mixed = pimpl[pbase + j].split(" ")
        allt = pimpl[pbase + j + 1].split(" ")
        problem = check_primitives(mixed, allt, plan)
        if problem:
            ctx.fail("primitives", problem, [pcases[j], pcases[j + 1]], [pimpl[pbase + j][:600], pimpl[pbase + j + 1][:600]])

    # ---- streaming reader = slice lexer, over schedules and capacities
    scases, smeta = [], []
    n_comp = 0
    for k, d in enumerate(datas):
        need = need_of(d)
        n = len(d)
        caps = sorted(set([max(need, 1), need + 1, 100, 65539]))
        if n <= 9 and n_comp < ctx.scale(40, 150):
            n_comp += 1
            for comp in compositions(n):
                for cap in caps[:2]:
                    if cap >= need:
                        scases.append("bl.stream\t%s\t%d\t%s" % (hexs(d), cap, sched_str(comp))); smeta.append((k, cap, need))
        for s in schedules(rng, n, ctx.scale(2, 5)):
            for cap in caps if rng.random() < 0.5 else caps[:2]:
                scases.append("bl.stream\t%s\t%d\t%s" % (hexs(d), cap, sched_str(s))); smeta.append((k, cap, need))
            if need > 1:
                small = rng.choice([need - 1, max(1, need // 2), 1, 2])
                scases.append("bl.stream\t%s\t%d\t%s" % (hexs(d), small, sched_str(s))); smeta.append((k, small, need))
    # large tokens: strings of 255..65535 bytes with chunked schedules
    bigs = []
    for ln in (255, 256, 4000, 65535):
        body = [("T", 0x2d28), ("EQ",), (rng.choice(["Q", "U"]), rand_string(rng, ln)), ("I32", -7)]
        bigs.append(b"".join(enc(t) for t in body))
    for d in bigs:
        need = need_of(d)
        datas.append(d); k = len(datas) - 1
        lc.append("bl.lex\t%s" % hexs(d))
        for cap in (need, need + 1, 65539, need - 1):
            for s in ([], [7] * 40 + [5000] * 20, [rng.randrange(1, 3000) for _ in range(200)], [1] * 50 + [70000]):
                scases.append("bl.stream\t%s\t%d\t%s" % (hexs(d), cap, sched_str(s))); smeta.append((k, cap, need))
    extra_lex, _ = ctx.correspond("lex_big", lc[len(lc) - len(bigs):], nontrivial=is_tok)
    lex_of = {k: lex_out[lbase + k] for k in range(len(datas) - len(bigs))}
    for j in range(len(bigs)):
        lex_of[len(datas) - len(bigs) + j] = extra_lex[len(extra_lex) - len(bigs) + j]

    def refilled_inside(c, i):
        f = c.split("\t")
        return f[3] != "-" and "|" in i and not i.startswith("-|")
    simpl, _ = ctx.correspond("stream", scases, nontrivial=refilled_inside)
    sbase = len(simpl) - len(scases)
    n_fit = n_small = 0
    for j, (k, cap, need) in enumerate(smeta):
        got, ref = simpl[sbase + j], lex_of[k]
        if cap >= need and cap >= 1:
            n_fit += 1
            if got != ref:
                ctx.fail("stream-eq-lexer", "cap %d >= largest token %d: reader %s, lexer %s" % (cap, need, got[:200], ref[:200]), [scases[j], lc[k]], [got[:1000], ref[:1000]], ref[:1000])
        else:
            n_small += 1
            problem = check_undersized(got, ref)
            if problem:
                ctx.fail("stream-small", "cap %d < largest token %d: %s (reader %s, lexer %s)" % (cap, need, problem, got[:200], ref[:200]), [scases[j], lc[k]], [got[:1000], ref[:1000]])
    # the same cases on the debug build (overflow checks, debug_assert! in BufferWindow::advance/advance_to): same answers
    pick = sorted(rng.sample(range(len(scases)), min(len(scases), ctx.scale(2500, 20000))))
    dimpl, _ = ctx.correspond("stream_debug_build", [scases[j] for j in pick], profile="debug", model=False)
    dbase = len(dimpl) - len(pick)
    for n_, j in enumerate(pick):
        if dimpl[dbase + n_] != simpl[sbase + j]:
            ctx.fail("debug-build", "debug build answers %s, release build %s" % (dimpl[dbase + n_][:200], simpl[sbase + j][:200]), [scases[j]], [dimpl[dbase + n_][:1000], simpl[sbase + j][:1000]])
    ctx.count("stream_fitting", n_fit)
    ctx.count("stream_undersized", n_small)
    ctx.count("stream_all_compositions_inputs", n_comp)

    # ---- reader operation mixes (next/read/read_bytes) = the same operations on the slice lexer
    ocases, ometa = [], []
    for k, d in enumerate(datas[:len(datas) - len(bigs)]):
        if rng.random() > ctx.scale(0.5, 1.0):
            continue
        toks, end, _ = py_lex(d)
        rops, lops = [], []
        for _ in range(len(toks) + 2):
            r = rng.random()
            if r < 0.45: rops.append("n"); lops.append("n")
            elif r < 0.85: rops.append("r"); lops.append("t")
            else:
                nb = rng.choice([0, 1, 2, 3, 6]); rops.append("by%d" % nb); lops.append("by%d" % nb)
        need = max(ops_need(d, lops), 1)
        for s in schedules(rng, len(d), 1)[:4]:
            cap = rng.choice([need, need + 1, max(100, need)])
            ocases.append("bl.rops\t%s\t%d\t%s\t%s" % (hexs(d), cap, sched_str(s), ",".join(rops))); ometa.append(k)
        ocases.append("bl.lops\t%s\t%s" % (hexs(d), ",".join(lops))); ometa.append(-1)
    oimpl, _ = ctx.correspond("reader_ops", ocases, nontrivial=lambda c, i: " " in i)
    obase = len(oimpl) - len(ocases)
    group = []
    for j, k in enumerate(ometa):
        if k >= 0:
            group.append(j)
        else:
            ref = oimpl[obase + j]
            for g in group:
                # the capacity holds the largest item any step of this op list needs (ops_need)
                problem = check_ops_equal(oimpl[obase + g], ref)
                if problem:
                    ctx.fail("reader-ops", problem, [ocases[g], ocases[j]], [oimpl[obase + g][:600], ref[:600]], ref[:600])
            group = []

    # ---- extra: faults (C20 owns the property; here only model = implementation)
    fcases = []
    for d in rng.sample(datas[:len(datas) - len(bigs)], ctx.scale(150, 1500)):
        n = len(d)
        s = [rng.choice([1, 2, 3, 7, "F"]) for _ in range(n + 3)]
        fcases.append("bl.rops\t%s\t%d\t%s\tT,n,n" % (hexs(d), max(need_of(d), 1), sched_str(s)))
    ctx.correspond("faults", fcases, nontrivial=lambda c, i: "ERR:100" in i)


def check_primitives(mixed, allt, plan):
    """mixed: outputs of the per-token op plan; allt: outputs of next_token until the end.  Returns a problem or None."""
    it = iter(mixed)
    try:
        for idx, mode in enumerate(plan):
            tok, pos = allt[idx].rsplit("@", 1)
            kind, _, val = tok.partition(":")
            start = allt[idx - 1].rsplit("@", 1)[1] if idx else "0"
            idtxt = "ID:%d" % {"O": OPEN, "C": CLOSE, "EQ": EQUAL, "U32": U32, "U64": U64, "I32": I32, "BOOL": BOOL, "Q": QUOTED, "U": UNQUOTED,
                               "F32": F32, "F64": F64, "RGB": RGB, "I64": I64}.get(kind, int(val) if kind == "T" else -1)
            pv = val if kind != "RGB" else tok
            if mode == "peek":
                a, b, c = next(it), next(it), next(it)
                if a != "%s@%s" % (idtxt, start) or b != "%s@%s" % (tok, start) or c != allt[idx]:
                    return "token %d: peek_id/peek_token/read_token = %s %s %s, next_token = %s" % (idx, a, b, c, allt[idx])
            elif mode == "next":
                a = next(it)
                if a != allt[idx]:
                    return "token %d: next_token = %s vs %s" % (idx, a, allt[idx])
            elif mode == "prim":
                a, b, c = next(it), next(it), next(it)
                if a != "%s@%s" % (idtxt, start) or b != "%s@%d" % (idtxt, int(start) + 2) or c != "%s@%s" % (pv, pos):
                    return "token %d: peek_id, read_id, read_<payload> = %s %s %s, read_token = %s" % (idx, a, b, c, allt[idx])
            elif mode == "nid":
                a, b = next(it), next(it)
                if a != "%s@%d" % (idtxt, int(start) + 2) or b != "%s@%s" % (pv, pos):
                    return "token %d: next_id, read_<payload> = %s %s, read_token = %s" % (idx, a, b, allt[idx])
            else:
                a = next(it)
                if a != "%s@%d" % (idtxt, int(start) + 2):
                    return "token %d: next_id = %s, read_token = %s" % (idx, a, allt[idx])
        # the tail: peek_id, peek_token, next_token at the point where next_token stops
        a, b, c = next(it), next(it), next(it)
        last = allt[len(plan)]
        if c != last:
            return "final next_token %s vs %s" % (c, last)
        if not b.startswith("NONE@"):
            return "peek_token answers %s where next_token answers %s" % (b, last)
    except (StopIteration, IndexError, ValueError):
        return "outputs do not line up: %s / %s" % (" ".join(mixed)[:200], " ".join(allt)[:200])
    return None


def check_undersized(got, ref):
    """buffer smaller than the largest token: the reader stops early with BufferFull -- never a clean end, never Eof --
    and what it delivered is a prefix of the lexer's tokens (never a split token)"""
    gt, ge, gp = got.split("|")
    rt, re_, rp = ref.split("|")
    g = [] if gt == "-" else gt.split(" ")
    r = [] if rt == "-" else rt.split(" ")
    if g != r[:len(g)]:
        return "tokens are not a prefix of the lexer's"
    if ge != "ERR:101":
        return "ends with %s instead of BufferFull" % ge
    return None


def check_ops_equal(got, ref):
    g, r = got.split(" "), ref.split(" ")
    for a, b in zip(g, r):
        if a.startswith("ERR:") or b.startswith("ERR:"):
            if a != b:
                return "first error differs: reader %s, lexer %s" % (a, b)
            return None
        if a != b:
            return "reader %s, lexer %s" % (a, b)
    return None


def run(ctx):
    run_binary(ctx)
    # >>> a_c08 (wave 4): clauses audit/C08.md found uncovered (props/C08_more.py)
    from props import C08_more
    C08_more.run_more(ctx)
    # <<< a_c08
    # >>> w_buf (wave 5): buffer.rs at storage level (shared with C07; own seed), see props/bufstore.py
    from props import bufstore
    bufstore.run(ctx, "C08", 3000, 40000)
    # <<< w_buf
    # >>> s_c08 (wave 6): size / boundary ladders, one dimension at a time (audit/C08.md "Size dimensions"), see props/C08_sizes.py
    from props import C08_sizes
    C08_sizes.run_sizes(ctx)
    # <<< s_c08


def search(ctx):
    import random
    ctx.rng = random.Random(ctx.seed + 1)
    old = ctx.tier
    ctx.tier = "thorough"
    try:
        run(ctx)
    finally:
        ctx.tier = old


CLAIM = {
    "text": "Coq theorems over a faithful Gallina model of binary/lexer.rs (read_token and primitives, Token::write with the `as u16` "
            "truncation, Lexer cursor methods) and binary/reader.rs (next/refill_next, read_bytes, skip_container over the BufferWindow "
            "model incl. BufferFull when the window fills the buffer): write/lex round trip for all well-formed token lists, prefix stability of "
            "read_token, and streaming reader = slice lexer for every input, every fault-free read schedule and every capacity that "
            "holds the largest token (tokens, end class, final position). The model is tied to the code by differential execution of "
            "every entry point on token sequences, raw bytes, truncations and corruptions under all-compositions / 1-byte / periodic / "
            "random schedules, and the property's oracles (reader = lexer, write->lex, primitives/peek/next agree with read_token, "
            "undersized buffers only ever fail) are evaluated on the implementation.",
    "note": "Trusted: Coq kernel, tools/gen_tables.py (LexemeId constants), extraction (ExtrOcamlBasic only), the Rust harness and its "
            "scheduled Read. Theorems proved are listed in evidence (coverage.theorems).",
    "technique": "machine-checked proof in Coq over an executable model + model/implementation correspondence by extraction",
}
