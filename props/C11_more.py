"""C11, wave 4 (engineer a_c11): the specification functions of coq/theories/ScalarSpec.v (proved equal to the
models of scalar.rs for every byte string, Props/C11_spec.v) run against the whole public surface of `Scalar`:

  spec      c11.u64 / c11.i64 / c11.f64 / c11.bool  (f64 with the payload of PrecisionLoss)
            inputs: every power of ten 10^0..10^25 +-3 with sign / leading zero / '.' variants, 15/16/17/18+
            significant digits with every position of the '.', 54..64-bit integers at and next to the rounding ties
            of `as f64` (PrecisionLoss payload), text forms that must be refused (exponents,
            inf/nan, hex, separators, blanks, non-ASCII digits), every one of the 256 byte values as the one
            foreign byte in 9 positions, to_bool with every single-byte substitution/insertion on "yes"/"no"
  at        c11.at: the four conversions on slices of every length 0..24 at every alignment 0..7 (mod 8), digits
            before the slice and garbage after it (a chunked / SWAR fast path would read them)
  pub       c11.pub: as_bytes, is_ascii, Display, Debug, ==, Copy/Clone;  c11.err: ScalarError accessors

Oracles (independent of the model; the same exact-arithmetic references as props/C11.py) on the implementation's
outputs, plus: the PrecisionLoss payload is the nearest double of the integer, and PrecisionLoss is raised
exactly for integer renderings beyond 2^53-1 that fit the accumulator."""
from vlib import hexs, unhex

WS = b"\t\n\x0c\r "


def pow10_strings():
    out = set()
    for n in range(0, 26):
        for dlt in range(-3, 4):
            v = 10 ** n + dlt
            if v < 0:
                continue
            s = str(v).encode()
            for pre in (b"", b"+", b"-", b"0", b"-0", b"-+"):
                out.add(pre + s)
                out.add(pre + s + b".0")
            # the '.' at every position of the digits (k = 0..len fractional digits)
            if dlt in (-1, 0, 1):
                for p in range(0, len(s) + 1):
                    out.add(s[:p] + b"." + s[p:])
                    out.add(b"-" + s[:p] + b"." + s[p:])
    return out


def sigdigit_strings(rng, nrand):
    """15, 16, 17, 18, 19, 20 significant digits, '.' at every position; many fraction digits (20..24)"""
    out = set()
    for nd in (15, 16, 17, 18, 19, 20):
        base = [b"9" * nd, b"1" + b"0" * (nd - 1), b"1" + b"0" * (nd - 2) + b"1", str(2 ** 53).encode().ljust(nd, b"0")[:nd]]
        base += [bytes(rng.choice(b"0123456789") for _ in range(nd)) for _ in range(nrand)]
        for s in base:
            for p in range(0, nd + 1):
                out.add(s[:p] + b"." + s[p:])
            out.add(b"-" + s[:1] + b"." + s[1:])
            out.add(s)
    for k in (20, 21, 22, 23, 24):
        for lead in (b"", b"0", b"1", b"-0", b"-", b"+", b"12"):
            for fr in (b"0" * k, b"0" * (k - 1) + b"1", b"9" * k, b"1" + b"0" * (k - 1), b"0" * (k - 3) + b"123"):
                out.add(lead + b"." + fr)
    return out


def tie_integers(rng, per):
    """integers of 54..64 bits at and next to the rounding ties of u64/i64 -> f64 (the PrecisionLoss payload, and
    `i as f64` in the fractional branch): mantissa m (53 bits), v = m*2^s + 2^(s-1) + {-1,0,1}"""
    out = set()
    for L in range(54, 65):
        sh = L - 53
        for _ in range(per):
            m = rng.randrange(2 ** 52, 2 ** 53)
            for mm in (m, m ^ 1):
                for dlt in (-1, 0, 1):
                    v = (mm << sh) + (1 << (sh - 1)) + dlt
                    if v >= 2 ** 64:
                        continue
                    s = str(v).encode()
                    out.add(s)
                    out.add(b"-" + s)
                    out.add(s + b".0")
                    p = rng.randrange(0, len(s))
                    out.add(s[:p] + b"." + s[p:])
    return out


def refused_forms():
    forms = [b"1e5", b"1E5", b"1e+5", b"1e-5", b"1.5e3", b"1.5E-3", b".5e1", b"1e", b"e1", b"1e0", b"0e0", b"1.e5",
             b"inf", b"-inf", b"+inf", b"Inf", b"INF", b"infinity", b"Infinity", b"-Infinity", b"nan", b"NaN", b"NAN", b"-nan", b"+nan",
             b"0x10", b"0X10", b"0x1p3", b"0b1", b"0o7", b"1_000", b"1,5", b"1,000.5", b"1 000", b" 1", b"1 ", b"\t1", b"1\n", b" 1.5", b"1.5 ",
             b"1.", b"-1.", b"+1.", b".", b"-.", b"+.", b"..", b"1..5", b"1.5.", b"1.5.5", b".5.", b"-", b"+", b"", b"--1", b"++1", b"+-1", b"-+1",
             b"1-", b"1+", b"1.5-", b"1.-5", b"1.+5", b"-.+5", b"1f", b"1.0f", b"1d", b"1L", b"1u64", b"1.0f64", b"\xef\xbc\x91", b"\xd9\xa1", b"1\x00", b"\x001",
             b"1.5\x00", b"true", b"false", b"yes", b"no", b"0.0.0", b"1/2", b"1:2", b"1;", b"(1)", b"$1", b"1%", b"1.5%", b"#1", b"\"1\"", b"'1'"]
    # "+" -> 0 and "-+1" -> -1 are accepted quirks of the code (inside the theorems' language): not in the must-refuse set
    return set(forms) - {b"+", b"-+1"}


def foreign_strings():
    out = set()
    for b in range(256):
        if 48 <= b <= 57:
            continue
        x = bytes([b])
        out.update([x, x + b"1", b"1" + x, b"1" + x + b"1", b"-" + x, b"+" + x, b"1." + x, b"1.1" + x, b"1" + x + b".1",
                    b"12345678" + x, b"1234567" + x + b"1", x + b"12345678"])
    return out


def bool_strings():
    out = set()
    for w in (b"yes", b"no"):
        for p in range(len(w) + 1):
            for b in range(256):
                x = bytes([b])
                out.add(w[:p] + x + w[p:])
                if p < len(w):
                    out.add(w[:p] + x + w[p + 1:])
        for p in range(len(w)):
            out.add(w[:p] + w[p + 1:])
    out.update([b"", b"yes", b"no", b"yesno", b"noyes", b"Yes", b"No", b"y", b"n", b"1", b"0", b"true", b"false"])
    return out


def at_cases(ctx, rng):
    cases = []
    for n in range(0, 25):
        pats = [b"9" * n, b"0" * n, (b"1" + b"0" * (n - 1)) if n else b"", bytes(rng.choice(b"0123456789") for _ in range(n)),
                (b"-" + bytes(rng.choice(b"0123456789") for _ in range(n - 1))) if n else b"",
                (b"+" + bytes(rng.choice(b"123456789") for _ in range(n - 1))) if n else b""]
        if n >= 2:
            p = rng.randrange(0, n)
            d = bytearray(rng.choice(b"0123456789") for _ in range(n - 1))
            d.insert(p, 0x2e)
            pats.append(bytes(d))
            pats.append(b"0" * (n - 2) + b".5")
        for off in range(8):
            for s in pats:
                cases.append("c11.at\t%s\t%d" % (hexs(s), off))
        # one foreign byte at every position
        for p in range(n):
            for x in (b"x", b":", b"/", b"\x00", b"\xb0"):
                d = bytearray(rng.choice(b"0123456789") for _ in range(n))
                d[p:p + 1] = x
                cases.append("c11.at\t%s\t%d" % (hexs(bytes(d)), rng.randrange(8)))
    cases += ["c11.at\t%s\t%d" % (hexs(w), off) for w in (b"yes", b"no", b"yess", b"ye") for off in range(8)]
    return cases


def pub_strings(rng, n):
    out = [b"", b" ", b"a", b"a ", b"a\t\n\x0c\r ", b"a\x0b", b" a", b"a b ", b"\\", b"\\\\", b"a\\b", b"a\\ ", b"\\ \\ ", b"\"q\"",
           b"\xff", b"a\xff", b"\xff ", b"\x80", b"\x7f", b"\x00", b"caf\xe9", b"1.5", b"yes", b"x" * 10 + b"\xe9", b"\xe9" * 100,
           b"\xe9" * 1000, b"a" * 300 + b"  "]
    alpha = b"abz09 _-\\\t\n\r\x0c\x0b\x00\x7f\x80\xe9\xff"
    for _ in range(n):
        k = rng.choice([rng.randrange(0, 6), rng.randrange(6, 20), rng.randrange(20, 40)])
        out.append(bytes(rng.choice(alpha) for _ in range(k)))
    return out


def expect_display(d):
    if all(b < 128 for b in d):
        t = d.rstrip(WS)
        return hexs(bytes(b for b in t if b != 0x5c))
    return "nonascii:true"


def check_payload(ctx, base, s, case, out):
    """PrecisionLoss(payload): raised exactly for integer renderings with 2^53-1 < |v| that fit, payload = nearest double"""
    m = base.RE_F64.match(s)
    is_int = bool(m) and s not in (b"", b"-") and m.group(3) is None
    v = base.digits_val(m.group(2)) if is_int else None
    neg = is_int and m.group(1) == b"-"
    want_loss = is_int and v > base.G53 and v <= base.U64_MAX and (not neg or v <= base.I64_MAX)
    if out.startswith("ERR:4"):
        if not want_loss:
            ctx.fail("f64-loss-class", "to_f64(%r) = PrecisionLoss but the input is not an integer beyond 2^53-1 that fits" % s, [case], [out], "another refusal class / a value")
            return
        want = base.bits_of(float(-v if neg else v))        # int -> float: correctly rounded (ties to even)
        if out != "ERR:4:" + want:
            ctx.fail("f64-loss-payload", "to_f64(%r): PrecisionLoss payload %s, the nearest double of the integer is %s" % (s, out[6:], want), [case], [out], "ERR:4:" + want)
    elif want_loss:
        ctx.fail("f64-loss-class", "to_f64(%r) = %s, expected PrecisionLoss (an integer f64 cannot hold exactly)" % (s, out), [case], [out], "ERR:4:<nearest double>")


def check_four(ctx, base, s, case, outs):
    u, i, f, b = outs
    base.check_int(ctx, "u64", s, case, u, base.expect_u64(s))
    base.check_int(ctx, "i64", s, case, i, base.expect_i64(s))
    base.check_f64(ctx, s, case, f if not f.startswith("ERR:4:") else "ERR:4")
    check_payload(ctx, base, s, case, f)
    e = {b"yes": "true", b"no": "false"}.get(s)
    if (e is None) != b.startswith("ERR") or (e is not None and b != e):
        ctx.fail("bool", "to_bool(%r) = %s" % (s, b), [case], [b], e or "refusal")


def ref_prefix(d, start, signs):
    """reference prefix parse: optional sign (one of `signs`) only when start is None; returns (neg, value, rest, ndigits, signed)"""
    neg = signed = False
    body = d
    if start is None and d[:1] in signs and d[:1]:
        signed, neg, body = True, d[:1] == b"-", d[1:]
    n = 0
    while n < len(body) and 48 <= body[n] <= 57:
        n += 1
    v = int(b"%d" % (start or 0) + body[:n]) if n else (start or 0)
    return neg, v, body[n:], n, signed


def run_prefix(ctx, base, strs):
    """to_u64_t / to_i64_t (anchor mechanism; pub(crate), reached through the verif hooks): state-machine model AND spec"""
    rng = ctx.rng
    cases = []
    for s in strs:
        h = hexs(s)
        cases += ["scalar.i64t\t" + h, "c11.i64t\t" + h]
        for st in (0, rng.choice([1, 9, 1844674407370955161, 1844674407370955162, base.U64_MAX, rng.randrange(2 ** 64)])):
            cases += ["scalar.u64t\t%s\t%d" % (h, st), "c11.u64t\t%s\t%d" % (h, st)]
    impl, _ = ctx.correspond("prefix", cases, nontrivial=lambda c, i: True)
    off = len(impl) - len(cases)
    for k, c in enumerate(cases):
        out = impl[off + k]
        f = c.split("\t")
        s = unhex(f[1])
        if f[0].endswith("i64t"):
            neg, v, rest, n, signed = ref_prefix(s, None, (b"-", b"+"))
            want = None if (not s or (n == 0 and not signed) or v > base.I64_MAX) else "%d %s" % (-v if neg else v, hexs(rest))
        else:
            st = int(f[2])
            _, v, rest, n, _ = ref_prefix(s, st, ())
            want = None if (n == 0 or v > base.U64_MAX) else "%d %s" % (v, hexs(rest))
        if out in ("PANIC", "ABORT", "HANG") or (want is None) != out.startswith("ERR") or (want is not None and out != want):
            ctx.fail("prefix-parse", "%s(%r%s) = %s" % (f[0].split(".")[1], s, ", start=" + f[2] if len(f) > 2 else "", out), [c], [out], want or "refusal")
    ctx.count("prefix_strings", len(strs))


def run_more(ctx, base):
    rng = ctx.rng
    # ---- 1. spec functions vs the four conversions
    strs = pow10_strings() | sigdigit_strings(rng, ctx.scale(6, 60)) | refused_forms() | foreign_strings() | {b"+", b"-+1"} | tie_integers(rng, ctx.scale(6, 60))
    bad = [s for s in refused_forms() if base.expect_f64(s) is not None]
    if bad:
        ctx.broken.append({"what": "check-internal", "detail": "refused_forms() contains strings of the accepted language: %r" % bad})
    strs = sorted(strs)
    cases = []
    for s in strs:
        h = hexs(s)
        cases += ["c11.u64\t" + h, "c11.i64\t" + h, "c11.f64\t" + h]
    bools = sorted(bool_strings())
    cases += ["c11.bool\t" + hexs(s) for s in bools]
    impl, _ = ctx.correspond("spec", cases, nontrivial=lambda c, i: True)
    off = len(impl) - len(cases)
    refused = refused_forms()
    for k, c in enumerate(cases):
        out = impl[off + k]
        kind, h = c.split("\t")
        s = unhex(h)
        if kind == "c11.u64":
            base.check_int(ctx, "u64", s, c, out, base.expect_u64(s))
        elif kind == "c11.i64":
            base.check_int(ctx, "i64", s, c, out, base.expect_i64(s))
        elif kind == "c11.f64":
            base.check_f64(ctx, s, c, out if not out.startswith("ERR:4:") else "ERR:4")
            check_payload(ctx, base, s, c, out)
            if s in refused and not out.startswith("ERR"):
                ctx.fail("f64-form-accepted", "to_f64(%r) = %s: exponent / inf / nan / hex / blank forms must be refused" % (s, out), [c], [out], "refusal")
        else:
            e = {b"yes": "true", b"no": "false"}.get(s)
            if (e is None) != out.startswith("ERR") or (e is not None and out != e):
                ctx.fail("bool", "to_bool(%r) = %s" % (s, out), [c], [out], e or "refusal")
    ctx.count("spec_strings", len(strs))
    ctx.count("spec_bool_strings", len(bools))

    # ---- 1b. the prefix parsers on a sample of the same strings (+ date-like tails)
    samp = [strs[k] for k in range(0, len(strs), 9)] + [b"1444.11.11", b"-5.1.1", b"+12.5", b"007x", b"18446744073709551615.1",
            b"18446744073709551616.1", b"9223372036854775807-", b"9223372036854775808-", b"-9223372036854775808", b"", b"-", b"+", b".", b"x"]
    run_prefix(ctx, base, samp)

    # ---- 2. every length 0..24 at every alignment
    cases = at_cases(ctx, rng)
    impl, _ = ctx.correspond("at", cases, nontrivial=lambda c, i: True)
    off = len(impl) - len(cases)
    for k, c in enumerate(cases):
        out = impl[off + k]
        s = unhex(c.split("\t")[1])
        parts = out.split(";")
        if len(parts) != 4:
            ctx.fail("at-crash", "conversions of %r on an aligned slice: %s" % (s, out), [c], [out], "four results")
            continue
        check_four(ctx, base, s, c, parts)
    ctx.count("at_cases", len(cases))

    # ---- 3. the rest of the public surface
    ps = pub_strings(rng, ctx.scale(400, 4000))
    cases = []
    for a in ps:
        others = [a, a + b" ", a[:-1] if a else b"x", rng.choice(ps)]
        if a:
            # same length, one byte different: the last one, and a random one
            others.append(a[:-1] + bytes([a[-1] ^ 1]))
            q = rng.randrange(len(a))
            others.append(a[:q] + bytes([a[q] ^ 0x20]) + a[q + 1:])
        for b in others:
            cases.append("c11.pub\t%s\t%s" % (hexs(a), hexs(b)))
    ncmp = len(cases)
    errs = sorted(refused_forms() | {b"12", b"-12", b"1.5", b"9007199254740993", b"-9007199254740993", b"18446744073709551616", b"yes", b"no"})
    cases += ["c11.err\t" + hexs(s) for s in errs]
    impl, _ = ctx.correspond("pub", cases, nontrivial=lambda c, i: True)
    off = len(impl) - len(cases)
    for k, c in enumerate(cases):
        out = impl[off + k]
        f = c.split("\t")
        if f[0] == "c11.pub":
            a, b = unhex(f[1]), unhex(f[2])
            want = "|".join([hexs(a), str(all(x < 128 for x in a)).lower(), expect_display(a), "true", str(a == b).lower(), "true"])
            if out != want:
                ctx.fail("scalar-pub", "as_bytes|is_ascii|Display|Debug|==|Copy of Scalar(%r) vs %r: %s" % (a, b, out), [c], [out], want)
        else:
            s = unhex(f[1])
            exp_ok = [base.expect_u64(s) is not None, base.expect_i64(s) is not None, base.expect_f64(s) is not None, s in (b"yes", b"no")]
            parts = out.split("|")
            good = len(parts) == 4
            for ok, p in zip(exp_ok, parts):
                if ok != (p == "ok") or (p != "ok" and not p.endswith(":true:true:true:true:true")):
                    good = False
            if not good:
                ctx.fail("scalar-error-accessors", "ScalarError accessors (class:Display:Debug:source:Clone/==:!=) for %r: %s" % (s, out), [c], [out],
                         "ok where the conversion succeeds, ERR:<class>:true:true:true:true:true elsewhere")
    ctx.count("pub_cases", ncmp)
    ctx.count("err_cases", len(errs))
