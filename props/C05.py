"""C05 No input can crash, hang or escape memory bounds in any entry point."""
from vlib import hexs, unhex
from props import textdoc as td, textgen as tg

PROFILES = ["release", "debug"]
RULE = ("every entry-point kind of the harness x adversarial inputs: byte soups over the significant text alphabet, random bytes, generated documents "
        "bit-flipped / spliced / truncated, deep nesting, unterminated quotes, huge binary length prefixes; streaming kinds with buffer sizes 1..64 and "
        "1-byte / random schedules; run in release AND debug (overflow checks, debug_assert!) under catch_unwind with an abort/hang watchdog. "
        "non-trivial = input accepted by the entry point (not an immediate error). "
        "Wave 4 (props/C05_inv.py, audit/C05.md): every case runs under an in-process per-case watchdog (10 s; positive control in every run); "
        "ALL strings over the alphabet { } = \" \\ # a space up to length 5 and ALL binary token sequences (14 kinds) up to length 3 through "
        "parser + whole-document DOM / JSON walk, slice reader, `any` deserializer, binary API walk; whole-DOM walk (every reader, iterator, json() "
        "with all option combinations, serde_json::Value / IgnoredAny targets) on every tape the parser returns for the adversarial inputs and for "
        "wide (1500 fields) and deep (250 levels) documents; mixed call sequences with faults on one text reader (next / read / skip_container / "
        "skip_unquoted_value / read_bytes); typed deserializer targets named after the input's own words over all paths (slice, tape, objreader, "
        "reader caps 1..64, freader, fslice); writer call histories with adversarial payloads and any indent configuration; public functions no other "
        "kind calls; the side condition of the write_tape no-crash theorem evaluated on every real tape; DOM / JSON model correspondence on every "
        "node of the accepted adversarial inputs. "
        "Wave 5 (w_btcap): stream tape_cap_model -- both binary tape parsers on a fresh token vector of a chosen capacity c0 placed 0..3 slots around "
        "the token count at the array->mixed `=`, ghost clusters, mixed_insert1/2, container close; output = tape AND capacity of the vector "
        "afterwards, compared with the capacity model (BinTapeCap.v, operation order generated from tape.rs / copyless.rs); oracle len <= capacity")
TRUSTED = ["real stack size, allocator behaviour and pointer provenance are outside the Gallina models (DESIGN.md section 10)",
           "w_btcap: Vec::reserve(n) leaves capacity >= len + n and Vec::with_capacity(n) has capacity n (the theorems of Props/C05_tapecap.v hold for every growth policy; "
           "the exact capacities of RawVec::grow_amortized are only observed by stream tape_cap_model)"]
ASSUMPTIONS = ["documented panics (Date::from_ymd, add_days overflow, DateHour::from_ymdh) are API contracts, not findings"]

CRASH = ("PANIC", "ABORT", "HANG")
# >>> w_buf (wave 5)
RULE += ("; wave 5 (props/bufstore.py, coq/theories/BufStore.v): buffer.rs at STORAGE level -- op lists (fill_buf over a scripted, possibly "
         "scribbling Read; advance; advance_to; get; window/position/consumed_data after every op) on the real BufferWindow for every "
         "capacity 0..40 over dirty buffers (bytes of the data alphabet), zeroed buffers, the bufferless slice window and buffers recycled from a "
         "previous window; schedules with short reads, reads at the end of the data (Ok(0)), full buffers, faults; extracted storage model = "
         "implementation in release AND debug builds (every debug_assert! of buffer.rs armed: oracle crash-bufstore), a stream-level python oracle that keeps no buffer contents (window = slice of the delivered data at position)")
TRUSTED = TRUSTED + ["props/bufstore.Sim: offsets-only reference of BufferWindow (oracle bufstore-window / bufstore-position / bufstore-full)"]
# <<< w_buf

# >>> s_c05 (wave 6)
RULE += ("; wave 6 (props/C05_size.py, audit/C05.md section Size dimensions): size ladders 0 1 2 3 7 8 9 15 16 17 31 32 33 63 64 65 127 128 129 255 256 257 "
         "1023 1024 1025 4095 4096 4097 65533 65534 65535 65536, ONE dimension at a time on an otherwise small input (lengths of every token class, run "
         "lengths of every significant byte class, counts of siblings / duplicates / ghosts / elements / operators / headers / parameter blocks, "
         "nesting depth of every container kind below the depth where known finding I starts for that entry point, binary string lengths to 65535 "
         "present / absent / one short, token ids, buffer sizes 0..40, 32767..32769, 65535..65540 with tokens that fit exactly / are one short / one "
         "over, up to 32768 refills inside one token (below where known finding N starts in the debug profile), read-chunk sizes, length x alignment, "
         "count x capacity of the binary token vector, writer payloads / depth / indent) through EVERY entry-point kind in release and debug; "
         "oracle: a value or an error")
# <<< s_c05

# (kind template, needs) -- families register their byte-string entry points here
TEXT_KINDS = ["tt.parse\t{h}", "tr.slice\t{h}", "tr.stream\t{cap}\t{sched}\t{h}", "tr.skip\t{cap}\t{sched}\t{h}\t{n}", "tr.skipuv\t{cap}\t{sched}\t{h}\t{n}",
              "tr.readbytes\t{cap}\t{sched}\t{h}\t{n}\t{nb}", "scalar.u64\t{h}", "scalar.i64\t{h}", "scalar.bool\t{h}",
              "date.parse\t{h}", "dh.parse\t{h}", "ud.parse\t{h}", "raw.parse\t{h}"]
EXTRA_KINDS = []   # filled by props/C05_extra.py when other families are merged


def mutate(rng, d):
    b = bytearray(d)
    r = rng.random()
    if not b:
        return bytes(b)
    if r < 0.3:
        i = rng.randrange(len(b)); b[i] ^= 1 << rng.randrange(8)
    elif r < 0.5:
        i = rng.randrange(len(b)); j = rng.randrange(len(b)); b[i:i] = b[j:j + rng.randrange(1, 9)]
    elif r < 0.7:
        b = b[:rng.randrange(len(b))]
    elif r < 0.85:
        del b[rng.randrange(len(b))]
    else:
        b[rng.randrange(len(b))] = rng.choice(b'{}"\\#=[]@\x00\xff')
    return bytes(b)


def inputs(ctx):
    rng = ctx.rng
    out = []
    for _ in range(ctx.scale(400, 6000)):
        out.append(tg.gen_soup(rng, maxlen=rng.choice([4, 10, 30])))
    for _ in range(ctx.scale(200, 3000)):
        out.append(bytes(rng.randrange(256) for _ in range(rng.randrange(0, 40))))
    for _ in range(ctx.scale(150, 2500)):
        doc = td.gen_doc(rng, depth=rng.choice([1, 2, 3, 4]))
        d = td.render(doc, rng, rng.choice(td.STYLES), bom=rng.random() < 0.1)
        out.append(d)
        for _ in range(3):
            out.append(mutate(rng, d))
    # adversarial shapes
    out += [b"a={" * 300, b"{" * 500, b"}" * 500, b"a={" * 200 + b"}" * 200, b'"' + b"x" * 300, b'"' + b"\\" * 301, b"#" + b"c" * 300,
            b"a=" + b"[" * 100, b"[[" * 50, b"@[" + b"x" * 200, b"a" * 1000, b"=" * 300, b"a = { b = { c = { d } } } " * 20,
            b"\xef\xbb", b"\xef\xbb\xbf", b"\xef\xbb\xbf\xef\xbb\xbf", b"a=b\x00c", b"\x00" * 64, b"\xff" * 64]
    return out


def run(ctx):
    rng = ctx.rng
    ins = inputs(ctx)
    cases = []
    for d in ins:
        n = len(d)
        for kt in TEXT_KINDS + EXTRA_KINDS:
            if "{cap}" in kt and rng.random() < 0.5:
                continue
            cap = rng.choice([1, 2, 3, 8, 9, 16, 17, 64, n + 1])
            sched = rng.choice(["-", ",".join(["1"] * min(n, 400)), ",".join(str(rng.randrange(1, 12)) for _ in range(min(n, 60)))]) or "-"
            cases.append(kt.format(h=hexs(d), cap=cap, sched=sched or "-", n=rng.randrange(0, 6), nb=rng.choice([0, 1, 5, 64, 100000])))
    # windows that end right before a brace, after runs of tabs/newlines (fast-path look-ahead)
    for _ in range(ctx.scale(300, 3000)):
        pre = rng.choice([b"a=b", b"x={ y }", b"k = v", b"", b"{", b"q"])
        ws = bytes(rng.choice(b"\t\n") for _ in range(rng.choice([7, 8, 8, 8, 9, 16])))
        tail = rng.choice([b"}", b"{", b"} z=1", b"{ a }"])
        d = pre + ws + tail
        cases.append("tr.subslice\t%s\t%d" % (hexs(d), len(pre) + len(ws)))
        cases.append("tr.stream\t%d\t%d,%d\t%s\t%d" % (len(d) + 9, len(pre) + len(ws), len(d), hexs(pre + ws + b"c=d"), rng.choice([0x7b, 0x7d])))
    ctx.count("inputs", len(ins))
    # >>> a_c05 (wave 4): every case runs under the in-process per-case watchdog (harness/src/fam_c05.rs `c05.w`), so that a
    # hang is reported after WATCHDOG_MS as ABORT for exactly that case instead of costing the runner's 600 s chunk timeout
    from props import C05_inv
    cases = [C05_inv.w(c) for c in cases]
    # <<<
    for prof in PROFILES:
        r = C05_inv.guarded(ctx, "entry_points_" + prof, cases, prof, nontrivial=lambda c, i: not i.startswith("ERR") and i not in ("none", "NOKIND"), model=(prof == "release"))
        if r is None:       # a_c05: hang storm seen by the pilot, failures already recorded
            continue
        impl = r[0]
        base = len(impl) - len(cases)
        for k, c in enumerate(cases):
            o = impl[base + k]
            if o in CRASH or o.startswith("RUNAWAY") or " RUNAWAY" in o:
                ctx.fail("crash-" + C05_inv.inner_kind(c), "%s build: %s on %s" % (prof, o, c[:200].replace("\t", " ")), [c], [o], "a value or an error")
    try:
        from props import C05_extra
        C05_extra.run_extra(ctx)
    except ImportError:
        pass
    # >>> a_c05 (wave 4): inventory streams, see props/C05_inv.py and audit/C05.md
    C05_inv.run_inv(ctx)
    # <<<
    # >>> s_c05 (wave 6): size / boundary ladders, one dimension at a time, every entry-point kind, both profiles (props/C05_size.py)
    from props import C05_size
    C05_size.run_size(ctx)
    # <<< s_c05
    # >>> w_buf (wave 5): index-level safety of buffer.rs -- contract-respecting op lists on the real BufferWindow in both
    # build profiles (debug: every debug_assert! in front of the unsafe blocks is armed); see props/bufstore.py
    from props import bufstore
    bufstore.run(ctx, "C05", 2500, 30000, profiles=PROFILES, crash_oracle=True)
    bufstore.run_contract(ctx, 600, 8000)
    # <<< w_buf


def search(ctx):
    import random
    ctx.rng = random.Random(ctx.seed + 1)
    old = ctx.tier
    ctx.tier = "thorough"
    try:
        run(ctx)
    finally:
        ctx.tier = old


CLAIM = {
    "text": "Coq theorems that the models of the entry points never reach a Panic/OOB/OutOfFuel outcome (every Rust panic site, unchecked access and loop is explicit in the models), tied to the code by correspondence; plus differential execution of every entry point in release and debug builds under catch_unwind with an abort/hang watchdog on adversarial inputs",
    "note": "Wave 4: DOM and JSON entry points are pinned FROM BYTES (Props/C05_inv.v: for every input the parser accepts, no hypothesis on the tape); write_tape on parsed tapes is proved crash free and terminating under one executable side condition (no parameter token in value position, Props/C05_wtape.v, _partial) which is evaluated on every real tape by the extracted checker and by an independent walk over the real DOM (stream inv_write_tape_side). Finding N (audit/C05.md): in an unoptimised build the streaming readers recurse once per refill inside a token; not observable with the harness profiles. Partial by nature: real stack exhaustion, allocator failure and pointer provenance are not expressible in a Gallina model; recursion depth = nesting depth is reported as a known finding where it applies. Evidence lists the no-crash theorems proved.",
    "technique": "machine-checked proof in Coq over an executable model + model/implementation correspondence by extraction",
}
