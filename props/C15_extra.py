"""C15 wave 4 (a_wr): the parts of the call API that no stream / oracle reached (audit/C15.md).

  calls_queries      at_unknown_start() / at_array_value() after EVERY call of a well-formed list, against a
                     reference derived from the document structure (docgen.to_calls qtrace) -- before, these two
                     queries were only compared with the model
  float_wide         write_f32/f64 over the whole domain Scalar::to_f64 can read back (zero, negative zero,
                     1e-5 <= |x| < 2^53 for f64, 1e-13 <= |x| < 2^53 for f32): within 2 ulp; write_f32_precision /
                     write_f64_precision: within half a unit of the last printed place (+2 ulp); outside that
                     domain (huge, tiny, NaN, inf): the printed text still comes back as ONE unquoted scalar,
                     byte for byte -- the structure survives
  typed_readback     write_bool -> Scalar::to_bool; write_date(game_fmt) of Date / DateHour / UniformDate ->
                     Date::parse etc. gives the same date; write_date(iso_8601) -> the ISO text as one scalar;
                     write_binary(Token id) -> `__unknown_0x<hex>`
  quoted_history     3..8 write_quoted calls on ONE writer with payloads that alternate between needing escapes
                     and not, growing and shrinking (the scratch buffer is handed back and forth): every raw token
                     is escape(payload_i) -- nothing of an earlier payload leaks
  illformed_sessions arbitrary interleavings of calls (whole alphabet incl. all 8 operators, floats incl. NaN/inf,
                     iso dates), write_tape of parsed tapes in ANY writer state, and raw inner() writes: never a
                     crash, write_tape never errs and restores depth(), depth() follows the counter
All streams except the *_readback / typed ones are also model-vs-implementation comparisons (exact bytes + the four
state queries after every call)."""
import random, re, struct
from fractions import Fraction
from vlib import hexs, unhex
from props import docgen
from props.docgen import S, Field, Obj, Arr, Doc

CRASH = ("PANIC", "ABORT", "HANG")
DPM = [0, 31, 28, 31, 30, 31, 30, 31, 31, 30, 31, 30, 31]
FLOAT_RE = re.compile(rb"^-?[0-9]+(\.[0-9]+)?\Z")


def f64_bits(x):
    return struct.unpack("<Q", struct.pack("<d", x))[0]


def f32_bits(x):
    return struct.unpack("<I", struct.pack("<f", x))[0]


def bits_f64(b):
    return struct.unpack("<d", struct.pack("<Q", b))[0]


def bits_f32(b):
    return struct.unpack("<f", struct.pack("<I", b))[0]


def okey(bits, w):
    return bits if bits < 2 ** (w - 1) else 2 ** (w - 1) - bits


def rcfg(rng, profile="r"):
    r = rng.random()
    if r < 0.1:
        return "d,d," + profile
    if r < 0.15:
        return "d,%d,%s" % (rng.randrange(0, 10), profile)
    if r < 0.2:
        return "%d,d,%s" % (rng.choice([32, 9]), profile)
    return "%d,%d,%s" % (rng.choice([32, 9]), rng.randrange(0, 10), profile)


def with_profile(case, p):
    parts = case.split("\t")
    parts[1] = parts[1][:-1] + p
    return "\t".join(parts)


def plain(d):
    from props.C14 import has_mixed_nested_op, has_mixed_container_then_more
    return not (has_mixed_nested_op(d, any_op=True) or has_mixed_container_then_more(d))


# ------------------------------------------------------------------ 1. state queries from the document
def calls_queries(ctx, _fail):
    rng = ctx.rng
    cases, refs = [], []
    for i in range(ctx.scale(2500, 15000)):
        d = docgen.gen_doc(rng, rng.randrange(0, 5), rng.randrange(1, 6), params=False, ghosts=False, object_tails=False, exotic=False)
        if not plain(d):
            continue
        tr, qt = [], []
        calls = docgen.to_calls(d, rng, binary=rng.choice([0.0, 0.0, 0.5]), trace=tr, qtrace=qt)
        if calls == "-":
            continue
        cases.append("writer.calls\t%s\t%s" % (rcfg(rng), calls)); refs.append((tr, qt))
    impl, _ = ctx.correspond("calls_queries", cases, nontrivial=lambda c, i: "7b" in i.split(" ")[0])
    base = len(impl) - len(cases)
    for k, c in enumerate(cases):
        o = impl[base + k]
        if o in CRASH or " " not in o:
            _fail(ctx, "calls-crash", "well-formed call list crashed: %s" % o, [c], [o]); continue
        got = o.split(" ")[1].split(",")
        tr, qt = refs[k]
        cl = c.split("\t")[2].split(";")
        for j, g in enumerate(got):
            f = int(g.lstrip("E").split(".")[1])
            ek, au, aa = bool(f & 1), bool(f & 2), bool(f & 4)
            if (ek, au, aa) != (tr[j], qt[j][0], qt[j][1]):
                _fail(ctx, "calls-queries", "after call %d (%s) of a well-formed list expecting_key/at_unknown_start/at_array_value = %s, the document says %s"
                      % (j, cl[j][:40], (ek, au, aa), (tr[j], qt[j][0], qt[j][1])), [c], [o], str((tr[j],) + qt[j]))
                break
        else:
            ctx.count("calls_queries_ok")


# ------------------------------------------------------------------ 2. floats over the whole readable domain
def float_wide(ctx, _fail):
    rng = ctx.rng
    vals = []     # (width, bits, precision|None, in_domain)
    n = ctx.scale(1500, 12000)
    for _ in range(n):
        r = rng.random()
        if r < 0.45:
            x = rng.choice([-1, 1]) * 10 ** rng.uniform(-5, 15.95)
            if rng.random() < 0.25:
                x = float(round(x, rng.randrange(0, 8)))
            if not (1e-5 <= abs(x) < 2 ** 53):
                x = 0.75
            vals.append(("64", f64_bits(x), None, True))
        elif r < 0.7:
            x = rng.choice([-1, 1]) * 10 ** rng.uniform(-13, 15.95)
            b = f32_bits(x)
            if not (1e-13 <= abs(bits_f32(b)) < 2 ** 53):
                b = f32_bits(0.75)
            vals.append(("32", b, None, True))
        elif r < 0.9:
            # precision variants: |x| < 1e6, at most 12 places: the printed digits fit a u64 by far
            x = rng.choice([-1, 1]) * 10 ** rng.uniform(-6, 5.9)
            p = rng.randrange(0, 13)
            if rng.random() < 0.5:
                vals.append(("64", f64_bits(x), p, True))
            else:
                vals.append(("32", f32_bits(x), p, True))
        else:
            # outside what to_f64 reads back: structure only
            x = rng.choice([-1, 1]) * 10 ** rng.choice([rng.uniform(16, 300), rng.uniform(-300, -24)])
            if rng.random() < 0.5:
                vals.append(("64", f64_bits(x), None, False))
            else:
                try:
                    b = f32_bits(x)
                except OverflowError:
                    b = 0x7f7fffff
                vals.append(("32", b, None, False))
    for x in (0.0, -0.0, 1e-5, 2.0 ** 53 - 1, -(2.0 ** 53 - 1), 2.0 ** 53 - 2, 4503599627370497.5, 0.1, 1e15, 123456789012.345, 1.0 / 3, 5e-5):
        vals.append(("64", f64_bits(x), None, True))
    for x in (0.0, -0.0, 1e-13, 16777216.0, 3.4e10, 0.1, 1.0 / 3):
        vals.append(("32", f32_bits(x), None, True))
    for b in (0x7ff8000000000000, 0x7ff0000000000000, 0xfff0000000000000, 0x0000000000000001, 0x7fefffffffffffff, f64_bits(2.0 ** 53), f64_bits(1e16), f64_bits(1e-7)):
        vals.append(("64", b, None, False))
    for b in (0x7fc00000, 0x7f800000, 0xff800000, 0x00000001, 0x7f7fffff):
        vals.append(("32", b, None, False))
    for p in (0, 1, 3, 6, 12):
        for x in (1.5, 2.5, -0.04, 0.0005, 123456.789, 0.0, -0.0, 999.9999):
            vals.append(("64", f64_bits(x), p, True)); vals.append(("32", f32_bits(x), p, True))

    def hb(w, b):
        return ("%016x" if w == "64" else "%08x") % b
    dc = ["writer.fdisp\t%s\t%s" % (w, hb(w, b)) + ("" if p is None else "\t%d" % p) for (w, b, p, _) in vals]
    impl, _ = ctx.correspond("float_wide_display", dc, model=False, nontrivial=lambda c, i: len(i) > 2)
    base = len(impl) - len(dc)
    cases, meta = [], []
    for k, (w, b, p, dom) in enumerate(vals):
        o = impl[base + k]
        t = unhex(o) if o not in CRASH else b""
        x = bits_f64(b) if w == "64" else bits_f32(b)
        finite = x == x and abs(x) != float("inf")
        if (finite and not FLOAT_RE.match(t)) or (not finite and t not in (b"NaN", b"inf", b"-inf")):
            _fail(ctx, "float-display-contract", "Display of float %s:%x (precision %s) is %r" % (w, b, p, t[:60]), [dc[k]], [o], "[-]d+[.d+] | NaN | inf | -inf")
            continue
        if p is None:
            call = ("f64:%s:%s" if w == "64" else "f32:%s:%s") % (hb(w, b), hexs(t))
            if rng.random() < 0.25:
                call = "bin:" + call.upper().split(":")[0] + ":" + call.split(":", 1)[1]
        else:
            call = ("f64p:%s:%d:%s" if w == "64" else "f32p:%s:%d:%s") % (hb(w, b), p, hexs(t))
        cases.append("writer.calls\t%s\tu:6b;%s;u:6b32;b:1" % (rcfg(rng), call)); meta.append((w, b, p, dom, t, x, finite))
    ctx.correspond("float_wide", cases, nontrivial=lambda c, i: True)
    vc = ["writer.values\t" + c.split("\t", 1)[1] for c in cases]
    impl, _ = ctx.correspond("float_wide_readback", vc, model=False, nontrivial=lambda c, i: True)
    base = len(impl) - len(vc)
    for k, (w, b, p, dom, t, x, finite) in enumerate(meta):
        o = impl[base + k]
        toks = o.split(" ")
        if o in CRASH or len(toks) != 4 or not toks[1].startswith("U:") or unhex(toks[1].split(":")[1]) != t:
            _fail(ctx, "float-structure", "k=<float %s:%x> k2=yes does not parse back to four scalars with the printed text %r: %s" % (w, b, t[:40], o[:100]), [vc[k], cases[k]], [o], "U:6b U:%s U:6b32 U:796573" % hexs(t))
            continue
        ctx.count("float_structure_ok")
        if not dom:
            continue
        f64 = toks[1].split(":")[4]
        if f64 == "-":
            _fail(ctx, "float-readback-wide", "%s bits %x (precision %s) printed as %r does not read back with Scalar::to_f64" % (w, b, p, t), [vc[k]], [o]); continue
        back = int(f64, 16)
        if p is None:
            dist = abs(okey(back, 64) - okey(b, 64)) if w == "64" else abs(okey(f32_bits(bits_f64(back)), 32) - okey(b, 32))
            ctx.count("float_wide_ulp_%d" % min(dist, 3))
            if dist > 2:
                _fail(ctx, "float-2ulp-wide", "%s bits %x printed as %r reads back %d ulp away" % (w, b, t, dist), [vc[k]], [o], "<= 2 ulp")
        else:
            y = bits_f64(back)
            ulp = abs(x) * 2.0 ** (-52 if w == "64" else -23)
            err = abs(Fraction(y) - Fraction(x))
            if err > Fraction(1, 2 * 10 ** p) + 2 * Fraction(ulp) + Fraction(1, 10 ** 18):
                _fail(ctx, "float-precision", "%s bits %x with precision %d printed as %r reads back as %r: off by more than half a unit of the last place" % (w, b, p, t, y), [vc[k]], [o], "|y - x| <= 0.5e-%d" % p)
            else:
                ctx.count("float_precision_ok")


# ------------------------------------------------------------------ 3. typed values read back with the crate's own readers
def typed_readback(ctx, _fail):
    rng = ctx.rng
    cases, meta = [], []
    for _ in range(ctx.scale(1200, 8000)):
        r = rng.random()
        if r < 0.15:
            b = rng.random() < 0.5
            call = ("b:%d" if rng.random() < 0.6 else "bin:B:%d") % b
            meta.append(("bool", b"yes" if b else b"no", b))
        elif r < 0.85:
            y = rng.choice([rng.randrange(1, 3000), rng.randrange(0, 10000), 1444, 1936, 1, 9999, rng.randrange(-100, 1)])
            m = rng.randrange(1, 13)
            d = rng.randrange(1, DPM[m] + 1)
            which = rng.choice("dhu")
            h = rng.randrange(1, 25) if which == "h" else 0
            if which == "u":
                d = min(d, 30)
            if rng.random() < 0.3:
                iso = "%04d-%02d-%02d" % (y, m, d) + ("T%02d" % (h - 1) if which == "h" else "")
                call = "dateiso:%s:%d:%d:%d:%d" % (which, y, m, d, h)
                meta.append(("iso", iso.encode(), None))
            else:
                text = {"d": "%d.%d.%d" % (y, m, d), "h": "%d.%d.%d.%d" % (y, m, d, h), "u": "%d.%02d.%02d" % (y, m, d)}[which]
                call = "date:%s:%d:%d:%d:%d" % (which, y, m, d, h)
                meta.append(("date" + which, text.encode(), None))
        else:
            tid = rng.choice([0, 1, 15, 16, 255, 256, 0x2d82, 65535, rng.randrange(0, 65536)])
            call = "bin:T:%d" % tid
            meta.append(("token", b"__unknown_0x%x" % tid, None))
        ctx.count("typed_" + meta[-1][0])
        shape = rng.random()
        if shape < 0.5:
            calls = "u:6b;%s;u:6b32;u:76" % call
        elif shape < 0.75:
            calls = "u:6b;%s;u:78;%s;e;u:6b32;u:76" % (rng.choice(["as", "s"]), call)
        else:
            calls = "u:6b;%s;u:6a;op:%d;%s;e;u:6b32;u:76" % (rng.choice(["os", "s"]), rng.choice([0, 1, 2, 3, 5, 6]), call)
        cases.append("writer.calls\t%s\t%s" % (rcfg(rng), calls))
    ctx.correspond("typed", cases, nontrivial=lambda c, i: True)
    tc = ["writer.typed\t" + c.split("\t", 1)[1] for c in cases]
    impl, _ = ctx.correspond("typed_readback", tc, model=False, nontrivial=lambda c, i: True)
    base = len(impl) - len(tc)
    for k, (kind, text, b) in enumerate(meta):
        o = impl[base + k]
        toks = [t.split(":") for t in o.split(" ")] if o not in CRASH and o not in ("ERR", "-") else []
        hit = [t for t in toks if len(t) == 6 and unhex(t[1]) == text]
        if not hit:
            _fail(ctx, "typed-structure", "%s value printed as %r does not come back as one unquoted scalar: %s" % (kind, text, o[:160]), [tc[k], cases[k]], [o], "U:%s" % hexs(text)); continue
        t = hit[0]
        if kind == "bool" and t[2] != ("1" if b else "0"):
            _fail(ctx, "bool-readback", "write_bool(%s) reads back (Scalar::to_bool) as %s" % (b, t[2]), [tc[k]], [o], "1" if b else "0")
        elif kind in ("dated", "dateh", "dateu"):
            col = {"dated": 3, "dateh": 4, "dateu": 5}[kind]
            if t[col] == "-" or unhex(t[col]) != text:
                _fail(ctx, "date-readback", "write_date of %s %r parses back (%s::parse) as %r" % (kind, text, {"dated": "Date", "dateh": "DateHour", "dateu": "UniformDate"}[kind], unhex(t[col]) if t[col] != "-" else None), [tc[k]], [o], hexs(text))
            else:
                ctx.count("date_readback_ok")


# ------------------------------------------------------------------ 4. the escape scratch buffer across many calls
def quoted_history(ctx, _fail):
    rng = ctx.rng

    def payload(esc, n):
        alpha = b'ab c\xe9\\"' if esc else b"ab c\xe9{}=#"
        p = bytes(rng.choice(alpha) for _ in range(n))
        if esc and not (b"\\" in p or b'"' in p):
            p = p[:n // 2] + rng.choice([b"\\", b'"']) + p[n // 2:]
        if rng.random() < 0.2:
            p += b"\n"
        return p
    cases, meta = [], []
    for _ in range(ctx.scale(1500, 10000)):
        k = rng.randrange(3, 9)
        esc = rng.random() < 0.5
        ps = []
        for j in range(k):
            ps.append(payload(esc, rng.choice([0, 1, 2, 5, 16, 17, 40, 3, 64, 7])))
            if rng.random() < 0.7:
                esc = not esc
        calls = []
        for j, p in enumerate(ps):
            if rng.random() < 0.3:
                calls.append("q:%s" % hexs(b"K%d" % j))     # a quoted key keeps the buffer busy between values
                ps_key = True
            else:
                calls.append("u:%s" % hexs(b"k%d" % j))
            calls.append(("q:%s" if rng.random() < 0.8 else "bin:Q:%s") % hexs(p))
        cases.append("writer.calls\t%s\t%s" % (rcfg(rng), ";".join(calls))); meta.append(ps)
    ctx.correspond("quoted_history", cases, nontrivial=lambda c, i: "5c" in i)
    vc = ["writer.values\t" + c.split("\t", 1)[1] for c in cases]
    impl, _ = ctx.correspond("quoted_history_readback", vc, model=False, nontrivial=lambda c, i: "5c" in i)
    base = len(impl) - len(vc)
    for k, ps in enumerate(meta):
        o = impl[base + k]
        toks = o.split(" ") if o not in CRASH else []
        if len(toks) != 2 * len(ps):
            _fail(ctx, "quoted-history", "%d key / quoted pairs parse back to %d scalars: %s" % (len(ps), len(toks), o[:120]), [vc[k], cases[k]], [o]); continue
        for j, p in enumerate(ps):
            t = toks[2 * j + 1].split(":")
            if t[0] != "Q" or unhex(t[1]) != docgen.escape(p):
                _fail(ctx, "quoted-history", "payload %d of %d (%r) comes back as raw %r" % (j, len(ps), p[:50], unhex(t[1])[:70]), [vc[k], cases[k]], [o], hexs(docgen.escape(p)))
                break
        else:
            ctx.count("quoted_history_ok")


# ------------------------------------------------------------------ 5. arbitrary sessions
ALPHABET = ["u:61", "u:6b6579", "q:76", "q:225c0a", "op:0", "op:1", "op:2", "op:3", "op:4", "op:5", "op:6", "op:7", "h:726762", "h:68", "s", "os", "as",
            "e", "e", "e", "b:1", "b:0", "i32:-5", "u32:7", "i64:-9223372036854775808", "u64:18446744073709551615", "rgb:1:2:3", "rgb:1:2:3:4", "m", "m",
            "fmt:68c3a9", "date:d:1444:11:11:0", "date:h:1936:1:1:24", "date:u:1:2:30:0", "dateiso:d:1444:11:11:0", "dateiso:h:-5:1:1:1", "dateiso:u:9999:12:30:0",
            "f64:3ff8000000000000:312e35", "f32:3fc00000:312e35", "f64:7ff8000000000000:4e614e", "f32:ff800000:2d696e66", "f64:8000000000000000:2d30",
            "f32p:3f800000:3:312e303030", "f64p:3ff0000000000000:0:31",
            "bin:A", "bin:O", "bin:M", "bin:EQ", "bin:E", "bin:B:0", "bin:U32:7", "bin:U64:8", "bin:I64:-9", "bin:I32:-10", "bin:Q:715c", "bin:U:75",
            "bin:T:11650", "bin:RGB:9:8:7", "bin:F64:3ff8000000000000:312e35", "bin:F32:3fc00000:312e35"]
TAPE_TEXTS = [b"a=b", b"a={b=c}", b"a={1 2 3}", b"a={1 b=c}", b"[[p] x=y ]", b"c=rgb{1 2 3}", b"a<b c>=\"d e\"", b"a={}", b"a={{1}{2 3}}", b"", b"a={b={c={d=e}}} f=g",
              b"l={ x y=z { q } }", b"[[!n] k = { v } ] t=u", b"a={ [[p] v ] k=w }", b"m={ a=1 x \"y\" }"]


def expected_depth(segs, depth_of_tape=0):
    d, out = 0, []
    for s in segs:
        k, body = s.split("=", 1)
        if k == "c":
            for c in body.split(";"):
                n = c.split(":")[0]
                err = False
                if n in ("s", "os", "as") or c in ("bin:A", "bin:O"):
                    d += 1
                elif n == "e" or c == "bin:E":
                    if d == 0:
                        err = True
                    else:
                        d -= 1
                out.append(("c", err, d))
        elif k == "t":
            out.append(("t", False, d))
    return out


def illformed_sessions(ctx, _fail):
    rng = ctx.rng
    pc = ["tt.parse\t%s" % hexs(x) for x in TAPE_TEXTS]
    impl, _ = ctx.correspond("session_parse", pc, model=False, nontrivial=lambda c, i: True)
    base = len(impl) - len(pc)
    tapes = [(x, impl[base + k].split(" ", 2)[2]) for k, x in enumerate(TAPE_TEXTS) if impl[base + k].startswith("ok ")]
    if len(tapes) != len(TAPE_TEXTS):
        _fail(ctx, "docgen-parse", "a fixed well-formed text does not parse", pc, impl[base:], "ok")
    cases = []
    for _ in range(ctx.scale(6000, 50000)):
        segs = []
        for _ in range(rng.choice([1, 2, 3, 4, 6])):
            r = rng.random()
            if r < 0.55:
                segs.append("c=" + ";".join(rng.choice(ALPHABET) for _ in range(rng.choice([1, 2, 3, 5, 8]))))
            elif r < 0.9 and tapes:
                x, t = rng.choice(tapes)
                segs.append("t=%s|%s" % (hexs(x), t))
            else:
                segs.append("i=" + hexs(rng.choice([b"\n", b" ", b"}", b"#c\n", b"x=y", b""])))
        cfg = rcfg(rng) if rng.random() < 0.8 else "%d,%d,r" % (rng.choice([32, 9, 46, 0, 255]), rng.choice([0, 1, 16, 17, 255]))
        cases.append("writer.session\t%s\t%s" % (cfg, "\t".join(segs)))
    for a in ALPHABET:                       # every call right before and right after a write_tape, at depth 0 and 1
        for x, t in tapes[:4]:
            cases.append("writer.session\t32,2,r\tc=%s\tt=%s|%s\tc=%s" % (a, hexs(x), t, a))
        cases.append("writer.session\td,d,r\tc=os;%s\tt=%s|%s\tc=%s;e;e" % (a, hexs(tapes[1][0]), tapes[1][1], a))
    nt = lambda c, i: " " in i and ("7b" in i.split(" ")[0] or "E" in i)
    for prof, stream in (("release", "illformed_sessions"), ("debug", "illformed_sessions_debug")):
        cs = cases if prof == "release" else [with_profile(c, "d") for c in cases[:ctx.scale(2500, 20000)]]
        impl, _ = ctx.correspond(stream, cs, nontrivial=nt, profile=prof)
        base = len(impl) - len(cs)
        for k, c in enumerate(cs):
            o = impl[base + k]
            if o in CRASH or " " not in o:
                _fail(ctx, "session-crash", "a writer session crashed or was refused (%s, %s profile)" % (o[:40], prof), [c], [o], "error or output"); continue
            segs = c.split("\t")[2:]
            exp = expected_depth(segs)
            got = []
            for s, lg in zip(segs, o.split(" ")[1].split("/")):
                if s.startswith("c="):
                    got += [("c", g.startswith("E"), int(g.lstrip("E").split(".")[0])) for g in lg.split(",") if g != "-"]
                elif s.startswith("t="):
                    got.append(("t", lg.startswith("TE"), int(lg.lstrip("TE").split(".")[0])))
            if got != exp:
                j = next((q for q in range(min(len(got), len(exp))) if got[q] != exp[q]), min(len(got), len(exp)))
                _fail(ctx, "session-depth", "event %d of the session: (kind, error, depth()) = %s, the calls made so far say %s" % (j, got[j] if j < len(got) else None, exp[j] if j < len(exp) else None), [c], [o], str(exp[j] if j < len(exp) else None))


def run(ctx, _fail):
    calls_queries(ctx, _fail)
    float_wide(ctx, _fail)
    typed_readback(ctx, _fail)
    quoted_history(ctx, _fail)
    illformed_sessions(ctx, _fail)
