"""C10 (wave 4, a_c10): deterministic sweeps over the VALUE KINDS of the logical document, each rendered as text and as
binary and read through every public text path and every public binary path into the same runtime shape.

Every group is one logical document (props/dedoc.py dictionaries) + one target shape.  The oracle is independent of the
Coq model: dedoc.expected computes the value from the abstract document once for the text reading and once for the binary
reading; where the property promises equality (`want == "equal"`) the two expectations must coincide (key kinds-differ-*),
every text path must return the text expectation (kinds-text-*) and every binary path the binary one (kinds-bin-*).
Groups whose two readings legitimately differ (a target outside the shared subset: f64 on an F32 token, an unknown token
under the Error strategy, ...) have want == "any": they are counted (`kinds_notshared_*`) and each side is still checked
against its own expectation.

Sweeps: ints (every width boundary x every token that fits x every numeric / bool / date target), floats (eu4 F32 with 3
decimals, eu4 F64 with 5 decimals, raw F32 / F64; full and trimmed numerals; f32 and f64 targets), dates (Date and
DateHour, years -32768 / -5001 / -5000 / -1 / 0 / 1 / 32767 ..., I32 and quoted / unquoted string tokens, short and
zero-padded text), strings (both encodings, non-ASCII, quotes and backslashes, quoted / unquoted / token id, keys and
values), rgb (3 and 4 channels, channel values up to u32::MAX, several positions), containers (empty, arrays of objects,
arrays of arrays, duplicates), unknown tokens (keys and values, captured and skipped, under the three strategies) and
dynamically shaped `any` targets on string-only documents (equality only).

Paths: text slice (from_windows1252_slice / from_utf8_slice), text tape (TextDeserializer::from_*_tape), ObjectReader,
TokenReader with a buffer, from_*_reader (default buffer); binary builder tape / slice / reader and, where the default
strategy applies, BinaryFlavor::deserialize_slice / deserialize_reader."""
import copy
import random
import struct
from props import dedoc as D
from props.dedoc import hx


# ------------------------------------------------------------------------------------------ document builders
def fld(key, val, kb="U", kid=None, kq=False):
    f = {"k": key, "kq": kq, "kb": kb, "op": "=", "v": val}
    if kb == "ID":
        f["kid"] = kid
    return f


def obj(fs, ghost=(), maplike=False):
    o = {"t": "obj", "f": list(fs), "ghost": list(ghost)}
    if maplike:
        o["maplike"] = True
    return o


def arr(vs):
    return {"t": "arr", "v": list(vs)}


def vint(n, b):
    return {"t": "int", "v": n, "b": b}


def vbool(b):
    return {"t": "bool", "v": b}


def vstr(s, b="Q", q=False, idv=None):
    v = {"t": "str", "v": s, "q": q, "b": b}
    if b == "ID":
        v["id"] = idv
    return v


def vdate(y, m, d, h=0, b="I32", bq=True, q=False, pad=False):
    return {"t": "date", "y": y, "m": m, "d": d, "h": h, "b": b, "bq": bq, "q": q, "pad": pad}


def vfloat(txt, b, pay):
    return {"t": "float", "txt": txt, "b": b, "pay": pay, "n8": None, "pad": False}


def vrgb(c):
    return {"t": "rgb", "c": list(c)}


def struct_of(fields):
    """fields: [(name, mode, shape)]"""
    return ("struct", [(n, m, s, None) for (n, m, s) in fields])


NCTX = 7


def embed(k, v, sh, noarr=False):
    """the scalar / colour v with target sh at one of several positions of a document"""
    k %= NCTX
    if noarr and k == 1:
        k = 4
    one = vint(1, "I32")
    if k == 0:
        return obj([fld("x", v)]), struct_of([("x", "", sh)])
    if k == 1:
        return obj([fld("l", arr([v, copy.deepcopy(v)]))]), struct_of([("l", "", ("seq", sh))])
    if k == 2:
        return (obj([fld("o", obj([fld("a", one), fld("b", v)])), fld("z", one)]),
                struct_of([("z", "", ("u", 8)), ("o", "", struct_of([("b", "", sh)]))]))
    if k == 3:
        return obj([fld("m", obj([fld("k1", v), fld("k2", copy.deepcopy(v))], maplike=True))]), struct_of([("m", "", ("map", sh))])
    if k == 4:
        return (obj([fld("r", arr([obj([fld("a", v)]), obj([fld("a", copy.deepcopy(v)), fld("q", one)])]))]),
                struct_of([("r", "", ("seq", struct_of([("a", "", sh)])))]))
    if k == 5:
        return obj([fld("x", v)]), struct_of([("x", "", ("opt", sh)), ("zz_absent", "", ("opt", "str"))])
    return obj([fld("x", v), fld("y", one), fld("x", copy.deepcopy(v))]), struct_of([("x", "*", sh), ("y", "", ("u", 8))])


def G(tag, doc, shape, want, enc, ids=None, known=None, strat="error", hdr=False):
    ids = ids or {}
    return dict(tag=tag, doc=doc, shape=shape, want=want, enc=enc, ids=ids, known=set(ids) if known is None else known, strat=strat, hdr=hdr)


ENCS = ["w1252", "utf8"]


# ------------------------------------------------------------------------------------------ integers
def int_widths(n):
    w = []
    if -2 ** 31 <= n < 2 ** 31:
        w.append("I32")
    if 0 <= n < 2 ** 32:
        w.append("U32")
    if -2 ** 63 <= n < 2 ** 63:
        w.append("I64")
    if 0 <= n < 2 ** 64:
        w.append("U64")
    return w


INT_BOUNDS = sorted(set(
    [0, 1, -1, 7] +
    [s * (2 ** k) + e for k in (7, 8, 15, 16, 31, 32, 63) for s in (1, -1) for e in (-1, 0, 1)] +
    [2 ** 24, 2 ** 24 + 1, 2 ** 53 - 1, 2 ** 53, 2 ** 53 + 1, -(2 ** 53 - 1), -(2 ** 53), 2 ** 64 - 1, 2 ** 64 - 2,
     D.date_to_binary(1444, 11, 11), D.date_to_binary(1, 1, 1)]))
INT_BOUNDS = [n for n in INT_BOUNDS if -2 ** 63 <= n < 2 ** 64]
INT_TARGETS = [("u", 8), ("u", 16), ("u", 32), ("u", 64), ("i", 8), ("i", 16), ("i", 32), ("i", 64), "f32", "f64", "bool", "date"]


def int_groups(ctx):
    out = []
    k = 0
    for n in INT_BOUNDS:
        for w in int_widths(n):
            enc = ENCS[k % 2]
            fl = "eu4" if enc == "w1252" else "raw"
            ok = []
            for sh in INT_TARGETS:
                doc, shape = embed(0, vint(n, w), sh)
                et = D.expected(shape, doc, D.Mode("text", enc=enc))
                eb = D.expected(shape, doc, D.Mode("bin", flavor=fl))
                if n == -2 ** 63 and sh == ("i", 64):
                    # known finding text-bin-i64min: by its decimal meaning the numeral is i64::MIN on both sides (et == eb), the
                    # text deserializers refuse it
                    out.append(G("i64min", doc, shape, "finding", enc))
                    continue
                if et == eb and not et.startswith("ERR"):
                    ok.append(sh)
                    continue
                k += 1
                doc, shape = embed(k, vint(n, w), sh)
                if et == eb:
                    out.append(G("int-refused", doc, shape, "equal", enc))       # out of range / not a bool: the same refusal
                else:
                    # f32/f64 above 2^53 (text refuses the numeral, binary casts), date on a non-I32 token or on a numeral that
                    # Date::parse does not take (hour != 0, fewer than 5 characters): outside the shared subset
                    out.append(G("int-outside", doc, shape, "any", enc))
            if ok:
                k += 1
                doc = obj([fld("t%d" % i, vint(n, w)) for i in range(len(ok))])
                out.append(G("int", doc, struct_of([("t%d" % i, "", sh) for i, sh in enumerate(ok)]), "equal", enc))
                # ... and once at another position of a document
                doc, shape = embed(k, vint(n, w), ok[k % len(ok)])
                out.append(G("int", doc, shape, "equal", enc))
    return out


# ------------------------------------------------------------------------------------------ floats
def dec_text(m, k, form):
    """the integer m scaled by 10^-k as a numeral: full (k decimals) | trim (trailing zeros dropped, `.` too when nothing is left)"""
    neg = m < 0
    a = abs(m)
    ip, fp = a // 10 ** k, a % 10 ** k
    digs = ("%0" + str(k) + "d") % fp
    if form == "trim":
        digs = digs.rstrip("0")
    s = str(ip) + ("." + digs if digs else "")
    return ("-" if neg else "") + s


def float_values(rng):
    """(value dict, exactness class)"""
    vals = []
    k32 = [0, 1, -1, 5, 125, 999, 1000, 1001, -1500, 123456, -987654, 16777215, 16777216, 16777217, 33554433, 2 ** 31 - 1, -2 ** 31, 2147483520] + \
          [rng.randrange(-2 ** 24, 2 ** 24) for _ in range(10)] + [rng.randrange(-2 ** 31, 2 ** 31) for _ in range(4)]
    for n in k32:
        for form in ("full", "trim"):
            txt = dec_text(n, 3, form)
            if n < 0 and txt.lstrip("-0.") == "":
                continue
            pay = {"eu4": struct.pack("<i", n), "raw": struct.pack("<f", D.text_f64(txt))}
            vals.append((vfloat(txt, "F32", pay), "f32-small" if abs(n) < 2 ** 24 else "f32-big"))
    n64 = [0, 1, -1, 3, 16384, 32768, -32768, 49152, 1234567, -98765, 2 ** 40 + 1, -(2 ** 45) - 12345, 2 ** 49 + 7] + \
          [rng.randrange(-2 ** 30, 2 ** 30) for _ in range(10)] + [rng.randrange(-2 ** 49, 2 ** 49) for _ in range(4)]
    for n in n64:
        m = int(D.round_half_away(float(n) / 32768.0 * 100000.0))
        if abs(m) >= 2 ** 53:
            continue
        for form in ("full", "trim"):
            txt = dec_text(m, 5, form)
            pay = {"eu4": struct.pack("<q", n), "raw": struct.pack("<d", D.text_f64(txt))}
            vals.append((vfloat(txt, "F64", pay), "f64"))
    return vals


def float_groups(ctx, rng):
    out = []
    k = 0
    for (v, cls) in float_values(rng):
        for enc in ENCS:
            fl = "eu4" if enc == "w1252" else "raw"
            for sh in ("f32", "f64"):
                k += 1
                # promised equal: an F64 token into either float type; an F32 token into f32 (eu4: below 2^24 thousandths, where
                # i32 -> f32 is exact).  Not promised: f64 on an F32 token (the f32 is widened), eu4 F32 at or above 2^24
                if v["b"] == "F64":
                    want = "equal"
                elif sh == "f32" and (fl == "raw" or cls == "f32-small"):
                    want = "equal"
                else:
                    want = "any"
                doc, shape = embed(k, v, sh)
                out.append(G("float-%s-%s-%s" % (v["b"].lower(), fl, sh), doc, shape, want, enc))
    return out


# ------------------------------------------------------------------------------------------ dates
YEARS_IN = [-5000, -4999, -100, -1, 0, 1, 9, 10, 999, 1000, 1444, 9999, 10000, 32766, 32767]
YEARS_OUT = [-32768, -5001]
MDS = [(1, 1), (1, 31), (2, 28), (3, 1), (11, 11), (12, 31)]
HOURS = [1, 2, 9, 10, 23, 24]


def date_groups(ctx):
    out = []
    k = 0
    forms = [("I32", True), ("Q", True), ("Q", False)]          # I32 | quoted string token | unquoted string token
    for y in YEARS_IN + YEARS_OUT:
        for (m, d) in MDS:
            k += 1
            b, bq = forms[k % 3]
            pad = (k // 3) % 2 == 1
            q = k % 5 == 0
            enc = ENCS[k % 2]
            inside = y >= -5000 or b != "I32"
            h = HOURS[k % len(HOURS)]
            dv = vdate(y, m, d, 0, b, bq, q, pad)
            hv = vdate(y, m, d, h, b, bq, q, pad)
            # a Date and a DateHour side by side, each into its own type
            doc = obj([fld("d", dv), fld("h", hv)])
            out.append(G("date" if inside else "date-below-5000", doc, struct_of([("d", "", "date"), ("h", "", "dh")]), "equal" if inside else "any", enc))
            # every binary form (I32, quoted, unquoted string token) of the same Date / DateHour, each at some position
            for fi, (b2, bq2) in enumerate(forms):
                inside2 = y >= -5000 or b2 != "I32"
                doc, shape = embed(k + fi, vdate(y, m, d, 0, b2, bq2, q, (pad + fi) % 2 == 1), "date")
                out.append(G("date" if inside2 else "date-below-5000", doc, shape, "equal" if inside2 else "any", enc))
                doc, shape = embed(k + fi + 3, vdate(y, m, d, h, b2, bq2, q, (pad + fi) % 2 == 0), "dh")
                out.append(G("datehour" if inside2 else "date-below-5000", doc, shape, "equal" if inside2 else "any", enc))
            if (m, d) in ((1, 1), (12, 31)):
                # first and last instant of the year: hours 1 and 24 as I32
                for hh in (1, 24):
                    doc, shape = embed(k + hh, vdate(y, m, d, hh, "I32", True, False, False), "dh")
                    out.append(G("datehour" if y >= -5000 else "date-below-5000", doc, shape, "equal" if y >= -5000 else "any", enc))
            if (m, d) == (11, 11):
                # the wrong date type for the value: a DateHour into Date (text refuses the hour, binary I32 drops it), a Date into
                # DateHour (text refuses, binary I32 reads hour 1): outside the shared subset, counted
                doc = obj([fld("d", hv)])
                out.append(G("date-wrong-type", doc, struct_of([("d", "", "date")]), "any", enc))
                doc = obj([fld("h", dv)])
                out.append(G("date-wrong-type", doc, struct_of([("h", "", "dh")]), "any", enc))
    return out


# ------------------------------------------------------------------------------------------ strings
STRINGS = ["a", "abc_def", "", "x y", "é", "ñandú", "€uro™", "naïve café š", 'quo"te', '"', '""x""', "back\\slash", "tail\\",
           "\\\\", 'mix\\"ed', "a=b", "{x}", "#nocomment", " lead", "tab\there", "line\nbreak", "yes", "123", "-5", "1.500", "1444.11.11", "rgb",
           "z" * 300, "ü" * 120, "semi;colon", "q?", "bang!", "at@[x]"]


def string_groups(ctx):
    out = []
    k = 0
    nid = 0x0500
    for s in STRINGS:
        identish = s != "" and all(c in D.IDCH or c in D.HIGH_UNQ for c in s) and not s[0].isdigit()
        bforms = ["Q", "U"] + (["ID"] if "\\" not in s else [])
        for b in bforms:
            for enc in ENCS:
                k += 1
                ids = {}
                idv = None
                if b == "ID":
                    nid += 1
                    idv = nid
                    ids[s] = idv
                v = vstr(s, b, q=(k % 3 == 0), idv=idv)
                doc, shape = embed(k, v, "str")
                out.append(G("string", doc, shape, "equal", enc, ids=ids, strat=["error", "stringify", "ignore"][k % 3]))
                if s and "\\" not in s and k % 2 == 0:
                    doc, shape = embed(k + 1, v, ("enum", [s, "other"]))
                    out.append(G("string-enum", doc, shape, "equal", enc, ids=ids))
        # as a KEY (map key and struct field name): quoted / unquoted / token id in binary; quoted in text unless identifier-like
        if s and "\\" not in s and '"' not in s and len(s) < 100:
            for kb in ("Q", "U", "ID"):
                for enc in ENCS:
                    k += 1
                    ids = {}
                    kid = None
                    if kb == "ID":
                        nid += 1
                        kid = nid
                        ids[s] = kid
                    f = fld(s, vint(k % 200, "I32"), kb=kb, kid=kid, kq=(not identish) or k % 4 == 0)
                    doc = obj([fld("m", obj([f, fld("other", vint(3, "U32"))], maplike=True)), fld("w", vint(1, "I32"))])
                    out.append(G("string-key", doc, struct_of([("m", "", ("map", ("u", 8)))]), "equal", enc, ids=ids))
                    doc = obj([copy.deepcopy(f), fld("w", vint(1, "I32"))])
                    out.append(G("string-key", doc, struct_of([("w", "", ("u", 8)), (s, "", ("u", 8))]), "equal", enc, ids=ids))
    return out


# ------------------------------------------------------------------------------------------ colours
def rgb_groups(ctx):
    out = []
    k = 0
    chans = [[1, 2, 3], [110, 27, 255, 0], [0, 0, 0], [255, 255, 255, 255], [256, 1, 1], [1, 65535, 65536], [2 ** 32 - 1, 0, 7, 2 ** 32 - 1],
             [70000, 2, 3, 4], [0, 300, 0]]
    for c in chans:
        for w in (8, 16, 32, 64):
            for tupk in (False, True):
                k += 1
                enc = ENCS[k % 2]
                inner = ("tup", [("u", w)] * len(c)) if tupk else ("seq", ("u", w))
                doc, shape = embed(k, vrgb(c), ("tup", ["str", inner]), noarr=True)
                out.append(G("rgb%d" % len(c), doc, shape, "equal", enc, hdr=True))
    # a colour that the target skips (unknown field / ignored): every path, the stream reader included
    for c in ([1, 2, 3], [4, 5, 6, 7]):
        for enc in ENCS:
            doc = obj([fld("a", vint(1, "I32")), fld("color", vrgb(c)), fld("b", vstr("s", "U"))])
            out.append(G("rgb-skipped", doc, struct_of([("a", "", ("u", 8)), ("b", "", "str")]), "equal", enc))
            out.append(G("rgb-skipped", doc, struct_of([("a", "", ("u", 8)), ("color", "", "ign"), ("b", "", "str")]), "equal", enc))
    return out


# ------------------------------------------------------------------------------------------ containers
def container_groups(ctx):
    out = []
    i1 = lambda n: vint(n, "I32")
    u8 = ("u", 8)
    docs = [
        (obj([fld("x", arr([]))]), [struct_of([("x", "", ("seq", u8))]), struct_of([("x", "", ("map", "str"))]),
                                     struct_of([("x", "", struct_of([("a", "", ("opt", u8))]))]), struct_of([("x", "", ("opt", ("seq", "str")))])]),
        (obj([fld("x", arr([])), fld("y", i1(2)), fld("x", arr([i1(1)]))]), [struct_of([("x", "*", ("seq", u8)), ("y", "", u8)]), struct_of([("x", "!", ("seq", u8))])]),
        (obj([fld("r", arr([obj([fld("a", i1(1))]), arr([]), obj([fld("a", i1(2)), fld("b", arr([]))])]))]),
         [struct_of([("r", "", ("seq", struct_of([("a", "", u8), ("b", "", ("opt", ("seq", u8)))])))])]),
        (obj([fld("g", arr([arr([i1(1), i1(2)]), arr([]), arr([i1(3)])]))]), [struct_of([("g", "", ("seq", ("seq", u8)))])]),
        (obj([fld("g", arr([arr([arr([i1(1)]), arr([i1(2), i1(3)])]), arr([arr([i1(4)])])]))]), [struct_of([("g", "", ("seq", ("seq", ("seq", u8))))])]),
        (obj([fld("o", obj([fld("p", obj([fld("q", obj([fld("r", vstr("deep", "U"))]))]))]))]),
         [struct_of([("o", "", struct_of([("p", "", struct_of([("q", "", struct_of([("r", "", "str")]))]))]))]), struct_of([("o", "", ("map", ("map", ("map", "str"))))])]),
        (obj([fld("a", i1(1)), fld("a", i1(2)), fld("a", i1(3))]), [struct_of([("a", "*", u8)]), struct_of([("a", "!", u8)]), struct_of([("a", "", u8)])]),
        (obj([fld("t", arr([i1(1), vstr("two", "Q"), vbool(True)]))]), [struct_of([("t", "", ("tup", [u8, "str", "bool"]))])]),
        (obj([fld("a", i1(1)), fld("b", obj([fld("c", i1(2))], ghost=[1]))], ghost=[1, 2]), [struct_of([("a", "", u8), ("b", "", struct_of([("c", "", u8)]))])]),
        (obj([fld("b", vbool(True)), fld("c", vbool(False)), fld("l", arr([vbool(True), vbool(False)]))]),
         [struct_of([("b", "", "bool"), ("c", "", "bool"), ("l", "", ("seq", "bool"))]), struct_of([("b", "", ("opt", "bool")), ("zz", "", ("opt", "bool"))])]),
        (obj([]), [struct_of([("a", "", ("opt", u8))]), ("map", "str"), struct_of([("a", "", u8)])]),
    ]
    for (doc, shapes) in docs:
        for shape in shapes:
            for enc in ENCS:
                out.append(G("container", doc, shape, "equal", enc))
    return out


# ------------------------------------------------------------------------------------------ unknown tokens
def unknown_groups(ctx):
    """a token id the resolver does not know, at a key or a value, in a field the target captures or skips, under each
    FailedResolveStrategy.  The text rendering spells the name out.  Where the binary reading can see the name only through
    the resolver (a captured field / value) the two readings differ by design (want any); where the target never looks at
    it (a skipped field under Stringify / Ignore, a skipped VALUE under every strategy) they must agree."""
    out = []
    u8 = ("u", 8)
    ids = {"known": 0x1001, "mystery": 0x2345, "val": 0x2346}
    known = {"known"}
    for strat in ("error", "stringify", "ignore"):
        for enc in ENCS:
            base = [fld("a", vint(1, "I32")), fld("known", vint(2, "I32"), kb="ID", kid=0x1001)]
            # unknown KEY of a field the struct does not have
            doc = obj(base + [fld("mystery", vint(9, "I32"), kb="ID", kid=0x2345), fld("b", vint(3, "I32"))])
            out.append(G("unk-key-skipped", doc, struct_of([("a", "", u8), ("known", "", u8), ("b", "", u8)]), "any" if strat == "error" else "equal", enc, ids, known, strat))
            # unknown KEY of a field the struct wants
            out.append(G("unk-key-wanted", doc, struct_of([("a", "", u8), ("mystery", "", ("opt", u8))]), "any", enc, ids, known, strat))
            # unknown token as the VALUE of a field the struct does not have
            doc = obj(base + [fld("zz", vstr("val", "ID", idv=0x2346)), fld("b", vint(3, "I32"))])
            out.append(G("unk-value-skipped", doc, struct_of([("a", "", u8), ("b", "", u8)]), "equal", enc, ids, known, strat))
            out.append(G("unk-value-ignored", doc, struct_of([("a", "", u8), ("zz", "", "ign"), ("b", "", u8)]), "equal", enc, ids, known, strat))
            # ... of a field the struct captures as a string
            out.append(G("unk-value-wanted", doc, struct_of([("a", "", u8), ("zz", "", "str")]), "any", enc, ids, known, strat))
            # unknown key in front of a container that is skipped as a whole
            doc = obj(base + [fld("mystery", obj([fld("c", vint(1, "I32")), fld("d", arr([vstr("val", "ID", idv=0x2346)]))]), kb="ID", kid=0x2345), fld("b", vint(3, "I32"))])
            out.append(G("unk-key-container", doc, struct_of([("a", "", u8), ("b", "", u8)]), "any" if strat == "error" else "equal", enc, ids, known, strat))
            # map target: every key is handed out
            doc = obj([fld("m", obj([fld("known", vint(1, "I32"), kb="ID", kid=0x1001), fld("mystery", vint(2, "I32"), kb="ID", kid=0x2345)], maplike=True))])
            out.append(G("unk-key-map", doc, struct_of([("m", "", ("map", u8))]), "any", enc, ids, known, strat))
    return out


# ------------------------------------------------------------------------------------------ `any` targets on strings
def stringify_doc(rng, v):
    """every scalar / colour leaf becomes a string (the one kind text and binary both hand to a dynamically typed target as a string)"""
    t = v["t"]
    if t == "obj":
        for f in v["f"]:
            f["v"] = stringify_doc(rng, f["v"])
        v["ghost"] = []
        return v
    if t == "arr":
        v["v"] = [stringify_doc(rng, e) for e in v["v"]]
        while v["v"] and ((v["v"][0]["t"] == "obj" and not v["v"][0]["f"]) or (v["v"][0]["t"] == "arr" and not v["v"][0]["v"])):
            v["v"].pop(0)
        return v
    if t == "str" and v["b"] != "ID":
        return v
    s, q = D.gen_str(rng, allow_escape=False)
    return vstr(s, rng.choice(["Q", "U"]), q=q)


def any_expected(v, M, top=False):
    """the value a dynamically typed target sees (string-only documents): objects are maps in document order (duplicates
    kept), arrays are sequences, the empty `{ }` is an empty sequence"""
    t = v["t"]
    if t == "str":
        return D.show_str(v["v"].replace("\\", ""))
    if t == "arr" or (t == "obj" and not v["f"] and not top):
        return "(seq%s)" % "".join(" " + any_expected(e, M) for e in v.get("v", []))
    out = []
    for f in v["f"]:
        key = f["k"] if (M.kind == "text" or f["kb"] != "ID") else D.resolve_id(f["k"], f["kid"], M)
        out.append("(%s %s)" % (D.show_str(key), any_expected(f["v"], M)))
    return "(amap%s)" % "".join(" " + x for x in out)


def any_groups(ctx, rng, n):
    out = []
    for i in range(n):
        doc = D.gen_doc(rng, ops=False, i64=False, allow_escape=False)
        ids = doc["ids"]
        doc = stringify_doc(rng, doc)
        if not doc["f"]:
            continue
        enc = ENCS[i % 2]
        # the root is a map of dynamically typed values / a struct with dynamically typed fields
        if i % 2 == 0:
            shape = ("map", "any")
            exp = None
        else:
            keys = []
            for f in doc["f"]:
                if f["k"] not in keys:
                    keys.append(f["k"])
            shape = struct_of([(kname, "!", "any") for kname in keys])
            exp = None
        nested_obj = any(x["t"] == "obj" and x["f"] for f in doc["f"] for x in D.walk(f["v"]))
        g = G("any-object" if nested_obj else "any", doc, shape, "equal", enc, ids=ids, strat=["error", "stringify", "ignore"][i % 3])
        g["any"] = True
        # the text STREAM deserializer cannot look ahead: its deserialize_any hands every `{` out as a sequence (keys, operators
        # and values as elements).  The property's text entry point is the slice / tape deserializer; the reader paths are left out here
        g["hdr"] = True
        out.append(g)
    return out


def any_root_expected(g, M):
    doc, shape = g["doc"], g["shape"]
    if shape[0] == "map":
        return "(map%s)" % "".join(" (%s %s)" % (hx(f["k"]), any_expected(f["v"], M)) for f in doc["f"])
    last = {}
    for f in doc["f"]:
        last[f["k"]] = any_expected(f["v"], M)
    return "(struct%s)" % "".join(" (%s %s)" % (hx(n), last[n]) for (n, _m, _s, _t) in shape[1])


# ------------------------------------------------------------------------------------------ runner
def run(ctx):
    rng = random.Random(ctx.seed * 7919 + 10)
    groups = []
    groups += int_groups(ctx)
    groups += float_groups(ctx, rng)
    groups += date_groups(ctx)
    groups += string_groups(ctx)
    groups += rgb_groups(ctx)
    groups += container_groups(ctx)
    groups += unknown_groups(ctx)
    groups += any_groups(ctx, rng, ctx.scale(150, 1500))
    cases, _ = run_groups(ctx, groups, rng, "kinds")
    # the same cases against the extracted Coq walks (text: TextDeTape / TextDeStream over the implementation's tape / tokens;
    # binary: BinDeTape / BinDeOndemand / BinDeReader from the bytes), so that the models the C10 theorems are about are tied
    # to the implementation on these value kinds too (DateHour, 3 / 5 decimal floats, year boundaries, `any` on containers)
    from props import C02
    nt = lambda c, i: i.startswith("(")
    tsel = [c for c in cases if c.startswith("de.text\t") and c.split("\t")[1] in ("slice", "tape", "mslice", "etape") or c.startswith("de.text\treader:")]
    C02.walk_model(ctx, tsel, stream="kinds_walk_text")
    bsel = [c for c in cases if c.startswith("de.bin\t") and not c.split("\t")[1].startswith("f")]
    ctx.correspond("kinds_walk_bin", ["de.model.bin" + c[len("de.bin"):] for c in bsel], nontrivial=nt)


def run_groups(ctx, groups, rng, stream):
    nt = lambda c, i: i.startswith("(")
    cases, meta = [], []
    styles = ["compact", "spaced", "lines", "wild"]
    for gi, g in enumerate(groups):
        doc, sh, enc = g["doc"], g["shape"], g["enc"]
        fl = "eu4" if enc == "w1252" else "raw"
        Mt = D.Mode("text", enc=enc)
        Mb = D.Mode("bin", flavor=fl, strategy=g["strat"], known=g["known"], ids=g["ids"])
        # [s_c10] wave 6 (props/C10_sizes.py): a group may bring its renderings, its expectations (by construction), its
        # shape string, its resolver and its path lists itself (long / deep inputs that the recursive dedoc functions and the
        # default buffers do not fit); want == "text": a text-only group (a size the binary format cannot express)
        if "et" in g:
            et, eb = g["et"], g["eb"]
        elif g.get("any"):
            et, eb = any_root_expected(g, Mt), any_root_expected(g, Mb)
        else:
            et, eb = D.expected(sh, doc, Mt), D.expected(sh, doc, Mb)
        txt = g["txt"] if "txt" in g else D.render_text(doc, rng, enc, style=g.get("style") or styles[gi % 4])
        b = g["bin"] if "bin" in g else (b"" if g["want"] == "text" else D.render_bin(doc, fl))
        res = g["res"] if "res" in g else D.resolver_spec(g["ids"], g["known"], "map")
        shs = g["shs"] if "shs" in g else D.shape_str(sh)
        mtb = g["mtb"] if "mtb" in g else max(32, D.max_token_len(doc, enc) + 4)
        tp = ["slice", "tape"]
        if not g["hdr"]:
            tp.append("reader:%d:%s" % ([mtb, 64 + mtb, 32768][gi % 3], ["-", "1*", "7,3*"][gi % 3]))
        # the remaining public text entry points in rotation
        extra = ["objreader", "freader:-", "freader:5,1*", "mslice", "etape"][gi % 5]
        if not (g["hdr"] and extra.startswith("freader")):
            tp.append(extra)
        bp = ["tape", "slice", "reader:%d:%s" % ([mtb + 8, 200 + mtb, 32768][gi % 3], ["-", "1*", "5,3*"][gi % 3])]
        if g["strat"] == "ignore" or g["known"] >= set(g["ids"]):
            bp.append(["fslice", "freader:-", "freader:3,1*"][gi % 3])       # BinaryFlavor::deserialize_* (default strategy = Ignore)
        # the deserializer-returning builder methods called directly (harness paths added in wave 4)
        bp.append(["btape", "bslice", "breader:%d:2,9*" % (mtb + 64)][gi % 3])
        if "tp" in g:          # [s_c10]
            tp = list(g["tp"])
        if "bp" in g:
            bp = list(g["bp"])
        if g["want"] == "text":
            bp = []
        g0 = len(cases)
        for p in tp:
            cases.append("\t".join(["de.text", p, enc, shs, hx(txt)]))
        for p in bp:
            cases.append("\t".join(["de.bin", p, g["strat"], res, fl, shs, hx(b)]))
        meta.append((g0, len(tp), len(bp), et, eb))
        g["_ncases"] = len(tp) + len(bp)          # [s_c10]
        ctx.count("kinds_" + g["tag"])
    impl, _ = ctx.correspond(stream, cases, nontrivial=nt, model=False)
    base = len(impl) - len(cases)
    for g, (g0, nt_, nb_, et, eb) in zip(groups, meta):
        tag = g["tag"]
        touts = impl[base + g0: base + g0 + nt_]
        bouts = impl[base + g0 + nt_: base + g0 + nt_ + nb_]
        gc = cases[g0: g0 + nt_ + nb_]
        go = touts + bouts
        if g["want"] == "finding":
            if touts[0] != bouts[0]:
                ctx.fail("text-bin-i64min", "x=%d: text gives %s, binary (I64 token) gives %s" % (-2 ** 63, touts[0][:80], bouts[0][:80]), gc, go, "equal values")
            continue
        if g["want"] == "text":          # [s_c10] text-only group: every text path returns the value the document says
            bad_t = next((i for i, o in enumerate(touts) if o != et), None)
            if bad_t is not None:
                ctx.fail("kinds-text-" + tag, "text path %s gives %s, the logical document says %s" % (gc[bad_t].split("\t")[1], touts[bad_t][:160], et[:160]),
                         [gc[bad_t]], [touts[bad_t]], et[:400])
            continue
        bnames = [c.split("\t")[1] for c in gc[nt_:]]
        if tag == "any-object" and et == eb and all(o == et for o in touts) and \
                all((o == eb) if "tape" in p else (o == "ERR:syntax") for p, o in zip(bnames, bouts)):
            # finding any-object-ondemand: deserialize_any of the on-demand and the stream binary deserializers hands every `{` to
            # visit_seq (no look-ahead for `=`), the sequence then meets the `=` of the first field
            ctx.fail("any-object-ondemand", "a dynamically typed target on a nested object: text %s = binary tape, binary %s gives %s" % (
                et[:100], gc[nt_ + 1].split("\t")[1], bouts[1]), [gc[0], gc[nt_], gc[nt_ + 1]], [go[0], go[nt_], go[nt_ + 1]], et)
            continue
        if g.get("finding") and et == eb and all(o == et for o in touts) and any("tape" in p for p in bnames) and \
                all((o == g["finding"][1]) if "tape" in p else (o == eb) for p, o in zip(bnames, bouts)):
            # [s_c10] a recorded finding whose signature is: the text paths and the binary lexer paths give the value, the
            # binary TAPE path gives the stated refusal (known_findings.json); any other outcome goes through the comparison below
            j = next(i for i, p in enumerate(bnames) if "tape" in p)
            ctx.fail(g["finding"][0], "text %s = binary %s, binary %s gives %s" % (et[:100], next(p for p in bnames if "tape" not in p), bnames[j], bouts[j]),
                     [gc[0], gc[nt_ + j], gc[nt_ + 1 if j != 1 else nt_]], [go[0], go[nt_ + j], go[nt_ + 1 if j != 1 else nt_]], et)
            continue
        bad_t = next((i for i, o in enumerate(touts) if o != et), None)
        bad_b = next((i for i, o in enumerate(bouts) if o != eb), None)
        if et != eb:
            ctx.count("kinds_notshared_" + tag)
        if g["want"] == "equal" and (et != eb or any(o != go[0] for o in go)):
            j = next((i for i, o in enumerate(go) if o != go[0]), nt_)
            ctx.fail("kinds-differ-" + tag, "text (%s) gives %s, binary (%s) gives %s; the logical document says %s / %s" % (
                gc[0].split("\t")[1], go[0][:160], gc[j].split("\t")[1], go[j][:160], et[:120], eb[:120]), [gc[0], gc[j]], [go[0], go[j]], et)
        elif bad_t is not None:
            ctx.fail("kinds-text-" + tag, "text path %s gives %s, the logical document says %s" % (gc[bad_t].split("\t")[1], touts[bad_t][:160], et[:160]),
                     [gc[bad_t]], [touts[bad_t]], et)
        elif bad_b is not None:
            ctx.fail("kinds-bin-" + tag, "binary path %s gives %s, the logical document says %s" % (gc[nt_ + bad_b].split("\t")[1], bouts[bad_b][:160], eb[:160]),
                     [gc[nt_ + bad_b]], [bouts[bad_b]], eb)
    return cases, impl[base:]
