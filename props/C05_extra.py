"""Entry points of the other families for C05 (binary lexer/reader/tape, encodings, f64, deserializers
with dynamically shaped targets, writer round trip, known stack-depth finding)."""
from vlib import hexs, unhex
import struct

CRASH = ("PANIC", "ABORT", "HANG")


def bin_inputs(rng, n_rand, docs):
    out = []
    ids = [1, 3, 4, 0x0c, 0x0d, 0x0e, 0x0f, 0x14, 0x17, 0x167, 0x243, 0x29c, 0x317, 0x2d84, 0xb]
    for _ in range(n_rand):
        r = rng.random()
        if r < 0.4:
            out.append(bytes(rng.randrange(256) for _ in range(rng.randrange(0, 40))))
        else:
            b = bytearray()
            for _ in range(rng.randrange(0, 12)):
                b += struct.pack("<H", rng.choice(ids))
                if rng.random() < 0.5:
                    b += bytes(rng.randrange(256) for _ in range(rng.choice([0, 1, 2, 4, 8])))
                if rng.random() < 0.1:
                    b += struct.pack("<H", rng.choice([0, 1, 5, 0xffff, 0x8000])) + b"ab"
            out.append(bytes(b))
    # containers with every payload kind, truncated at every length (a cut inside the last bytes of a payload)
    body = (struct.pack("<H", 3) + struct.pack("<HB", 0x0e, 1) + struct.pack("<Hi", 0x0c, 7) + struct.pack("<HI", 0x14, 9) +
            struct.pack("<Hq", 0x317, -2) + struct.pack("<HQ", 0x29c, 5) + struct.pack("<Hf", 0x0d, 1.5) + struct.pack("<Hd", 0x167, 2.5) +
            struct.pack("<HH", 0x0f, 3) + b"abc" + struct.pack("<H", 4))
    for k in range(len(body) + 1):
        out.append(struct.pack("<HH", 0x2d84, 1) + body[:k])
    # adversarial: huge length prefixes, deep nesting, lone ids
    out += [struct.pack("<HH", 0x0f, 0xffff), struct.pack("<HH", 0x17, 0xffff) + b"x" * 10, struct.pack("<H", 3) * 400, struct.pack("<H", 4) * 400,
            (struct.pack("<H", 0x2d84) + struct.pack("<H", 1) + struct.pack("<H", 3)) * 200, struct.pack("<H", 0x243) + struct.pack("<H", 3) * 3,
            struct.pack("<H", 0x243), struct.pack("<H", 0x317) + b"\x00" * 7, b"\x0c", b"\x0c\x00\x01"]
    return out + docs


def run_extra(ctx):
    rng = ctx.rng
    from props import textdoc as td, textgen as tg
    # ---- binary byte strings through lexer, reader, tape and the three deserializers with an `any` target
    bins = bin_inputs(rng, ctx.scale(600, 8000), [])
    cases = []
    for d in bins:
        h = hexs(d)
        cases.append("bl.lex\t%s" % h)
        cases.append("bl.rslice\t%s" % h)
        cases.append("bl.stream\t%s\t%d\t%s" % (h, rng.choice([1, 2, 5, 8, 16, 64, len(d) + 1]), rng.choice(["-", ",".join(["1"] * min(len(d), 300)) or "-", "3,1,7,2"])))
        cases.append("bt.all\t%s" % h)
        # reader operations incl. skip_container on whatever follows, small buffers (a payload may straddle the window)
        cases.append("bl.rops\t%s\t%d\t%s\t%s" % (h, rng.choice([3, 4, 5, 6, 8, 9, 16]), rng.choice(["-", "1,1,1,1,1,1,1,1,1,1,1,1", "2,3,1,4"]),
                                                  ",".join(rng.choice(["n", "n", "k", "n"]) for _ in range(rng.randrange(1, 7)))))
        for path in ("tape", "slice", "reader:%d:-" % rng.choice([8, 64])):
            cases.append("\t".join(["de.bin", path, rng.choice(["error", "stringify", "ignore"]), "map:", rng.choice(["eu4", "raw"]), rng.choice(["any", "ign", "map(any)", "seq(any)"]), h]))
    # ---- text byte strings through the decoders, f64 and the text deserializers with an `any` target
    texts = []
    for _ in range(ctx.scale(300, 4000)):
        texts.append(tg.gen_soup(rng, maxlen=rng.choice([6, 20])))
        doc = td.gen_doc(rng, depth=rng.choice([1, 2, 3]))
        d = td.render(doc, rng, rng.choice(td.STYLES))
        texts.append(d)
        b = bytearray(d)
        if b:
            b[rng.randrange(len(b))] = rng.choice(b'{}"\\#=[]@\x00\xff')
        texts.append(bytes(b))
    for d in texts:
        h = hexs(d)
        cases += ["enc.utf8\t%s" % h, "enc.w1252\t%s" % h, "f64.parse\t%s" % h]
        for path in ("slice", "tape", "reader:%d:-" % rng.choice([16, 64, 4096])):
            cases.append("\t".join(["de.text", path, rng.choice(["w1252", "utf8"]), rng.choice(["any", "ign", "map(any)", "seq(any)"]), h]))
        cases.append("writer.rt\t32,1,r\t%s" % h)
    ctx.count("binary_inputs", len(bins)); ctx.count("text_inputs_extra", len(texts))
    from props import C05_inv      # a_c05 (wave 4): per-case watchdog wrapper, see props/C05_inv.py
    cases = [C05_inv.w(c) for c in cases]
    for prof in ("release", "debug"):
        r = C05_inv.guarded(ctx, "entry_points_extra_" + prof, cases, prof, nontrivial=lambda c, i: not i.startswith("ERR") and i != "NOKIND", model=False)
        if r is None:       # a_c05: hang storm seen by the pilot, failures already recorded
            continue
        impl = r[0]
        base = len(impl) - len(cases)
        for k, c in enumerate(cases):
            o = impl[base + k]
            if o in CRASH or "RUNAWAY" in o:
                ctx.fail("crash-" + C05_inv.inner_kind(c), "%s build: %s on %s" % (prof, o, c[:200].replace("\t", " ")), [c], [o], "a value or an error")
            if o == "NOKIND":
                ctx.count("nokind_" + C05_inv.inner_kind(c))
    # ---- tape capacity sweep: the binary tape parser writes through raw pointers after `reserve`; whether a write is in
    #      bounds depends on tape length vs. capacity (max(len/5, 10), doubling), so every structural event (array turning
    #      mixed at `=`, ghost clusters, primitive-array fast path, container open/close, top-level pairs) is placed at
    #      every token count 0..90 for element kinds of several byte widths.  Debug builds turn an out-of-capacity
    #      set_len / write into an abort, release builds corrupt the heap (abort or disagreement in C03/C06).
    from props import C03 as B
    cc = []
    for e in ("id", "i32", "quoted", "u64", "bool"):
        for n in range(0, ctx.scale(90, 260)):
            body = (e,) * n
            for kinds in (("id", "equal", "open") + body + ("id", "equal", e, "close"),
                          ("id", "equal", "open", "open", "close") + body + ("id", "equal", e, "close"),
                          ("id", "equal", "open") + body + ("close",),
                          ("id", "equal", "open") + ("id", "equal", e) * n + ("close",),
                          ("id", "equal", "open") * (n % 40) + body[: n // 3] + ("close",) * (n % 40),
                          ("id", "equal", e) * n,
                          ("id", "equal", "open") + ("open", "close") * (n % 30) + ("id", "equal", e, "close") + ("id", "equal", e) * (n // 30)):
                cc.append("bt.all\t" + hexs(B.enc_seq(kinds)))
    for _ in range(ctx.scale(1500, 20000)):
        cc.append("bt.all\t" + hexs(B.enc_seq(B.random_tokens(rng, rng.choice([9, 14, 25, 40, 60, 90])))))
    for _ in range(ctx.scale(300, 4000)):
        cc.append("bt.all\t" + hexs(B.gen_doc(rng)[0]))
    ctx.count("tape_capacity_cases", len(cc))
    cc = [C05_inv.w(c) for c in cc]
    for prof in ("release", "debug"):
        impl, _ = ctx.correspond("tape_capacity_" + prof, cc, nontrivial=lambda c, i: "OK" in i, profile=prof, model=False)
        base = len(impl) - len(cc)
        for k, c in enumerate(cc):
            o = impl[base + k]
            if o in CRASH or "RUNAWAY" in o:
                ctx.fail("crash-bt.capacity", "%s build: %s on %s" % (prof, o, c[:200].replace("\t", " ")), [c], [o], "a value or an error")
    # >>> w_btcap (wave 5): the capacity MODEL (coq/theories/BinTapeCap.v, theorems Props/C05_tapecap.v) against the code:
    #     both parsers on a fresh token vector of a chosen capacity c0 (hook tape_with_capacity), output = the tape AND the
    #     capacity of the vector afterwards (hook tape_capacity); the model runs the operation lists the translator read off
    #     tape.rs / copyless.rs under the standard library's growth (max(2 cap, needed, 4)).  c0 is placed around the token
    #     count at the structural event, so that the `=`-in-array arm, the copyless alloc and the close of a container are
    #     met with 0, 1, 2, 3 spare slots.  `bt.capreuse`: a second parse on the vector the first one left behind.
    def tok_count(kinds):
        return len(kinds)
    cm = []
    nmax = ctx.scale(30, 90)
    for e in ("id", "i32", "quoted"):
        for n in range(0, nmax):
            body = (e,) * n
            for kinds in (("id", "equal", "open") + body + ("id", "equal", e, "close"),
                          ("id", "equal", "open", "open", "close") + body + ("id", "equal", e, "close"),
                          ("id", "equal", "open") + body + ("close",),
                          ("id", "equal", "open") + ("id", "equal", e) * n + ("close",),
                          ("id", "equal", e) * n,
                          ("id", "equal", "open") + ("open", "close") * (n % 12) + ("id", "equal", e, "close") + ("id", "equal", e) * (n // 12),
                          # mixed_insert1: a lone key before the close of an object; mixed_insert2: an object that goes on as an array
                          ("id", "equal", "open") + ("id", "equal", e) * (n // 2) + (e,) * (n % 2) + (e, "close"),
                          ("id", "equal", "open") + ("id", "equal", e) * (n // 2) + (e,) * (n % 2) + (e, e, e, "close")):
                h = hexs(B.enc_seq(kinds))
                # tokens on the tape when the interesting `=` / close arrives: 2 + n (+2 for the ghost); try every slack 0..3
                for c0 in sorted({0, n + 2, n + 3, n + 4, n + 5}):
                    if rng.random() < (1.0 if n < 14 else 0.35):
                        cm.append("bt.cap\t%d\t%s" % (c0, h))
    for _ in range(ctx.scale(500, 6000)):
        toks = B.random_tokens(rng, rng.choice([5, 9, 14, 25, 40]))
        cm.append("bt.cap\t%d\t%s" % (rng.choice([0, 0, 1, 3, 10, 11, 12, 13, len(toks), len(toks) + 1, len(toks) + 2]), hexs(B.enc_seq(toks))))
    docs = [B.gen_doc(rng)[0] for _ in range(ctx.scale(250, 3000))]
    for d in docs:
        cm.append("bt.cap\t%d\t%s" % (rng.choice([0, 0, 5, 11, 16, 17, 33]), hexs(d)))
    for _ in range(ctx.scale(250, 3000)):
        cm.append("bt.capreuse\t%d\t%s\t%s" % (rng.choice([0, 3, 12]), hexs(rng.choice(docs)), hexs(rng.choice(docs)) if rng.random() < 0.7 else hexs(B.enc_seq(B.random_tokens(rng, 12)))))
    ctx.count("tape_cap_model_cases", len(cm))
    cmw = [C05_inv.w(c) for c in cm]
    impl, _ = ctx.correspond("tape_cap_model", cmw, nontrivial=lambda c, i: "cap=" in i, profile="release", model=True)
    base = len(impl) - len(cmw)
    for k, c in enumerate(cmw):
        o = impl[base + k]
        if o in CRASH or "RUNAWAY" in o or "LEN>CAP" in o or "with_capacity" in o:
            ctx.fail("crash-bt.cap", "release build: %s on %s" % (o, c[:200].replace("\t", " ")), [c], [o], "a value or an error, length <= capacity")
        if o == "NOKIND":
            ctx.count("nokind_bt.cap")
    # the same cases in the debug build (set_len beyond the capacity aborts there); no model run needed twice
    impl, _ = ctx.correspond("tape_cap_debug", cmw, nontrivial=lambda c, i: "cap=" in i, profile="debug", model=False)
    base = len(impl) - len(cmw)
    for k, c in enumerate(cmw):
        o = impl[base + k]
        if o in CRASH or "RUNAWAY" in o or "LEN>CAP" in o:
            ctx.fail("crash-bt.cap", "debug build: %s on %s" % (o, c[:200].replace("\t", " ")), [c], [o], "a value or an error, length <= capacity")
    # <<< w_btcap
    # ---- known finding N: at opt-level 0 (the default of `cargo build` / `cargo test`) the streaming readers recurse once per
    #      refill inside one token (next -> refill_next -> next ...): a long token delivered in 1-byte reads overflows the stack
    m = 65000
    nb = bytes([0x84, 0x2d, 1, 0, 0x0f, 0, m & 255, m >> 8]) + b"q" * m
    nc = ["bl.stream\t%s\t%d\t%s" % (hexs(nb), m + 100, ",".join(["1"] * len(nb)))]
    impl, _ = ctx.correspond("refill_recursion_opt0", nc, nontrivial=lambda c, i: True, profile="debug", model=False)
    for c, o in zip(nc, impl[-len(nc):]):
        if o in CRASH:
            ctx.fail("N-refill-recursion-opt0", "debug build (library at opt-level 0): binary TokenReader on a 65000-byte string token delivered in 1-byte reads into a 65100-byte buffer: %s (one stack frame per refill)" % o, [c[:200]], [o], "the two tokens and the string")
    # ---- known finding I: recursion depth = nesting depth (JSON / write_tape / deserialize `any`)
    deep = b"a={" * ctx.scale(60000, 200000)
    dc = ["writer.rt\t32,1,r\t%s" % hexs(deep + b"}" * (len(deep) // 3))]
    impl, _ = ctx.correspond("deep_nesting", dc, nontrivial=lambda c, i: True, profile="release", model=False)
    for c, o in zip(dc, impl[-len(dc):]):
        if o in CRASH:
            ctx.fail("I-stack-depth", "write_tape on a document nested %d deep: %s (recursion depth = nesting depth, the parsers do not limit it)" % (len(deep) // 3, o), [c], [o], "a value or an error")
