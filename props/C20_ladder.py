"""C20 wave 6 (s_c20): SIZE / BOUNDARY ladders for the I/O-fault property.

One dimension at a time on an otherwise small input, every case judged by an oracle that does not depend on the
implementation's structure:

  * reader ops (c20.tapi / c20.bapi): the faulty run is compared, op by op, with its fault-free TWIN (same case, fault
    events removed).  For a run of `nf` consecutive faults starting at read-call index `fi` the expected output is fully
    determined by the twin (`judge_run`): ops before the failing read are identical; the op that issues read call fi
    returns ReaderErrorKind::Read once per attempt (attempt i after exactly fi+1+i read calls, positions never move
    backwards and never exceed the bytes delivered, the io::ErrorKind found in the error is the injected one); when the
    faults are used up the retry returns the twin's results shifted by nf read calls; a fault the twin never reaches
    changes nothing.
  * reader deserializers (de.text / de.bin / c20.tde / c20.bde / c20.plaus): a run under faults returns the fault-free
    value or ErrorKind::Io (or the fault-free error), a persistent fault at a read call the fault-free run issues never
    ends in Ok.

Dimensions (see audit/C20.md "Size dimensions"): io::ErrorKind x structural position, index k of the failing read,
number of consecutive faults, faults after the data is exhausted, buffer size x window fill level at the fault,
nesting depth at the fault, scalar / string lengths (u16 length prefix up to 65535), number of siblings.
Schedules use the wave-6 syntax `F<k>` (explicit kind) and `<event>x<count>` (repetition).
"""
import struct
from vlib import hexs
from props import C08 as B
from props import C20_ops as O
from props import dedoc as D
from props.dedoc import hx

LADDER = [0, 1, 2, 3, 7, 8, 9, 15, 16, 17, 31, 32, 33, 63, 64, 65, 127, 128, 129, 255, 256, 257, 1023, 1024, 1025, 4095, 4096, 4097,
          65533, 65534, 65535, 65536]
# entries of util::injected_fault's table with distinct kinds: Other UnexpectedEof BrokenPipe WouldBlock Interrupted TimedOut
KINDS = [0, 1, 2, 4, 5, 7]
BAD = O.BAD
REACHED = {}      # tag -> {dimension -> set of values reached by a fault that was actually hit} (reported in ctx.dist)


def rep(ev, n):
    """n copies of one schedule event, compressed"""
    return [] if n <= 0 else (["%sx%d" % (ev, n)] if n > 1 else [str(ev)])


def expand(evs):
    out = []
    for e in evs:
        e = str(e)
        if "x" in e:
            a, n = e.split("x")
            out += [a] * int(n)
        else:
            out.append(e)
    return out


def sstr(evs):
    return ",".join(str(e) for e in evs) if evs else "-"


def runs_of(evs):
    """[(event, count)] of a (possibly compressed) schedule"""
    out = []
    for e in evs:
        e = str(e)
        if "x" in e:
            a, n = e.split("x")
            a, n = a, int(n)
        else:
            a, n = e, 1
        if n <= 0:
            continue
        if out and out[-1][0] == a:
            out[-1] = (a, out[-1][1] + n)
        else:
            out.append((a, n))
    return out


def nevents(evs):
    return sum(n for _, n in runs_of(evs))


def faulty(base, fi, nf, kind):
    """schedule `base` (list of events, may be compressed) with nf faults of io::ErrorKind `kind` inserted before event fi
    (a schedule that has run out fills the buffer: padded with large counts)"""
    pre, post, left = [], [], fi
    for a, n in runs_of(base):
        if left >= n:
            pre.append((a, n)); left -= n
        elif left > 0:
            pre.append((a, left)); post.append((a, n - left)); left = 0
        else:
            post.append((a, n))
    if left > 0:
        pre.append(("1000000000", left))
    out = []
    for a, n in pre + [("F%d" % kind, nf)] + post:
        out += rep(a, n)
    return out


# ----------------------------------------------------------------------------------------------- the oracle
def judge_run(ctx, tag, case, out, twin_out, ops, fi, nf, ndata, retry_ops, max_tries, persistent_from=8):
    """out = run with nf consecutive faults at read-call index fi; twin_out = the same run without them"""
    key = tag + "-ladder-"
    if out in BAD or twin_out in BAD or "RUNAWAY" in out:
        ctx.fail(key + "crash", "%s under %d fault(s) at read %d" % (out[:40], nf, fi), [case], [out[:300]]); return
    try:
        F, T = O.parse_items(out), O.parse_items(twin_out)
    except (ValueError, IndexError):
        ctx.fail(key + "format", "unparsable output %s" % out[:120], [case], [out[:300]]); return
    last = 0
    for (res, pos, reads, dl, mask) in F:
        if pos > dl or dl > ndata or pos < last:
            ctx.fail(key + "position", "position %d (before: %d) / delivered %d / data %d after %s" % (pos, last, dl, ndata, res[:40]), [case], [out[:300]], twin_out[:300]); return
        last = pos
        if mask not in (None, "A0"):
            ctx.fail(key + "error-api", "error accessors inconsistent (mask %s: 1 position > delivered, 4 io::ErrorKind / message not the injected one, "
                     "8 source(), 10 into_kind, 20 position moved backwards, x00 the same after From into jomini::Error) on %s" % (mask, res), [case], [out[:300]]); return
    jstar = next((j for j, t in enumerate(T) if t[2] > fi), None)
    if jstar is None:
        if [f[:4] for f in F] != [t[:4] for t in T]:
            ctx.fail(key + "unreached", "fault(s) at read %d, which the fault-free run never reaches (%d reads), changed the run" % (fi, T[-1][2] if T else 0),
                     [case], [out[:300]], twin_out[:300])
        return
    ctx.count(tag + "_ladder_reached")
    R = REACHED.setdefault(tag, {"index": set(), "runlen": set(), "fill": set()})
    R["index"].add(fi); R["runlen"].add(nf)
    if len(F) > jstar and F[jstar][0] == "ERR:100":
        R["fill"].add(F[jstar][3] - F[jstar][1])      # bytes delivered and not yet consumed when the read call failed
    if [f[:4] for f in F[:jstar]] != [t[:4] for t in T[:jstar]]:
        ctx.fail(key + "wrong", "operations before the failing read call %d differ from the fault-free run" % fi, [case], [out[:300]], twin_out[:300]); return
    if len(F) <= jstar:
        ctx.fail(key + "format", "run shorter than the fault-free prefix", [case], [out[:300]], twin_out[:300]); return
    op = ops[jstar] if jstar < len(ops) else "?"
    res = F[jstar][0]
    if res != "ERR:100" and nf < persistent_from and [f[:2] for f in F[jstar:]] == [t[:2] for t in T[jstar:]]:
        ctx.count(tag + "_ladder_absorbed")     # a transient failure absorbed inside the call: every result is the fault-free one
        return
    if res != "ERR:100":
        k = "swallowed" if not res.startswith("ERR") else "other-error"
        ctx.fail(key + k, "op %s (#%d) issues read call %d, which fails (%d consecutive fault(s)), but returns %s (fault-free: %s)" % (op, jstar, fi, nf, res[:60], T[jstar][0][:60]),
                 [case], [out[:300]], twin_out[:300]); return
    retry = op[:2] in retry_ops or op in retry_ops
    nerr = min(nf, max_tries) if retry else 1
    errs = F[jstar:jstar + nerr]
    if [e[0] for e in errs] != ["ERR:100"] * nerr or [e[2] for e in errs] != [fi + 1 + i for i in range(nerr)]:
        ctx.fail(key + "reads", "op %s (#%d): expected %d failed attempt(s), attempt i after %d+i read calls; got %s" % (
            op, jstar, nerr, fi + 1, " ".join("%s/%d" % (e[0], e[2]) for e in F[jstar:jstar + nerr + 1])[:200]), [case], [out[:300]], twin_out[:300]); return
    if len({e[3] for e in errs}) != 1:
        ctx.fail(key + "delivered", "bytes delivered changed between failed attempts", [case], [out[:300]]); return
    rest = F[jstar + nerr:]
    if not retry or nf >= max_tries:
        if rest:
            ctx.fail(key + "format", "the harness went on after the last failed attempt of %s" % op, [case], [out[:300]])
        return
    want = [(t[0], t[1], t[2] + nf, t[3]) for t in T[jstar:]]
    got = [r[:4] for r in rest]
    if got != want:
        d = next((i for i in range(min(len(got), len(want))) if got[i] != want[i]), min(len(got), len(want)))
        ctx.fail(key + "retry", "after %d consecutive fault(s) in %s (#%d) the retried run differs from the fault-free run at op #%d: %s, fault-free %s" % (
            nf, op, jstar, jstar + d, got[d] if d < len(got) else "(missing)", want[d] if d < len(want) else "(nothing)"), [case], [out[:300]], twin_out[:300])


def payload(b, short):
    """fam_c20.rs show_payload: long payloads as <first 8 bytes>~<len>~<fnv1a-32>"""
    if not short or len(b) <= 32:
        return b.hex()
    h = 0x811c9dc5
    for x in b:
        h = ((h ^ x) * 0x01000193) & 0xffffffff
    return "%s~%d~%08x" % (b[:8].hex(), len(b), h)


def bin_expect(d, ops, short):
    """expected (result, position) of a pure next/read op list over a binary document, from the naive reference lexer"""
    toks, end, _ = B.py_lex(d)
    out = []
    for j, op in enumerate(ops):
        if j < len(toks):
            t, _s, e = toks[j]
            if short and t[:2] in ("Q:", "U:") and len(t) > 2 + 64:
                t = t[:2] + payload(bytes.fromhex(t[2:]), True)
            out.append((t, e))
        elif end == "END" and op == "n":
            out.append(("NONE", len(d)))
        else:
            break
    return out


class Lad:
    """collects (case, twin) pairs of one reader stream and judges them"""

    def __init__(self, ctx, kind, tag, retry_ops):
        self.ctx, self.kind, self.tag, self.retry_ops = ctx, kind, tag, retry_ops
        self.cases, self.meta, self.twins, self.expects = [], [], {}, {}

    def line(self, cap, sched, d, ops):
        return "%s\t%d\t%s\t%s\t%s" % (self.kind, cap, sstr(sched), hexs(d), ",".join(ops))

    def add(self, dim, cap, base, d, ops, faults, tries=3, retry_all=False, short=False, expect=None):
        """faults = [(fi, nf, kind)]; ops = plain op list (the pseudo-ops are added here); expect = [(result, position | None)]:
        what the first ops of the FAULT-FREE run return, by construction of the document (independent of the implementation)"""
        pre = (["H"] if short else []) + (["RA%d" % tries] if retry_all else (["R%d" % tries] if tries != 3 else []))
        tw = self.line(cap, base, d, pre + ops)
        if tw not in self.twins:
            self.twins[tw] = len(self.cases)
            self.cases.append(tw); self.meta.append(None)
        ti = self.twins[tw]
        if expect is None and self.tag == "bin" and all(o in ("n", "r") for o in ops):
            expect = bin_expect(d, ops, short)
        if expect:
            self.expects[ti] = (dim, expect)
        ro = self.retry_ops + (("n", "r") if retry_all else ())
        for fi, nf, kind in faults:
            self.cases.append(self.line(cap, faulty(base, fi, nf, kind), d, pre + ops))
            self.meta.append((dim, ops, fi, nf, len(d), ti, ro, tries))

    def run(self, stream, plain_model=None):
        ctx = self.ctx
        impl, _ = ctx.correspond(stream, self.cases, nontrivial=lambda c, i: "ERR:100" in i, model=False)
        base = len(impl) - len(self.cases)
        for ti, (dim, expect) in sorted(self.expects.items()):
            o = impl[base + ti]
            ctx.count("lad_%s_expected_by_construction" % self.tag)
            try:
                T = O.parse_items(o) if o not in BAD else None
            except (ValueError, IndexError):
                T = None
            got = [(t[0], t[1]) for t in T[:len(expect)]] if T is not None else o
            bad = T is None or len(T) < len(expect) or any(g[0] != e[0] or (e[1] is not None and g[1] != e[1]) for g, e in zip(got, expect))
            if bad:
                j = next((i for i, (g, e) in enumerate(zip(got, expect)) if g[0] != e[0] or (e[1] is not None and g[1] != e[1])), len(got)) if T is not None else 0
                ctx.fail("%s-%s-ladder-short-read-changes-result" % (self.tag, dim), "fault-free run under short reads: op #%d returns %s, expected by construction of the document %s" % (
                    j, got[j] if T is not None and j < len(got) else str(o)[:60], expect[j] if j < len(expect) else "-"), [self.cases[ti]], [o[:300]], " ".join(e[0] for e in expect)[:300])
        for k, m in enumerate(self.meta):
            if m is None:
                continue
            dim, ops, fi, nf, nd, ti, ro, tries = m
            ctx.count("lad_%s_%s" % (self.tag, dim))
            judge_run(ctx, self.tag + "-" + dim, self.cases[k], impl[base + k], impl[base + ti], ops, fi, nf, nd, ro, tries)
        return impl[base:]


# ----------------------------------------------------------------------------------------------- documents
def text_rich(n_fields):
    """a token-rich document without quotes / comments (the text reader is resumable there): keys, nested keys, values,
    arrays, operators, ghost objects"""
    out = b""
    i = 0
    while i < n_fields:
        out += b"k%d=v%d n%d={ a=%d b={ c=d } {} e } o%d>=%d\n" % (i, i, i, i, i, i)
        i += 1
    return out


def text_tokens(ctx, docs):
    free = ["tr.slice\t%s" % hexs(d) for d in docs]
    f_impl, _ = ctx.correspond("lad_text_tokens", free, nontrivial=lambda c, i: True)
    fb = len(f_impl) - len(free)
    return [f_impl[fb + k].split(" ")[:-2] for k in range(len(docs))]


def idx_ladder(n, extra=()):
    s = {k for k in LADDER if k <= n + 2} | {max(0, n - 1), n, n + 1, n + 2} | set(extra)
    return sorted(s)


# ----------------------------------------------------------------------------------------------- text reader
def run_text(ctx):
    rng = ctx.rng
    L = Lad(ctx, "c20.tapi", "text", ("by",))
    # ---- T1: every io::ErrorKind at every read call (1-byte reads: every byte of the document = every structural position)
    docs = list(O.EVERY_KIND) + [b"r1=a r2={ n1=b n2={ m1=c } } r3=d"]
    toks = text_tokens(ctx, docs)
    t1_model = []
    for d, tk in zip(docs, toks):
        n = len(d)
        oplists = O.text_oplists(rng, tk, n_extra=3)
        cap = max(len(x) for x in d.split()) + 6
        for ops in oplists:
            maxby = max([int(o[2:]) for o in ops if o.startswith("by")] + [0])
            for bs, step in ((rep(1, n + 4), 1), (rep(2, n // 2 + 3), 2)):
                m = nevents(bs)
                fl = []
                for fi in range(0, m + 1):
                    for kind in (KINDS if step == 1 else (KINDS[fi % 6], KINDS[(fi + 2) % 6])):
                        fl.append((fi, 1, kind))
                    fl.append((fi, 8, KINDS[fi % 6]))
                    fl.append((fi, 3, KINDS[(fi + 3) % 6]))
                exp = [(t, None) for t in tk] + [("NONE", len(d))] if all(o == "n" for o in ops) else None
                L.add("kind", max(cap, maxby), bs, d, ops, fl, expect=exp)
    # ---- T2: index k of the failing read (token-rich document, 1-byte reads, retries of next/read)
    d = text_rich(28)
    n = len(d)
    rich = text_tokens(ctx, [d])[0]
    ntok = len(rich)
    for ops, ra in ((["n"] * (ntok + 3), True), (["r"] * (ntok + 1), True), (["n"] * (ntok + 3), False)):
        fl = []
        for j, fi in enumerate(idx_ladder(n, range(300, 310))):
            fl.append((fi, 1, KINDS[j % 6]))
            fl.append((fi, 8 if not ra else 2, KINDS[(j + 1) % 6]))
        L.add("index", 24, rep(1, n + 6), d, ops, fl, tries=4, retry_all=ra, expect=[(t, None) for t in rich])
    # high indices: one op issues tens of thousands of read calls
    BIG = 65600
    big_docs = [(b" " * BIG + b"a=b", ["n", "n", "n", "n", "n"], 16, True),
                (b"a" * BIG + b"=b", ["n", "n", "n", "n", "n"], BIG + 16, True),
                (b'k="' + b"q" * BIG + b'" x=y', ["n", "n", "n", "n", "n", "n", "n"], BIG + 16, False),
                (b"x={" + b"{}" * (BIG // 2) + b"} y=z", ["n", "n", "n", "k", "n", "n", "n", "n"], 16, False),
                (b"h={ a = b }\n" * (BIG // 12) + b"} y=z", ["k", "n", "n", "n", "n"], 64, False),
                (b"x=rgb" + b"\n\t\t\t" * (BIG // 4) + b"{ 1 2 3 } y=z", ["n", "n", "n", "u", "n", "n", "n", "n"], 16, False),
                (b"B" * (BIG + 50), ["by%d" % BIG, "by7", "by40"], BIG + 8, False)]
    U = lambda b: "U:" + payload(b, True)
    big_exp = [[(U(b"a"), BIG + 1), ("OP:6", BIG + 2), (U(b"b"), BIG + 3), ("NONE", BIG + 3)],
               [(U(b"a" * BIG), BIG), ("OP:6", BIG + 1), (U(b"b"), BIG + 2), ("NONE", BIG + 2)],
               [(U(b"k"), 1), ("OP:6", 2), ("Q:" + payload(b"q" * BIG, True), BIG + 4), (U(b"x"), BIG + 6), ("OP:6", BIG + 7), (U(b"y"), BIG + 8), ("NONE", BIG + 8)],
               [(U(b"x"), 1), ("OP:6", 2), ("O", 3), ("OK", 3 + 2 * (BIG // 2) + 1), (U(b"y"), None), ("OP:6", None), (U(b"z"), None), ("NONE", None)],
               [("OK", 12 * (BIG // 12) + 1), (U(b"y"), None), ("OP:6", None), (U(b"z"), None), ("NONE", None)],
               [(U(b"x"), 1), ("OP:6", 2), (U(b"rgb"), 5), ("OK", 5 + 4 * (BIG // 4) + 9), (U(b"y"), None), ("OP:6", None), (U(b"z"), None), ("NONE", None)],
               [("B:" + payload(b"B" * BIG, True), BIG), ("B:" + payload(b"B" * 7, True), BIG + 7), ("B:" + payload(b"B" * 40, True), None)]]
    for (d, ops, cap, ra), exp in zip(big_docs, big_exp):
        n = len(d)
        fl = []
        for j, fi in enumerate([k for k in idx_ladder(n) if k >= 255]):
            fl.append((fi, 1, KINDS[j % 6]))
            fl.append((fi, 2, KINDS[(j + 2) % 6]))
        L.add("index", cap, rep(1, n + 4), d, ops, fl, tries=4, retry_all=ra, short=True, expect=exp)
    # ---- T3: number of consecutive faults, then data (retryable ops), every kind, at several structural positions
    d = b"ab=cd ef={gh=ij} kl"
    n = len(d)
    runs = list(range(1, 11)) + [15, 16, 17, 31, 32, 33, 63, 64, 65, 127, 128, 129, 255, 256, 257]
    for ops, ra in ((["n"] * 12, True), (["by2", "by1", "by3", "by9", "by4", "by1"], False)):
        for fi in (0, 1, 2, 3, 5, 10, 13, n - 1, n, n + 1, n + 2):
            fl = [(fi, nf, KINDS[(j + fi) % 6]) for j, nf in enumerate(runs)] + [(fi, nf, k) for nf in (2, 4, 9) for k in KINDS]
            L.add("runlen", 8 if ra else 12, rep(1, n + 4), d, ops, fl, tries=300, retry_all=ra)
        # fewer tries than faults: the harness gives up, every attempt failed
        L.add("runlen", 8 if ra else 12, rep(1, n + 4), d, ops, [(4, nf, 5) for nf in (2, 3, 4, 5)], tries=3, retry_all=ra)
    # ---- T4: faults after the data is exhausted (the read that probes for the end, and later probes)
    for d in (b"", b"a", b"a=b", b"a=b ", b"a={b=c}", b"a=b\n#c", b"a=b #c\n"):
        n = len(d)
        for bs in (rep(1, n), [n] if n else [], []):
            m = nevents(bs)
            for ops in (["n"] * 8, ["n", "n", "n", "r", "r"], ["by%d" % n, "n", "n", "by1", "n"]):
                fl = []
                for fi in range(max(0, m - 1), m + 7):
                    for j, nf in enumerate((1, 2, 3, 10)):
                        fl.append((fi, nf, KINDS[(fi + j) % 6]))
                L.add("afterend", max(8, n), bs, d, ops, fl, tries=12, retry_all=b"#" not in d)
    # ---- T5: buffer size x window fill level (bytes carried over) at the fault
    SC = 66000
    fills = [c for c in LADDER]
    for name, d, ops, ra in (("unq", b"k=" + b"v" * SC + b" x=y", ["n"] * 7, True),
                             ("quo", b'k="' + b"v" * SC + b'" x=y', ["n"] * 7, False)):
        lead = 2 if name == "unq" else 2
        for j, c in enumerate(fills):
            for cap in sorted({c + 1 + (1 if name == "quo" else 0), c + 9, SC + 64}):
                if cap < 4:
                    continue
                # read 0 delivers the key and '=', read 1 delivers c bytes of the scalar, read 2 happens with c bytes carried over
                bs = [lead] + ([c] if c else []) + rep(4096, SC // 4096 + 2)
                fi = 2 if c else 1
                exp = None
                if cap > SC + 8:
                    exp = [("U:6b", 1), ("OP:6", 2), (("U:" if name == "unq" else "Q:") + payload(b"v" * SC, True), None), ("U:78", None), ("OP:6", None), ("U:79", None), ("NONE", len(d))]
                L.add("fill", cap, bs, d, ops, [(fi, 1, KINDS[j % 6]), (fi, 2, KINDS[(j + 1) % 6]), (fi, 8, KINDS[(j + 2) % 6])], tries=4, retry_all=ra, short=True, expect=exp)
    for j, nby in enumerate([k for k in LADDER if k >= 1]):
        d = b"p=" + b"B" * (nby + 3)
        for c in sorted({0, 1, nby // 2, nby - 1}):
            for cap in sorted({nby, nby + 1, nby + 64}):
                bs = [2] + ([c] if c else []) + rep(4096, nby // 4096 + 2)
                fi = 2 if c else 1
                L.add("fill", max(cap, 4), bs, d, ["n", "n", "by%d" % nby, "by3", "n"], [(fi, 1, KINDS[j % 6]), (fi, 3, KINDS[(j + 3) % 6])], tries=5, short=True,
                      expect=[("U:70", 1), ("OP:6", 2), ("B:" + payload(b"B" * nby, True), 2 + nby), ("B:424242", 5 + nby), ("NONE", 5 + nby)] if max(cap, 4) > nby else None)
    # ---- T6: nesting depth at the fault (next() to the bottom / skip_container from the top), 1-byte and 8-byte reads
    for j, dep in enumerate(LADDER):
        inner = b"a={" * dep + b"b=c" + b"}" * dep
        d = b"x={" + inner + b"} y=z"
        bottom = 3 + 3 * dep
        if dep <= 1025:
            ops = ["n"] * (3 + 3 * dep + 3 + dep + 1 + 3 + 2)
            exp = [("U:78", 1), ("OP:6", 2), ("O", 3)] + [("U:61", None), ("OP:6", None), ("O", None)] * dep + [("U:62", None), ("OP:6", None), ("U:63", None)] + [("C", None)] * (dep + 1) \
                + [("U:79", None), ("OP:6", None), ("U:7a", None), ("NONE", len(d))]
            L.add("depth", 16, rep(1, len(d) + 3), d, ops, [(fi, 1, KINDS[(j + i) % 6]) for i, fi in enumerate((bottom - 1, bottom, bottom + 1, bottom + 3, bottom + 3 + dep))], retry_all=True, expect=exp)
        for d2, bot in ((d, bottom), (b"x={" + b"{" * dep + b"}" * dep + b"} y=z", 3 + dep)):
            for ev, div in ((1, 1), (8, 8), (7, 7)):
                bs = [3] + rep(ev, (len(d2) - 3) // div + 3)
                fis = sorted({1, 1 + (bot - 3) // div, 2 + (bot - 3) // div, 1 + (len(d2) - 8) // div})
                L.add("depth", 16, bs, d2, ["n", "n", "n", "k", "n", "n", "n", "n"], [(fi, 1, KINDS[(j + i) % 6]) for i, fi in enumerate(fis)], short=True,
                      expect=[("U:78", 1), ("OP:6", 2), ("O", 3), ("OK", len(d2) - 4), ("U:79", len(d2) - 2), ("OP:6", len(d2) - 1), ("U:7a", len(d2)), ("NONE", len(d2))])
    out = L.run("ladder_text_api")
    # the extracted reader model on the short cases of the same runs (canonical rendering, stops at the first failing op)
    mc = []
    for c in L.cases:
        _, cap, sch, h, ops = c.split("\t")
        if len(h) > 2600 or (sch != "-" and nevents(sch.split(",")) > 1500):
            continue
        ops = ",".join(o for o in ops.split(",") if not (o == "H" or o.startswith("R")))
        mc.append("c20.tops\t%s\t%s\t%s\t%s" % (cap, sch, h, ops))
    mc = mc[::ctx.scale(3, 1)]
    ctx.correspond("ladder_text_model", mc, nontrivial=lambda c, i: "ERR:100" in i)
    ctx.count("ladder_text_cases", len(L.cases))


# ----------------------------------------------------------------------------------------------- binary reader
def bin_rich(n):
    toks = []
    for i in range(n):
        toks += [("T", 0x2000 + i), ("EQ",), ("O",), ("U", b"a%d" % i), ("EQ",), ("I32", i), ("T", 0x100 + i), ("EQ",), ("O",), ("Q", b"c"), ("C",),
                 ("O",), ("C",), ("BOOL", i % 2 == 0), ("C",), ("Q", b"k%d" % i), ("EQ",), ("RGB", (i % 256, 2, 3))]
    return toks


def run_bin(ctx):
    rng = ctx.rng
    L = Lad(ctx, "c20.bapi", "bin", ("n", "r", "by"))
    enc = lambda toks: b"".join(B.enc(t) for t in toks)
    # ---- B1: every io::ErrorKind at every read call of documents holding every token kind, keys at the root and nested
    allk = [("T", 0x2d83), ("EQ",), ("O",), ("Q", b"ab"), ("U", b"c"), ("U32", 7), ("U64", 2 ** 40), ("I32", -3), ("I64", -2 ** 40), ("BOOL", True),
            ("F32", b"\x00\x00\x80\x3f"), ("F64", b"\x00" * 7 + b"\x40"), ("O",), ("O",), ("C",), ("T", 1), ("C",), ("C",), ("RGB", (1, 2, 3)), ("T", 9), ("EQ",), ("Q", b"end")]
    nested = [("U", b"r1"), ("EQ",), ("I32", 1), ("T", 0x3000), ("EQ",), ("O",), ("U", b"n1"), ("EQ",), ("Q", b"v"), ("T", 0x3001), ("EQ",), ("O",),
              ("Q", b"m1"), ("EQ",), ("U64", 5), ("C",), ("C",), ("U", b"r3"), ("EQ",), ("BOOL", False)]
    for toks in (allk, nested):
        d = enc(toks)
        n = len(d)
        ptoks, _end, _need = B.py_lex(d)
        for ops in O.bin_oplists(rng, ptoks) + [["n"] * (len(ptoks) + 3)]:
            maxby = max([int(o[2:]) for o in ops if o.startswith("by")] + [0])
            for bs in (rep(1, n + 4), rep(2, n // 2 + 3), rep(3, n // 3 + 3)):
                m = nevents(bs)
                fl = []
                for fi in range(m + 1):
                    for kind in KINDS:
                        fl.append((fi, 1, kind))
                    fl.append((fi, 8, KINDS[fi % 6]))
                    fl.append((fi, 2, KINDS[(fi + 3) % 6]))
                L.add("kind", max(B.need_of(d) + rng.choice([0, 1, 5]), maxby, 1), bs, d, ops, fl)
    # ---- B2: index of the failing read
    d = enc(bin_rich(12))
    n = len(d)
    nt = len(B.py_lex(d)[0])
    for ops in (["n"] * (nt + 3), ["r"] * (nt + 1)):
        fl = []
        for j, fi in enumerate(idx_ladder(n, range(300, 310))):
            fl.append((fi, 1, KINDS[j % 6]))
            fl.append((fi, 2, KINDS[(j + 1) % 6]))
            fl.append((fi, 8, KINDS[(j + 2) % 6]))
        L.add("index", 32, rep(1, n + 6), d, ops, fl, tries=4)
    BIG = 65600
    many = enc([("T", 0x2000), ("EQ",), ("O",)] + [("T", 0x100 + (i % 7000)) for i in range(BIG // 2)] + [("C",), ("T", 5)])
    for d, ops, cap, exp in ((many, ["n", "n", "n", "k", "n", "n", "n"], 16, [("T:8192", 2), ("EQ", 4), ("O", 6), ("OK", len(many) - 2), ("T:5", len(many)), ("NONE", len(many))]),
                             (b"B" * (BIG + 50), ["by%d" % BIG, "by7", "by40"], BIG + 8,
                              [("B:" + payload(b"B" * BIG, True), BIG), ("B:" + payload(b"B" * 7, True), BIG + 7), ("B:" + payload(b"B" * 40, True), BIG + 47)])):
        n = len(d)
        fl = []
        for j, fi in enumerate([k for k in idx_ladder(n) if k >= 255]):
            fl.append((fi, 1, KINDS[j % 6]))
            fl.append((fi, 2, KINDS[(j + 2) % 6]))
        L.add("index", cap, rep(1, n + 4), d, ops, fl, tries=4, short=True, expect=exp)
    # ---- B3: number of consecutive faults then data
    d = enc([("T", 0x2d83), ("EQ",), ("O",), ("Q", b"ab"), ("EQ",), ("I32", 7), ("C",), ("U", b"kl")])
    n = len(d)
    runs = list(range(1, 11)) + [15, 16, 17, 31, 32, 33, 63, 64, 65, 127, 128, 129, 255, 256, 257]
    for ops in (["n"] * 11, ["r"] * 8 + ["n", "n"], ["by2", "by1", "by3", "by9", "by4", "by1"]):
        for fi in (0, 1, 2, 3, 4, 7, 9, 11, 16, n - 1, n, n + 1, n + 2):
            fl = [(fi, nf, KINDS[(j + fi) % 6]) for j, nf in enumerate(runs)] + [(fi, nf, k) for nf in (2, 4, 9) for k in KINDS]
            L.add("runlen", 12, rep(1, n + 4), d, ops, fl, tries=300)
        L.add("runlen", 12, rep(1, n + 4), d, ops, [(4, nf, 5) for nf in (2, 3, 4, 5)], tries=3)
    # ---- B4: faults after the data is exhausted
    for d in (b"", enc([("T", 7)]), enc([("T", 7), ("EQ",), ("I32", 1)]), enc([("O",), ("C",)])):
        n = len(d)
        for bs in (rep(1, n), [n] if n else [], []):
            m = nevents(bs)
            for ops in (["n"] * 8, ["n", "n", "n", "r", "r", "n"], ["by%d" % n, "n", "n", "by1", "n"]):
                fl = []
                for fi in range(max(0, m - 1), m + 7):
                    for j, nf in enumerate((1, 2, 3, 10)):
                        fl.append((fi, nf, KINDS[(fi + j) % 6]))
                L.add("afterend", max(8, n), bs, d, ops, fl, tries=12)
    # ---- B5: string length (u16 prefix, up to 65535) x buffer size x window fill level at the fault
    for j, ln in enumerate([k for k in LADDER if k <= 65535]):
        for q in ("Q", "U"):
            d = enc([("T", 0x2d83), ("EQ",), (q, bytes([65 + (i % 26) for i in range(ln)])), ("T", 9)])
            tot = ln + 4
            for c in sorted({0, 1, 2, 3, 4, 5, tot // 2, tot - 1} & set(range(tot))):
                for cap in sorted({tot, tot + 1, tot + 64}):
                    bs = [4] + ([c] if c else []) + rep(4096, tot // 4096 + 2)
                    fi = 2 if c else 1
                    L.add("fill", max(cap, 8), bs, d, ["n", "n", "n", "n", "n"], [(fi, 1, KINDS[(j + c) % 6]), (fi, 3, KINDS[(j + c + 3) % 6])], tries=5, short=True)
            # one byte at a time through the whole string: every fill level once (short strings), the ladder (long ones)
            if ln <= 1025:
                lv = sorted(set(k for k in LADDER if k < tot) | {tot - 1})
                L.add("fill", tot + 3, rep(1, tot + 8), d, ["r", "r", "r", "r", "n"], [(4 + c, 1, KINDS[(j + c) % 6]) for c in lv], tries=4, short=True)
    for j, nby in enumerate([k for k in LADDER if k >= 1]):
        d = enc([("T", 0x21)]) + b"B" * (nby + 3)
        for c in sorted({0, 1, nby // 2, nby - 1}):
            for cap in sorted({nby, nby + 1, nby + 64}):
                bs = [2] + ([c] if c else []) + rep(4096, nby // 4096 + 2)
                fi = 2 if c else 1
                L.add("fill", max(cap, 4), bs, d, ["n", "by%d" % nby, "by3", "n"], [(fi, 1, KINDS[j % 6]), (fi, 3, KINDS[(j + 3) % 6])], tries=5, short=True)
    # ---- B6: nesting depth at the fault
    for j, dep in enumerate(LADDER):
        d = enc([("T", 0x33), ("EQ",), ("O",)] + [("O",)] * dep + [("I32", 5)] + [("C",)] * dep + [("C",), ("T", 0x44)])
        bottom = 6 + 2 * dep
        if dep <= 1025:
            ops = ["n"] * (2 * dep + 8)
            L.add("depth", 16, rep(1, len(d) + 3), d, ops, [(fi, 1, KINDS[(j + i) % 6]) for i, fi in enumerate((bottom - 1, bottom, bottom + 1, bottom + 6, bottom + 6 + dep))])
        for ev in (1, 2, 8, 7):
            bs = [6] + rep(ev, (len(d) - 6) // ev + 3)
            fis = sorted({1, 1 + (bottom - 6) // ev, 2 + (bottom - 6) // ev, 1 + (len(d) - 9) // ev})
            L.add("depth", 16, bs, d, ["r", "r", "r", "k", "n", "n", "n"], [(fi, 1, KINDS[(j + i) % 6]) for i, fi in enumerate(fis)], short=True,
                  expect=[("T:51", 2), ("EQ", 4), ("O", 6), ("OK", len(d) - 2), ("T:68", len(d)), ("NONE", len(d)), ("NONE", len(d))])
    L.run("ladder_bin_api")
    # model = implementation on the short cases (bl.rops: plain F events, no retry, position after every failed call)
    mc = []
    for c in L.cases:
        _, cap, sch, h, ops = c.split("\t")
        if len(h) > 1400 or (sch != "-" and nevents(sch.split(",")) > 900):
            continue
        ops = ",".join(o for o in ops.split(",") if not (o == "H" or o.startswith("R")))
        ev = ["F" if e.startswith("F") else e for e in (expand(sch.split(",")) if sch != "-" else [])]
        mc.append("bl.rops\t%s\t%s\t%s\t%s" % (h, cap, ",".join(ev) if ev else "-", ops))
    mc = mc[::ctx.scale(4, 1)]
    ctx.correspond("ladder_bin_model", mc, nontrivial=lambda c, i: "ERR:100" in i)
    ctx.count("ladder_bin_cases", len(L.cases))


# ----------------------------------------------------------------------------------------------- reader deserializers
class DeLad:
    def __init__(self, ctx):
        self.ctx = ctx
        self.specs = []      # (dim, clean case, [(fault case, k, persistent)], model?)

    def add(self, dim, mk, faults, model=True, mincalls=None, check=None):
        """mk(suffix) -> case line; faults = [(k, 'F'|'P', kind, run)]; mincalls = a number of read calls a SUCCESSFUL
        fault-free run surely issues (by construction of the schedule: n bytes in chunks of c need n/c calls + the probe
        for the end), used when the kind does not print the call count"""
        fc = []
        for k, kf, kind, run in faults:
            sfx = "@%d%s%d" % (k, kf, kind) + ("x%d" % run if run != 1 else "")
            fc.append((mk(sfx), k, kf == "P", mincalls))
        self.specs.append((dim, mk(""), fc, model, check))

    def run(self, name):
        ctx = self.ctx
        for model in (True, False):
            sp = [s for s in self.specs if s[3] == model]
            if not sp:
                continue
            clean = [s[1] for s in sp]
            st = name + ("" if model else "_impl")
            ci, _ = ctx.correspond(st + "_clean", clean, nontrivial=lambda c, i: not i.startswith("ERR"), model=model)
            cb = len(ci) - len(clean)
            fcases, fmeta = [], []
            for j, s in enumerate(sp):
                # the fault-free value, by construction of the document (check = predicate on the printed value)
                if s[4] is not None:
                    ctx.count("lad_de_expected_by_construction")
                    if ci[cb + j] in BAD or not s[4](de_val(ci[cb + j])[0]):
                        ctx.fail("de-ladder-%s-short-read-changes-result" % s[0], "fault-free run under short reads returns %s, not the value the document was built to hold" % ci[cb + j][:150],
                                 [s[1]], [ci[cb + j][:300]])
                for (c, k, pers, run) in s[2]:
                    fcases.append(c); fmeta.append((s[0], ci[cb + j], k, pers, run, s[1]))
            fi, _ = ctx.correspond(st + "_faults", fcases, nontrivial=lambda c, i: i.startswith("ERR:io"), model=model)
            fb = len(fi) - len(fcases)
            for j, (dim, ref, k, pers, run, cl) in enumerate(fmeta):
                o = fi[fb + j]
                ctx.count("lad_de_" + dim)
                judge_de(ctx, dim, fcases[j], o, ref, k, pers, run)


def de_val(o):
    """c20.plaus prints `<value> calls=.. delivered=.. A<mask>`; de.* print the value"""
    if " calls=" in o:
        v, calls, dl, mask = o.rsplit(" ", 3)
        return v, int(calls.split("=")[1]), mask
    return o, None, "A0"


def judge_de(ctx, dim, case, o, ref, k, pers, mincalls=None):
    key = "de-ladder-" + dim + "-"
    if o in BAD or ref in BAD:
        ctx.fail(key + "crash", "fault at read call %d: %s (fault-free: %s)" % (k, o[:40], ref[:40]), [case], [o[:300]], "ERR:io"); return
    v, _, mask = de_val(o)
    rv, ncalls, _ = de_val(ref)
    if ncalls is None:
        ncalls = mincalls
    if mask != "A0":
        ctx.fail(key + "error-api", "error accessors inconsistent (mask %s) for %s" % (mask, v[:60]), [case], [o[:300]]); return
    if not v.startswith("ERR"):
        if v != rv:
            ctx.fail(key + "wrong-value", "fault at read call %d is swallowed: the call returns %s, the fault-free run returns %s" % (k, v[:120], rv[:120]), [case], [o[:300]], rv[:300])
        elif pers and ncalls is not None and k < ncalls:
            ctx.fail(key + "persistent-swallowed", "persistent fault from read call %d of %d on: the call still returns Ok" % (k, ncalls), [case], [o[:300]], "ERR:io")
    elif v != "ERR:io" and v != rv:
        ctx.fail(key + "other-error", "fault at read call %d surfaces as %s instead of an I/O error (fault-free: %s)" % (k, v, rv[:80]), [case], [o[:300]], "ERR:io")


def run_de(ctx):
    rng = ctx.rng
    H = lambda b: hx(b if isinstance(b, bytes) else b.encode())
    L = DeLad(ctx)
    s = lambda b: D.bstr(b, False)
    q = lambda b: D.bstr(b, True)
    i32 = lambda v: D.tok(0x0c) + struct.pack("<i", v)

    def tcase(buf, sched, enc, shape, txt, kind="c20.tde"):
        return lambda sfx: "\t".join([kind, "reader:%d:%s%s" % (buf, sched, sfx), enc, shape, hx(txt)])

    def bcase(buf, sched, shape, data, kind="c20.bde", strat="error", fl="eu4"):
        return lambda sfx: "\t".join([kind, "reader:%d:%s%s" % (buf, sched, sfx), strat, "map:-", fl, shape, hx(data)])

    def pcase(fmt, target, path, aux, data):
        return lambda sfx: "\t".join(["c20.plaus", fmt, target, path + sfx, aux, hexs(data)])

    # ---- D1: every io::ErrorKind at every read call of directed documents (1-byte reads: every byte = every position:
    # root key, nested key, operator, value, ghost object, ignored container, tuple and its closing token, trailing data)
    tdocs = [
        (b'a=1 b={1 2 3} {} c={x=1 y=2} d="q r" e=yes\n', "struct(%s:i32,%s:seq(i32),%s:ign,%s:str,%s:bool)" % tuple(H(k) for k in "abcde")),
        (b'a={1 2} {} b={ {} k=v } c=3', "map(ign)"),
        (b't={1 2} u={3 4} v=1', "struct(%s:tup(i32,i32),%s:tup(i32,i32),%s:i32)" % (H("t"), H("u"), H("v"))),
        (b'a>=5 b<3 c==4 d=7', "map(prop(i32))"),
        (b'\xef\xbb\xbfa="x y" # c\nb=@[1+2] c={}', "map(any)"),
        (b'r={n={m=1 l=2} o=3} k=rgb {1 2 3} z=9 ', "map(any)"),
    ]
    for txt, shp in tdocs:
        n = len(txt)
        for sched, ncall in (("1*", n + 2), ("2*", n // 2 + 2)):
            fl = []
            for k in range(ncall):
                for kind in KINDS:
                    fl.append((k, "F", kind, 1))
                fl.append((k, "P", KINDS[k % 6], 1))
                fl.append((k, "P", KINDS[(k + 3) % 6], 1))
            L.add("kind", tcase(16, sched, "utf8", shp, txt), fl, mincalls=ncall - 1)
    bdocs = [
        (s(b"a") + D.EQ + D.OPEN + D.OPEN + D.CLOSE + s(b"b") + D.EQ + i32(1) + D.CLOSE + s(b"c") + D.EQ + i32(2),
         "struct(%s:struct(%s:i32),%s:i32)" % (H("a"), H("b"), H("c"))),
        (s(b"a") + D.EQ + D.OPEN + i32(1) + i32(2) + D.CLOSE + q(b"u") + D.EQ + D.OPEN + s(b"x") + D.EQ + q(b"y") + D.CLOSE + s(b"t") + D.EQ + D.OPEN + i32(3) + i32(4) + D.CLOSE
         + s(b"z") + D.EQ + D.tok(0x0e) + b"\x01",
         "struct(%s:seq(i32),%s:ign,%s:tup(i32,i32),%s:bool)" % (H("a"), H("u"), H("t"), H("z"))),
        (s(b"r") + D.EQ + D.OPEN + s(b"n") + D.EQ + D.OPEN + s(b"m") + D.EQ + i32(1) + D.CLOSE + s(b"o") + D.EQ + q(b"v") + D.CLOSE + s(b"k") + D.EQ + i32(9),
         "map(ign)"),
    ]
    for data, shp in bdocs:
        n = len(data)
        for sched, ncall in (("1*", n + 2), ("2*", n // 2 + 2), ("3*", n // 3 + 2)):
            fl = []
            for k in range(ncall):
                for kind in KINDS:
                    fl.append((k, "F", kind, 1))
                fl.append((k, "P", KINDS[k % 6], 1))
                fl.append((k, "P", KINDS[(k + 3) % 6], 1))
            L.add("kind", bcase(32, sched, shp, data), fl, mincalls=ncall - 1)
    # typed all-optional targets (serde derive / JominiDeserialize): a swallowed fault still gives a plausible value
    prng = __import__("random").Random(ctx.seed + 606)
    for t in range(ctx.scale(6, 30)):
        target = ["plaus", "onlylast", "dplaus"][t % 3]
        doc = O.gen_plaus(prng, target == "dplaus")
        for fmt in ("text", "bin"):
            data = O.text_pairs(doc, prng) if fmt == "text" else O.bin_pairs(doc, prng)
            n = len(data)
            fl = []
            for k in range(0, n + 2):
                fl.append((k, "F", KINDS[k % 6], 1))
                fl.append((k, "F", KINDS[(k + 1 + t) % 6], 1))
                fl.append((k, "P", KINDS[(k + 2 + t) % 6], 1))
            L.add("kind", pcase(fmt, target, "reader:%d:1*" % (48 if fmt == "text" else 40), "utf8" if fmt == "text" else "eu4", data), fl, model=False)
    # ---- D2: nesting depth at the fault
    for j, dep in enumerate([k for k in LADDER if k <= 1025]):
        txt = b"a={" * dep + b"b=1" + b"}" * dep + b" c=2"
        bot = 3 * dep
        ks = sorted({0, bot, bot + 1, bot + 2, bot + 3, bot + 3 + dep // 2, bot + 3 + dep, bot + 3 + dep + 3})
        fl = [(k, "FP"[i % 2], KINDS[(i + j) % 6], 1) for i, k in enumerate(ks)] + [(bot + 1, "P", KINDS[j % 6], 1)]
        L.add("depth", tcase(16, "1*", "utf8", "map(any)", txt), fl, model=dep <= 130)
        if dep <= 257:
            typed = ("struct(%s:" % H("a")) * dep + "struct(%s:i32)" % H("b") + ")" * dep
            txt2 = b"a={" * dep + b"b=1" + b"}" * dep
            L.add("depth", tcase(16, "1*", "w1252", typed, txt2), fl, model=dep <= 130, check=lambda v, dep=dep: v.count("(struct") == dep + 1 and v.count("(i 1)") == 1)
            data = (s(b"a") + D.EQ + D.OPEN) * dep + s(b"b") + D.EQ + i32(1) + D.CLOSE * dep
            bshape = "map(" * (dep + 1) + "i32" + ")" * (dep + 1)
            bb = 9 * dep
            ks = sorted({0, bb, bb + 1, bb + 5, bb + 7, bb + 10, bb + 12 + dep, bb + 13 + 2 * dep})
            L.add("depth", bcase(32, "1*", bshape, data), [(k, "FP"[i % 2], KINDS[(i + j) % 6], 1) for i, k in enumerate(ks)], model=dep <= 130, check=lambda v, dep=dep: v.count("(map") == dep + 1 and v.count("(i 1)") == 1)
        # an ignored container of that depth (skip_container inside the deserializer), through the typed target
        ign = b"unk={" + b"{" * dep + b"1" + b"}" * dep + b"} last=end"
        ks = sorted({0, 4, 5 + dep, 6 + dep, 7 + 2 * dep, 9 + 2 * dep, 14 + 2 * dep})
        L.add("depth", pcase("text", "onlylast", "reader:16:1*", "utf8", ign), [(k, "FP"[i % 2], KINDS[(i + j) % 6], 1) for i, k in enumerate(ks)], model=False, check=lambda v: 'last:Some("end")' in v)
        bign = O.bin_str("unk", False) + b"\x01\x00\x03\x00" + b"\x03\x00" * dep + b"\x04\x00" * dep + b"\x04\x00" + O.bin_str("last", False) + b"\x01\x00" + O.bin_str("end")
        ks = sorted({0, 8, 11 + 2 * dep, 12 + 2 * dep, 13 + 4 * dep, 15 + 4 * dep})
        L.add("depth", pcase("bin", "onlylast", "reader:32:1*", "eu4", bign), [(k, "FP"[i % 2], KINDS[(i + j) % 6], 1) for i, k in enumerate(ks)], model=False, check=lambda v: 'last:Some("end")' in v)
    for dep in (4096, 65536):
        ign = b"unk={" + b"{" * dep + b"}" * dep + b"} last=end"
        for sched, div in (("8*", 8), ("4096*", 4096)):
            ks = sorted({0, 1, (5 + dep) // div, (5 + dep) // div + 1, (5 + 2 * dep) // div, (5 + 2 * dep) // div + 1})
            L.add("depth", pcase("text", "onlylast", "reader:32:" + sched, "utf8", ign), [(k, "FP"[i % 2], KINDS[i % 6], 1) for i, k in enumerate(ks)], model=False, check=lambda v: 'last:Some("end")' in v)
        bign = O.bin_str("unk", False) + b"\x01\x00\x03\x00" + b"\x03\x00" * dep + b"\x04\x00" * dep + b"\x04\x00" + O.bin_str("last", False) + b"\x01\x00" + O.bin_str("end")
        for sched, div in (("8*", 8), ("4096*", 4096)):
            ks = sorted({0, 1, (11 + 2 * dep) // div, (11 + 2 * dep) // div + 1, (11 + 4 * dep) // div, (11 + 4 * dep) // div + 1})
            L.add("depth", pcase("bin", "onlylast", "reader:32:" + sched, "eu4", bign), [(k, "FP"[i % 2], KINDS[i % 6], 1) for i, k in enumerate(ks)], model=False, check=lambda v: 'last:Some("end")' in v)
    # ---- D3: number of siblings / index of the failing read
    nsib = 420
    txt = b" ".join(b"k%d=%d" % (i, i) for i in range(nsib)) + b"\n"
    arr = b"a={ " + b" ".join(b"%d" % i for i in range(nsib)) + b" } b=1"
    dup = b" ".join(b"a=%d" % i for i in range(nsib)) + b" b={a=1}"
    for doc, shp in ((txt, "map(i32)"), (arr, "struct(%s:seq(i32),%s:i32)" % (H("a"), H("b"))), (dup, "struct(%s*:i32,%s:opt(map(i32)))" % (H("a"), H("b")))):
        n = len(doc)
        ks = idx_ladder(n, range(298, 304))
        L.add("index", tcase(24, "1*", "utf8", shp, doc), [(k, "FP"[i % 2], KINDS[i % 6], 1) for i, k in enumerate(ks)] + [(k, "P", 1, 1) for k in (300, 1024, n - 1)], model=False, check=lambda v: v.count("(i ") >= nsib)
        ks = [k for k in LADDER if k <= n // 3 + 1]
        L.add("index", tcase(24, "3*", "utf8", shp, doc), [(k, "FP"[i % 2], KINDS[(i + 2) % 6], 1) for i, k in enumerate(ks)], model=False)
    bsib = b"".join(s(b"k%d" % i) + D.EQ + i32(i) for i in range(nsib))
    barr = s(b"a") + D.EQ + D.OPEN + b"".join(i32(i) for i in range(nsib)) + D.CLOSE + s(b"b") + D.EQ + i32(1)
    for data, shp in ((bsib, "map(i32)"), (barr, "struct(%s:seq(i32),%s:i32)" % (H("a"), H("b")))):
        n = len(data)
        ks = idx_ladder(n, range(298, 304))
        L.add("index", bcase(32, "1*", shp, data), [(k, "FP"[i % 2], KINDS[i % 6], 1) for i, k in enumerate(ks)] + [(k, "P", 4, 1) for k in (300, 1024, n - 1)], model=False, check=lambda v: v.count("(i ") >= nsib)
    # ---- D4: consecutive failing read calls (the deserializer has no retry of its own: the first one ends the call)
    runs = list(range(1, 11)) + [16, 17, 255, 256, 257]
    txt, shp = tdocs[0]
    for k in (0, 1, 5, 16, len(txt) - 1, len(txt), len(txt) + 1):
        L.add("runlen", tcase(16, "1*", "utf8", shp, txt), [(k, "F", kind, r) for r in runs for kind in KINDS[(r + k) % 2::2]])
    data, shp = bdocs[1]
    for k in (0, 1, 6, 20, len(data) - 1, len(data), len(data) + 1):
        L.add("runlen", bcase(32, "1*", shp, data), [(k, "F", kind, r) for r in runs for kind in KINDS[(r + k) % 2::2]])
    # ---- D5: buffer sizes: the default 32 KiB buffer (freader) and explicit sizes around a long value / a large ignored container
    for j, ln in enumerate([k for k in LADDER if 15 <= k <= 32768 - 16] + [32000, 32700]):
        val = bytes([97 + (i % 26) for i in range(ln)])
        txt = b"e=" + val + b" unk={ " + b"x=y " * (ln // 4) + b"} last=end\n"
        n = len(txt)
        for path, chunk in (("freader:4096*", 4096), ("freader:1000,1*", None), ("reader:%d:7*" % (ln + 16), 7), ("reader:%d:%d,1,%d*" % (ln + 16, ln + 1, ln + 15), None)):
            ncall = (n // chunk + 2) if chunk else 6
            ks = sorted(set(range(min(ncall, 8))) | {ncall - 1, ncall // 2})
            L.add("buffer", pcase("text", "plaus", path, "utf8", txt), [(k, "FP"[i % 2], KINDS[(i + j) % 6], 1) for i, k in enumerate(ks)], model=False, check=lambda v, val=val: 'last:Some("end")' in v and ('e:"' + val.decode() + '"') in v)
        bdat = O.bin_str("e", False) + b"\x01\x00" + struct.pack("<HH", 0x000f, ln) + val + O.bin_str("unk", False) + b"\x01\x00\x03\x00" + (struct.pack("<Hi", 0x000c, 5) * (ln // 6)) + b"\x04\x00" \
            + O.bin_str("last", False) + b"\x01\x00" + O.bin_str("end")
        n = len(bdat)
        for path, chunk in (("freader:4096*", 4096), ("freader:1000,1*", None), ("reader:%d:7*" % (ln + 16), 7), ("reader:%d:%d,1,%d*" % (ln + 16, ln + 9, ln + 15), None)):
            ncall = (n // chunk + 2) if chunk else 6
            ks = sorted(set(range(min(ncall, 8))) | {ncall - 1, ncall // 2})
            L.add("buffer", pcase("bin", "plaus", path, "eu4", bdat), [(k, "FP"[i % 2], KINDS[(i + j) % 6], 1) for i, k in enumerate(ks)], model=False, check=lambda v, val=val: 'last:Some("end")' in v and ('e:"' + val.decode() + '"') in v)
    # the longest binary string (u16 length 65535) as a value, through the explicit-buffer reader
    for ln in (65533, 65534, 65535):
        val = b"s" * ln
        bdat = O.bin_str("e", False) + b"\x01\x00" + struct.pack("<HH", 0x000f, ln) + val + O.bin_str("last", False) + b"\x01\x00" + O.bin_str("end")
        for path, ncall in (("reader:%d:4096*" % (ln + 4), 20), ("reader:%d:9,%d,1*" % (ln + 64, ln), 12)):
            L.add("buffer", pcase("bin", "plaus", path, "eu4", bdat), [(k, "FP"[k % 2], KINDS[k % 6], 1) for k in range(ncall)], model=False, check=lambda v, val=val: 'last:Some("end")' in v and ('e:"' + val.decode() + '"') in v)
    L.run("ladder_de")
    ctx.count("ladder_de_specs", len(L.specs))


def run_part(ctx):
    REACHED.clear()
    run_text(ctx)
    run_bin(ctx)
    run_de(ctx)
    for tag, R in sorted(REACHED.items()):
        for what, vals in sorted(R.items()):
            lad = [v for v in LADDER if v in vals]
            ctx.dist["lad_reach_%s_%s" % (tag, what)] = "max %d, %d distinct, ladder values %s" % (max(vals), len(vals), ",".join(str(v) for v in lad)) if vals else "-"
