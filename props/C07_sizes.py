"""C07, wave 6 (engineer s_c07): size / boundary ladders -- see audit/C07.md, section "Size dimensions".

Every size-like dimension of the streaming text reader is walked, ONE at a time on an otherwise small input, over

    0 1 2 3 7 8 9 15 16 17 31 32 33 63 64 65 127 128 129 255 256 257 1023 1024 1025 4095 4096 4097 65533 65534 65535 65536

(+ 2^k-2 so that the *need* hits 2^k exactly, + 32767..32769 around the default 32 KiB buffer, + 2^20 for position()):

  A  length of one atom of every kind (unquoted, @word, @[..], quoted, escape pairs, backslash runs, comments, truncated
     tails, brace runs) x buffer capacity need-1 / need / need+1 / 2^k / hostile recycled buffer x chunk sizes
  B  blank runs (tab/newline = the SWAR fast path, spaces, CRLF, ';') in front of every token kind
  C  the window length (0..25 bytes left) at the moment of the next() call x token kind x token length x leading tabs
  D  alignment: leading tabs x token length x bytes left behind the token, with hostile bytes behind the window
     (tr.subslice: real memory behind the slice; tr.stream: recycled buffer)
  E  buffer capacities on the ladder (2^k-1, 2^k, 2^k+1) over small inputs
  F  the default 32 KiB buffer (TokenReader::new) with atoms that need 32767 / 32768 / 32769 bytes, read_bytes(32767..32769)
  G  number of refills inside ONE token (1 .. 4096) = token length / read chunk size, chunk sizes on the ladder up to 65536
  H  position() beyond 2^16 and 2^20 (long blank runs / comments / one long string), EF BB BF at a window start far from 0
  I  number of tokens in one stream / calls on one reader (0 .. 65536)
  J  read_bytes(k), k on the ladder, x capacity k-1 / k / k+1 x input length k-1 / k / k+1

Oracles (all on the implementation's outputs, none involves the extracted model): the expected token list is known BY
CONSTRUCTION (the `Doc` builder records every token and its span while it writes the bytes), the from_slice reader must
produce it (`slice-ne-reference`), every streaming run must equal the slice run when the buffer is sufficient
(`stream-ne-slice*`, `position`) and be a proper prefix + BufferFull when it is not (`undersized-*`), position() after every
call obeys the position law (`position-law`), read_bytes by the arithmetic of k / length / capacity (`read-bytes`).
The extracted model runs the same cases when the input is short (<= 300 bytes always, <= 1100 bytes every 4th case); it is
roughly quadratic, so the long cases are model=False (streams `*_long`) and are judged by the oracles above only."""
import vlib
from vlib import hexs

LADDER = [0, 1, 2, 3, 7, 8, 9, 15, 16, 17, 31, 32, 33, 63, 64, 65, 127, 128, 129, 255, 256, 257, 1023, 1024, 1025, 4095, 4096, 4097,
          65533, 65534, 65535, 65536]
POW2M = [6, 14, 30, 62, 126, 254, 1022, 4094, 65532]       # need = L + 1 or L + 2: the need itself hits 2^k
BEYOND = [65537, 65538]                                     # a u16 wrap to a NON-zero value
MODEL_SMALL, MODEL_MED = 300, 1100
ALNUM = b"abcdefghijklmnopqrstuvwxyz0123456789"
OPC = {b"<": 0, b"<=": 1, b">": 2, b">=": 3, b"!": 4, b"!=": 4, b"==": 5, b"=": 6, b"?": 7, b"?=": 7}
BOM = b"\xef\xbb\xbf"
WS = set(b" \t\n\r;")
HOSTILE = [0x22, 0x7d, 0x5c, 0x7b, 0x23, 0x0a, 0x61, 0x3d]


def word(L, off=0):
    s = ALNUM[off % 36:] + ALNUM * (L // 36 + 1)
    return s[:L]


class Doc:
    """an input written token by token: the expected tokens and their spans are known by construction"""
    def __init__(self, label=""):
        self.d = bytearray(); self.toks = []; self.term = "END"; self.label = label; self.data = None

    def raw(self, b):
        self.d += b; return self

    def tok(self, text, b):
        a = len(self.d); self.d += b; self.toks.append((text, a, len(self.d))); return self

    def U(self, b):
        return self.tok("U:" + hexs(b), b)

    def Q(self, body):
        return self.tok("Q:" + hexs(body), b'"' + body + b'"')

    def O(self):
        return self.tok("O", b"{")

    def C(self):
        return self.tok("C", b"}")

    def op(self, b):
        return self.tok("OP:%d" % OPC[b], b)

    def err(self, b):
        """an atom the data ends in: Eof"""
        self.d += b; self.term = "ERR:102"; return self

    def done(self):
        self.data = bytes(self.d); self.d = None
        return self

    def texts(self):
        return [t[0] for t in self.toks]


def sstr(s):
    return ",".join(str(x) for x in s) if s else "-"


def per(c, n):
    """periodic schedule of chunk size c covering n bytes"""
    c = max(c, 1)
    return [c] * (n // c + 1)


def pow2_at_least(x):
    p = 1
    while p < x:
        p *= 2
    return p


# ---------------------------------------------------------------------------------------------- A: atoms
def atom_docs(L):
    """one Doc per atom kind whose dominating atom has size parameter L"""
    out = []

    def D(label):
        d = Doc(label); out.append(d); return d
    w = word(L)
    if L >= 1:
        D("unquoted").U(b"k").op(b"=").U(w).raw(b" ").U(b"z").op(b"=").U(b"1")
        D("unquoted-eof").U(b"k").op(b"=").U(w)
        D("unquoted-hi").U(b"k").op(b"=").U(b"\xe9" + w[1:]).raw(b"\n")
        D("unquoted-brace").O().U(w).C()
        D("atword").U(b"@" + w[1:]).op(b"=").U(b"1")
    D("atbracket").U(b"x").op(b"=").U(b"@[" + w + b"]").raw(b" ").U(b"y")
    D("atbracket-eof").U(b"x").op(b"=").err(b"@[" + w)
    D("quoted").U(b"k").op(b"=").Q(w).raw(b" ").U(b"z")
    D("quoted-first").Q(w).op(b"=").Q(w[:3])
    noise = (b"{ }#=\n\t[]@;<>!?\xef\xbb\xbf\xe9\r" * (L // 20 + 1))[:L]
    D("quoted-noise").U(b"k").op(b"=").Q(noise).raw(b"\n").C()
    if L >= 2:
        D("quoted-esc-first").U(b"k").op(b"=").Q(b'\\"' + w[2:]).raw(b" ").U(b"z")
        D("quoted-esc-last").U(b"k").op(b"=").Q(w[2:] + b"\\\\").raw(b" ").U(b"z")
        D("quoted-esc-all").Q(b'\\"' * (L // 2)).raw(b" ").U(b"z")
    if L >= 3:
        a = (L - 2) // 2
        D("quoted-esc-mid").U(b"k").op(b"=").Q(w[:a] + b'\\"' + w[a + 2:]).raw(b" ").U(b"z")
    # a run of L backslashes in front of a quote: even = the quote closes, odd = the quote is escaped
    D("quoted-bsrun").U(b"k").op(b"=").Q(b"ab" + b"\\" * L + (b"" if L % 2 == 0 else b'"x')).raw(b" ").U(b"z")
    D("quoted-eof").U(b"k").op(b"=").err(b'"' + w)
    D("quoted-eof-esc").U(b"k").op(b"=").err(b'"' + w + b"\\")
    D("comment").U(b"a").raw(b" #" + w + b"\n").U(b"b")
    D("comment-cr").U(b"a").raw(b" #" + w + b"\r\n").U(b"b")
    D("comment-eof").U(b"a").op(b"=").U(b"b").raw(b" #" + w)
    cn = (b'"}{\\ #=\t\r@[' * (L // 11 + 1))[:L]
    D("comment-noise").U(b"a").raw(b"#" + cn + b"\n").Q(b"b")
    return [d.done() for d in out]


def atom_policies(d, nd, idx, rng):
    """(cap, schedule, recycled fill) for one atom doc: the capacity relative to the need x chunk sizes"""
    n = len(d.data)
    rot = [8, 9, 7, 3, 16, 2, 17, 15][idx % 8]
    fill = HOSTILE[idx % len(HOSTILE)]
    if n > 60000:
        P = [(nd, None, None), (nd, per([4096, 255, 65535, 17][idx % 4], n), None), (nd + 1, per(4097, n), fill)]
        if nd > 1:
            P.append((nd - 1, None, None))
        return P
    small = 1 if n <= 1100 else [7, 9, 16, 17][idx % 4]
    P = [(nd, per(small, n), None), (nd, None, None), (nd, per(rot, n), fill), (nd + 1, per(rot + 1, n), None)]
    if nd > 1:
        P.append((nd - 1, per(rot, n) if idx % 2 else None, None))
    p2 = pow2_at_least(nd)
    if p2 not in (nd, nd + 1):
        P.append((p2, per(small, n) if idx % 3 == 0 else None, fill if idx % 2 else None))
    if n > 2:
        c = [1, 8, 9, n - 1, n // 2, n - 9][idx % 6]
        c = min(max(c, 1), n - 1)
        P.append((n + 9, [c, n], fill))
    return P


# ---------------------------------------------------------------------------------------------- B: blank runs
def blank_run(kind, W):
    if kind == "tab":
        return b"\t" * W
    if kind == "nl-tab":
        return (b"\n\t\t\t" * (W // 4 + 1))[:W]
    if kind == "space":
        return b" " * W
    if kind == "crlf":
        return (b"\r\n" * (W // 2 + 1))[:W]
    if kind == "mixed":
        return (b" \t\n;\r\n\t\t\t\t\t\t\t\t \n" * (W // 16 + 1))[:W]
    raise ValueError(kind)


BLANKS = ["tab", "nl-tab", "space", "crlf", "mixed"]


def followers():
    """every kind of item that can stand behind a blank run: (label, function Doc -> Doc)"""
    return [("open", lambda d: d.O().U(b"x").C()),
            ("close", lambda d: d.C().U(b"x")),
            ("unquoted", lambda d: d.U(b"abc").op(b"=").U(b"1")),
            ("unquoted-long", lambda d: d.U(b"abcdefghijklmnopq").raw(b" ").U(b"1")),
            ("number", lambda d: d.U(b"-1.500").raw(b" ").U(b"2")),
            ("quoted", lambda d: d.Q(b"q").op(b"=").Q(b"r s")),
            ("quoted-long", lambda d: d.Q(b"abcdefghij\\\"klmnop").raw(b" ")),
            ("op-eq", lambda d: d.op(b"=").U(b"v")),
            ("op-ge", lambda d: d.op(b">=").U(b"v")),
            ("atword", lambda d: d.U(b"@w").op(b"=").U(b"1")),
            ("atbracket", lambda d: d.U(b"@[1+2]").raw(b" ")),
            ("comment", lambda d: d.raw(b"#c {\n").U(b"z")),
            ("eof", lambda d: d),
            ("hi-byte", lambda d: d.U(b"\xe9t\xe9").raw(b"\n")),
            ("ef-bb-bf", lambda d: d.U(BOM + b"z").raw(b" ").U(b"y")),
            ("op-eof", lambda d: d.err(b"="))]


# ---------------------------------------------------------------------------------------------- C / D: windows, alignment
def sized_tokens(L):
    """(label, writer) of one token of L bytes (for the window / alignment sweeps)"""
    out = []
    if L >= 1:
        out.append(("U", lambda d, L=L: d.U(word(L))))
        out.append(("atword", lambda d, L=L: d.U(b"@" + word(L - 1))))
    if L >= 2:
        out.append(("Q", lambda d, L=L: d.Q(word(L - 2))))
        out.append(("comment", lambda d, L=L: d.raw(b"#" + word(L - 2) + b"\n")))
    if L >= 3:
        out.append(("atbracket", lambda d, L=L: d.U(b"@[" + word(L - 3) + b"]")))
    if L >= 4:
        out.append(("Q-esc-early", lambda d, L=L: d.Q(b'\\"' + word(L - 4))))
        out.append(("Q-esc-late", lambda d, L=L: d.Q(word(L - 4) + b"\\\\")))
    return out


# ---------------------------------------------------------------------------------------------- the batch runner
class Batch:
    """collects tr.stream / tr.subslice cases over Docs, runs them, judges them by construction"""
    def __init__(self, ctx, C07, name):
        self.ctx, self.C07, self.name = ctx, C07, name
        self.docs = {}          # data -> Doc
        self.items = []         # (doc, cap, sched, fill, tag, need or None)
        self.sub = []           # (doc, tail)

    def doc(self, d):
        old = self.docs.get(d.data)
        if old is None:
            self.docs[d.data] = d
            return d
        return old

    def add(self, d, cap, sched, fill=None, tag="", need=None):
        d = self.doc(d)
        self.items.append((d, cap, sched, fill, tag or d.label, need))

    def add_sub(self, d, tail):
        d = self.doc(d)
        self.sub.append((d, tail))

    def needs(self, docs):
        """TextRef.need (extracted, proved tight) for the docs"""
        docs = [d for d in docs if len(d.data) <= 70000]
        outs = vlib.run_model(["tr.need\t%s" % hexs(d.data) for d in docs])
        res = {}
        for d, o in zip(docs, outs):
            if o.isdigit():
                res[d.data] = int(o)
            else:
                self.ctx.broken.append({"what": "model-build", "detail": "tr.need did not answer for a %d byte input (%s): %s" % (len(d.data), d.label, o[:80])})
        return res

    def run(self):
        ctx, C07 = self.ctx, self.C07
        docs = list(self.docs.values())
        need = self.needs([d for d in docs if any(it[0] is d and it[5] is None for it in self.items)]) if self.items else {}
        # ---- the from_slice reader against the construction
        smap = {}
        for long_ in (False, True):
            ds = [d for d in docs if (len(d.data) > MODEL_SMALL) == long_]
            if not ds:
                continue
            sc = ["tr.slice\t%s" % hexs(d.data) for d in ds]
            s_impl, _ = ctx.correspond(self.name + "_slice" + ("_long" if long_ else ""), sc, nontrivial=lambda c, i: " " in i, model=not long_)
            sb = len(s_impl) - len(sc)
            for k, d in enumerate(ds):
                o = s_impl[sb + k]
                smap[d.data] = o
                check_slice(ctx, C07, d, o, sc[k])
        # ---- subslices: hostile memory behind the window
        if self.sub:
            sc = ["tr.subslice\t%s\t%d" % (hexs(d.data + tail), len(d.data)) for d, tail in self.sub]
            s_impl, _ = ctx.correspond(self.name + "_subslice", sc, nontrivial=lambda c, i: " " in i)
            sb = len(s_impl) - len(sc)
            for k, (d, tail) in enumerate(self.sub):
                check_slice(ctx, C07, d, s_impl[sb + k], sc[k])
        # ---- the streams
        with_model, without = [], []
        for k, it in enumerate(self.items):
            d = it[0]
            n = len(d.data)
            m = (n <= MODEL_SMALL or (n <= MODEL_MED and k % 4 == 0)) and it[1] <= 70000      # capacities are unary numbers in the model
            (with_model if m else without).append(it)
        for items, long_ in ((with_model, False), (without, True)):
            if not items:
                continue
            cases = ["tr.stream\t%d\t%s\t%s" % (cap, sstr(sched), hexs(d.data)) + ("\t%d" % fill if fill is not None else "") for d, cap, sched, fill, tag, nd in items]
            t_impl, _ = ctx.correspond(self.name + ("_long" if long_ else ""), cases, nontrivial=lambda c, i: ("U:" in i or "Q:" in i or "ERR" in i or "O" in i), model=not long_)
            tb = len(t_impl) - len(cases)
            for k, (d, cap, sched, fill, tag, nd) in enumerate(items):
                nd = nd if nd is not None else need.get(d.data)
                if nd is None:
                    continue
                judge(ctx, C07, d, nd, cap, sched, smap.get(d.data), t_impl[tb + k], cases[k], tag)
        ctx.count(self.name + "_cases", len(self.items) + len(self.sub))
        ctx.count(self.name + "_cases_model_false", len(without))


def brief(d):
    return "%s (%d bytes: %r%s)" % (d.label, len(d.data), d.data[:24], "..." if len(d.data) > 24 else "")


def check_slice(ctx, C07, d, o, case):
    S = C07.split_out(o)
    if S is None:
        ctx.fail("crash", "slice reader %s on %s" % (o[:40], brief(d)), [case], [o]); return
    exp = d.texts()
    if S[0] != exp or S[1] != d.term:
        k = 0
        while k < len(exp) and k < len(S[0]) and exp[k] == S[0][k]:
            k += 1
        ctx.fail("slice-ne-reference", "from_slice reader on %s: first difference at token %d: got %s, by construction %s (terminal %s / %s)" % (
            brief(d), k, (S[0][k] if k < len(S[0]) else S[1])[:60], (exp[k] if k < len(exp) else d.term)[:60], S[1], d.term), [case], [o], " ".join(exp + [d.term])[:4000])
    elif S[1] == "END" and S[2] != str(len(d.data)):
        ctx.fail("position", "slice reader ends cleanly at %s, length %d: %s" % (S[2], len(d.data), brief(d)), [case], [o], "@%d" % len(d.data))


def judge(ctx, C07, d, need, cap, sched, s_out, t_out, case, tag):
    """stream result vs slice result (both from the implementation); same classes as props/C07.judge.  The keys of long
    inputs carry a suffix so that the byte-wise shrinker of props/C07.py (one harness run per removed chunk, every 1-cut
    schedule) is not started on a 64 KiB input"""
    n = len(d.data)
    sfx = "" if n <= 64 else "-long"
    both = ["tr.slice\t%s" % hexs(d.data), case]
    desc = "[%s] %s cap=%d need=%d sched=%s" % (tag, brief(d), cap, need, C07.short(sstr(sched)))
    if t_out in ("PANIC", "ABORT", "HANG") or "RUNAWAY" in t_out:
        ctx.fail("crash", "stream reader %s on %s" % (t_out[:40], desc), both, [s_out, t_out]); return
    S = C07.split_out(s_out) if s_out is not None else (d.texts(), d.term, str(n))
    T = C07.split_out(t_out)
    if S is None or T is None:
        ctx.fail("format", "unparsable output on " + desc, both, [s_out, t_out]); return
    if cap >= need:
        if T[0] != S[0] or T[1] != S[1]:
            k = 0
            while k < len(S[0]) and k < len(T[0]) and S[0][k] == T[0][k]:
                k += 1
            ctx.fail("stream-ne-slice" + sfx, "%s: stream differs from slice at token %d: slice %s stream %s (terminal %s / %s)" % (
                desc, k, (S[0][k] if k < len(S[0]) else S[1])[:60], (T[0][k] if k < len(T[0]) else T[1])[:60], S[1], T[1]), both, [s_out, t_out], (s_out or "")[:4000])
        elif T[1] == "END" and T[2] != str(n):
            ctx.fail("position", "%s: clean end at position %s, input length %d" % (desc, T[2], n), both, [s_out, t_out], "@%d" % n)
    else:
        same = T[0] == S[0] and T[1] == S[1]
        prefix_err = T[1].startswith("ERR") and T[0] == S[0][:len(T[0])]
        if not (same or prefix_err):
            ctx.fail("undersized-" + ("clean-end" if T[1] == "END" else "split"), "%s: slice %s... stream %s..." % (desc, (s_out or "")[:80], t_out[:80]), both, [s_out, t_out], "prefix of slice tokens then ERR")
        elif cap > 0 and T[1] != "ERR:101":
            ctx.fail("undersized-not-bufferfull", "%s: the reader ended with %s instead of BufferFull" % (desc, T[1]), both, [s_out, t_out], "ERR:101")


# ---------------------------------------------------------------------------------------------- ops cases (positions, new, read_bytes)
def judge_ops(ctx, C07, parse_ops_out, d, hk, mode, cap, fits, o, case, tag, readmode=False):
    """`b<hk>,N` or `N` on a Doc whose first hk bytes are a header: tokens by construction, position law after every call,
    final position, the buffer that comes back"""
    n = len(d.data)
    desc = "[%s] %s mode=%s cap=%d" % (tag, brief(d), mode, cap)
    if o in ("PANIC", "ABORT", "HANG") or "RUNAWAY" in o or "BADCASE" in o:
        ctx.fail("ops-crash", "%s on %s" % (o[:40], desc), [case], [o]); return
    P = parse_ops_out(o)
    if P is None:
        ctx.fail("format", "unparsable output of " + desc, [case], [o[:2000]]); return
    items, pos, blen, deliv = P
    want_len = 0 if mode == "slice" else 32768 if mode == "new" else cap
    if blen != want_len:
        ctx.fail("into-parts-buffer", "into_parts returned a buffer of %d bytes, built with %d: %s" % (blen, want_len, desc), [case], [o[:2000]], "L%d" % want_len)
    if mode != "slice" and not (pos <= deliv <= n):
        ctx.fail("into-parts-delivered", "position %d but the Read delivered %d of %d bytes: %s" % (pos, deliv, n, desc), [case], [o[:2000]])
    got = items
    if hk is not None:
        ecap = 10 ** 12 if mode == "slice" else want_len
        if hk <= n and hk <= ecap:
            exp = "B:" + hexs(d.data[:hk])
        elif n < hk and n < ecap:
            exp = "ERR:102"
        else:
            exp = "ERR:101"
        it = items[0] if items else ("?", -1)
        if it[0] != exp or (exp.startswith("B:") and it[1] != hk):
            ctx.fail("read-bytes", "read_bytes(%d) as first call (input %d bytes, capacity %s) gave %s@%d, expected %s: %s" % (hk, n, ecap, it[0][:40], it[1], exp[:40], desc), [case], [o[:2000]], exp[:2000])
            return
        if not exp.startswith("B:"):
            return
        got = items[1:]
    if fits is None:
        return
    # read() = next() with the clean end turned into Eof
    exp_items = d.texts() + ["ERR:102" if readmode else d.term]
    got_items = [a for a, _ in got]
    if fits:
        if got_items != exp_items:
            k = 0
            while k < len(exp_items) and k < len(got_items) and exp_items[k] == got_items[k]:
                k += 1
            ctx.fail("ops-ne-reference", "%s: call %d returned %s, by construction %s" % (desc, k + 1, (got_items[k] if k < len(got_items) else "nothing")[:60], (exp_items[k] if k < len(exp_items) else "nothing")[:60]), [case], [o[:4000]], " ".join(exp_items)[:4000])
            return
        for idx, (a, p) in enumerate(got):
            if idx < len(d.toks):
                lo = d.toks[idx][2]
                hi = d.toks[idx + 1][1] if idx + 1 < len(d.toks) else n
                if not (lo <= p <= hi and all(b in WS for b in d.data[lo:p])):
                    ctx.fail("position-law", "%s: after call %d (%s) position() = %d, the token ends at %d and the next item starts at %d" % (desc, idx + 1, a[:30], p, lo, hi), [case], [o[:4000]], "%d..%d" % (lo, hi))
                    return
            elif (a == "END" or (a == "ERR:102" and d.term == "END")) and p != n:
                ctx.fail("position", "%s: clean end reported at position %d, input length %d" % (desc, p, n), [case], [o[:4000]], "@%d" % n)
        if got and pos != got[-1][1]:
            ctx.fail("position-law", "position() changed without a call: " + desc, [case], [o[:4000]])
    else:
        ok_prefix = bool(got_items) and got_items[:-1] == exp_items[:len(got_items) - 1] and got_items[-1].startswith("ERR")
        if not ok_prefix:
            ctx.fail("undersized-" + ("clean-end" if got_items and got_items[-1] == "END" else "split"), "%s: got %s ..., by construction a proper prefix of the tokens then an error" % (desc, " ".join(got_items)[:120]), [case], [o[:4000]])
        elif got_items[-1] != "ERR:101":
            ctx.fail("undersized-not-bufferfull", "%s: ended with %s instead of BufferFull" % (desc, got_items[-1]), [case], [o[:4000]], "ERR:101")


# ---------------------------------------------------------------------------------------------- the run
def run(ctx, C07):
    from props import C07_more
    rng = ctx.rng
    thorough = ctx.tier == "thorough"

    # ======== A: one atom of every kind, its length on the ladder
    A = Batch(ctx, C07, "sizes_atoms")
    lset = sorted(set(LADDER + POW2M + BEYOND))
    docs = []
    for L in lset:
        for d in atom_docs(L):
            docs.append(A.doc(d))
    need = A.needs(docs)
    idx = 0
    for d in docs:
        nd = need.get(d.data)
        if nd is None:
            continue
        for cap, sched, fill in atom_policies(d, nd, idx, rng):
            A.add(d, cap, sched, fill, need=nd)
        idx += 1
    ctx.count("sizes_atom_docs", len(docs))
    A.run()

    # ======== B: blank runs in front of every token kind
    B = Batch(ctx, C07, "sizes_blanks")
    fl = followers()
    bdocs = []
    idx = 0
    for W in LADDER:
        for fi, (flabel, fw) in enumerate(fl):
            if W <= 33 or thorough:
                kinds = BLANKS
            elif W <= 1100:
                kinds = ["tab", BLANKS[1 + (idx % 4)]]
            else:
                kinds = ["nl-tab" if fi % 2 else "tab"] + (["space"] if fi % 3 == 0 else [])
            for bi, bk in enumerate(kinds):
                for prefix in ((b"",) if (W > 4097 or (W > 33 and (bi + fi) % 2)) else (b"", b"a=")):
                    if W == 0 and ((prefix and flabel in ("op-eq", "op-ge", "op-eof", "eof")) or (not prefix and flabel == "ef-bb-bf")):
                        continue        # without a blank in between these spell other tokens (`a==`, a byte order mark)
                    d = Doc("blank-%s x%d > %s%s" % (bk, W, flabel, " (after a=)" if prefix else ""))
                    if prefix:
                        d.U(b"a").op(b"=")
                    d.raw(blank_run(bk, W))
                    d = fw(d).done()
                    idx += 1
                    if d.data in B.docs:
                        continue
                    bdocs.append((B.doc(d), len(prefix) + W))
    bneed = B.needs([d for d, _ in bdocs])
    for k, (d, e) in enumerate(bdocs):
        nd = bneed.get(d.data)
        if nd is None:
            continue
        n = len(d.data)
        fill = HOSTILE[k % len(HOSTILE)]
        B.add(d, nd, None, None, need=nd)
        B.add(d, max(pow2_at_least(nd), 16), per([8, 9, 16, 7][k % 4], n), fill if k % 2 else None, need=nd)
        # a read that ends exactly at / one before / one after / a word before / a word after the end of the blank run,
        # hostile bytes behind it
        cut = max(1, e + [0, -1, 1, -8, 8][k % 5])
        if cut < n:
            B.add(d, n + 9, [cut, 1, n], fill, need=nd)
        if n <= 4200 and k % 2 == 0:
            B.add(d, nd, per(1, n), None, need=nd)
        if nd > 1 and k % 3 == 0:
            B.add(d, nd - 1, None, None, need=nd)
    ctx.count("sizes_blank_docs", len(bdocs))
    B.run()

    # ======== C: the window length at the moment of the next() call
    Cb = Batch(ctx, C07, "sizes_window")
    intents = []
    idx = 0
    wins = list(range(0, 19)) + [23, 24, 25, 26]
    lens = (1, 2, 7, 8, 9, 15, 16, 17, 18) if not thorough else tuple(range(1, 27))
    for t in (0, 3, 8):
        toks = [("open", lambda d: d.O()), ("close", lambda d: d.C()), ("op-eq", lambda d: d.op(b"=")), ("op-ge", lambda d: d.op(b">=")),
                ("op-excl", lambda d: d.op(b"!")), ("nothing", lambda d: d)]
        for L in lens:
            toks += [("%s/%d" % (lab, L), f) for lab, f in sized_tokens(L)]
        for lab, f in toks:
            d = Doc("{ + %d tabs + %s" % (t, lab)).O().raw(b"\t" * t)
            d = f(d)
            if lab != "nothing":
                d.raw(b" ").U(b"z").op(b"=").Q(b"y")
            d = Cb.doc(d.done())
            n = len(d.data)
            for w in wins:
                if 1 + w >= n:
                    continue
                rest = per(1, n) if idx % 2 else [n]
                Cb.add(d, n + 9, [1 + w] + rest, HOSTILE[idx % 8] if idx % 3 == 0 else None, tag="window=%d" % w, need=1)
                intents.append(w)
                idx += 1
    # fix the needs (cap = n + 9 always suffices: need <= n + 1)
    Cb.run()
    # measured, not assumed: the window length the second next() call really saw
    tcases = ["tr.trace\t%d\t%s\t%s" % (cap, sstr(s), hexs(d.data)) for d, cap, s, f, tag, nd in Cb.items]
    tout = vlib.run_impl(tcases)
    hit = 0
    for w, o in zip(intents, tout):
        p = o.split(" ")
        if len(p) >= 2 and p[1].split(":")[1:2] == [str(w)]:
            hit += 1
    ctx.count("sizes_window_cases_where_the_2nd_call_saw_the_intended_window", hit)
    if hit < len(intents) * 9 // 10:
        ctx.notes.append("sizes_window: only %d of %d cases presented the intended window length to the second next() call" % (hit, len(intents)))

    # ======== D: alignment (leading tabs x token length x bytes behind the token), hostile bytes behind the window
    Db = Batch(ctx, C07, "sizes_align")
    idx = 0
    dl = list(range(0, 19)) + [24, 25]
    for t in (0, 1, 7, 8):
        for L in dl:
            for r in (0, 1, 2, 7, 8, 9):
                variants = [("Q", lambda d: d.Q(word(L)))]
                if L >= 1:
                    variants.append(("U", lambda d: d.U(word(L))))
                if L >= 3:
                    variants.append(("Q-esc", lambda d: d.Q(word(L - 3) + b'\\"' + b"x") if idx % 2 else d.Q(b'\\"' + word(L - 2))))
                for lab, f in variants:
                    d = Doc("%d tabs + %s/%d + %d bytes" % (t, lab, L, r)).raw(b"\t" * t)
                    d = f(d)
                    if idx % 3 == 2:
                        for _ in range(r):
                            d.C()
                    else:
                        d.raw((b"\n", b" ")[idx % 3] * r)
                    d = Db.doc(d.done())
                    n = len(d.data)
                    tail = bytes([HOSTILE[idx % 8]]) * 4 + b'"}\\{a"}=' + b'"' * 8
                    Db.add_sub(d, tail)
                    Db.add(d, n + 9 + (idx % 3), None, HOSTILE[(idx // 2) % 8], need=1)
                    idx += 1
    Db.run()

    # ======== E: capacities on the ladder over small inputs
    E = Batch(ctx, C07, "sizes_caps")
    small = [Doc("small").U(b"abc").op(b"=").Q(b"d\\\"e").raw(b" #c\n").O().U(b"1444.11.11").C().done(),
             Doc("small-ws").U(b"k").raw(b"\n\t\t\t\t\t\t\t\t\t").op(b">=").U(b"@[1]").done(),
             Doc("small-bom").raw(BOM).U(b"a").op(b"=").U(b"1").done(),
             Doc("small-err").U(b"a").op(b"=").err(b'"xyz').done()]
    sneed = E.needs(small)
    for di, d in enumerate(small):
        nd = sneed.get(d.data)
        if nd is None:
            continue
        n = len(d.data)
        for ci, cap in enumerate(sorted(set(LADDER + [32767, 32768, 32769, 65537, 1 << 20]))):
            if cap < 1:
                continue
            E.add(d, cap, [None, per(1, n), per(8, n), per(3, n)][(ci + di) % 4], HOSTILE[ci % 8] if ci % 2 else None, tag="cap=%d" % cap, need=nd)
    E.run()

    # ======== G: number of refills inside one token
    G = Batch(ctx, C07, "sizes_refills")
    gk = ("quoted", "quoted-esc-all", "unquoted", "comment", "atbracket", "quoted-bsrun", "comment-eof", "unquoted-eof")
    for L, chunks, kinds in ((1024, [c for c in LADDER if 1 <= c <= 1025], gk), (4096, [c for c in LADDER if 1 <= c <= 4097], gk[:5]),
                             (65536, [255, 256, 257, 4096, 65535, 65536], ("quoted", "unquoted", "comment"))):
        ds = [A.docs.get(d.data, d) for d in atom_docs(L) if d.label in kinds]
        for d in ds:
            nd = need.get(d.data)
            if nd is None:
                continue
            n = len(d.data)
            for c in chunks:
                G.add(d, nd, per(c, n), HOSTILE[c % 8] if c % 2 else None, tag="chunk=%d" % c, need=nd)
    G.run()
    tcases = ["tr.trace\t%d\t%s\t%s" % (cap, sstr(s), hexs(d.data)) for d, cap, s, f, tag, nd in G.items if len(d.data) <= 5000]
    reach = set()
    for o in vlib.run_impl(tcases):
        for it in o.split(" "):
            p = it.split(":")
            if len(p) == 4 and p[2].isdigit():
                reach.add(int(p[2]))
    ctx.count("sizes_refills_distinct_counts_inside_one_call", len(reach))
    ctx.count("sizes_refills_max_inside_one_call", max(reach) if reach else 0)

    # ======== W: resume offsets / carry-overs just beyond 2^16 (length x alignment): the first read ends 65536 + j bytes into
    # ONE token whose first bytes would close it (escape pairs) or end it (a boundary behind 2^16 bytes) if the scan resumed
    # at offset j instead of 65536 + j
    Wb = Batch(ctx, C07, "sizes_wrap")
    for j in range(0, 19):
        body = b'\\"' * 9 + word(65536 + 22)
        d = Wb.doc(Doc("quoted of %d bytes starting with 9 escape pairs" % len(body)).Q(body).raw(b" ").U(b"z").done())
        n = len(d.data)
        Wb.add(d, len(body) + 1, [1 + 65536 + j] + per(3, 64), None, tag="first read ends %d bytes into the string" % (65536 + j), need=len(body) + 1)
        Wb.add(d, 1 << 17, [1 + 65536 + j, 1, 1] + per(2, 64), HOSTILE[j % 8], tag="first read ends %d bytes into the string" % (65536 + j), need=len(body) + 1)
        wd = word(65536 + 40)
        d = Wb.doc(Doc("unquoted of %d bytes" % len(wd)).U(b"k").op(b"=").U(wd).raw(b"\n").U(b"z").done())
        Wb.add(d, len(wd) + 2, [2 + 65536 + j] + per(3, 64), HOSTILE[j % 8] if j % 2 else None, tag="first read ends %d bytes into the word" % (65536 + j), need=len(wd) + 2)
        cm = b"#" + word(65536 + 40)
        d = Wb.doc(Doc("comment of %d bytes" % len(cm)).U(b"k").raw(b" " + cm + b"\n").U(b"z").done())
        if j % 3 == 0:
            Wb.add(d, len(cm) + 1, [2 + 65536 + j] + per(3, 64), None, tag="first read ends %d bytes into the comment" % (65536 + j), need=len(cm) + 1)
    Wb.run()

    # ======== X: the carry-over (count x offset): the first read ends exactly c bytes into ONE token that starts at a
    # non-zero buffer offset, so that fill_buf has to MOVE exactly c bytes (c on the ladder) -- once a token starts at offset 0
    # the move is the identity and says nothing
    Xb = Batch(ctx, C07, "sizes_carry")
    for ci, c in enumerate(sorted(set(LADDER[1:] + [4094, 8191, 8192, 8193, 16384, 32767, 32768, 32769]))):
        Lc = c + 24
        for ki in range(4):
            if c > 4097 and (ci + ki) % 2:
                continue
            if ki == 0:
                d = Doc("carry %d of a quoted" % c).U(b"k").op(b"=").Q(word(Lc)).raw(b" ").U(b"z")
                p0, nd = 3, Lc + 1
            elif ki == 1:
                d = Doc("carry %d of an unquoted" % c).O().raw(b" ").U(word(Lc)).raw(b" ").C()
                p0, nd = 2, Lc + 2
            elif ki == 2:
                d = Doc("carry %d of a comment" % c).U(b"a").op(b"=").U(b"b").raw(b"#" + word(Lc) + b"\n").U(b"z")
                p0, nd = 3, Lc + 2
            else:
                d = Doc("carry %d of an escaped quoted" % c).C().Q((b'\\"' + b"ab") * (Lc // 4)).U(b"z")
                p0, nd = 2, 4 * (Lc // 4) + 1
            d = Xb.doc(d.done())
            n = len(d.data)
            Xb.add(d, [nd, nd + 1, pow2_at_least(nd + 8), n + 9][(ci + ki) % 4], [p0 + c] + per([7, 1, 4096, 8][ki], n), HOSTILE[(ci + ki) % 8] if ki % 2 else None,
                   tag="the first read ends %d bytes into the token" % c, need=nd)
    Xb.run()

    # ======== I: number of tokens in one stream
    Ib = Batch(ctx, C07, "sizes_counts")

    def count_doc(j, N):
        if j == 0:
            d = Doc("%d x {" % N)
            for _ in range(N):
                d.O()
        elif j == 1:
            d = Doc("%d x a=b" % N)
            for _ in range(N):
                d.U(b"a").op(b"=").U(b"b").raw(b"\n")
        elif j == 2:
            d = Doc("%d x \"q\"" % N)
            for _ in range(N):
                d.Q(b"q").raw(b" ")
        else:
            d = Doc("%d x } then #c" % N)
            for _ in range(N):
                d.C()
            d.raw(b"#c")
        return d.done()
    shape = [count_doc(j, 3) for j in range(4)]
    shape_need = Ib.needs(shape)
    for N in LADDER:
        for j in range(4):
            d = Ib.doc(count_doc(j, N))
            n = len(d.data)
            nd = shape_need.get(shape[j].data) if N >= 3 else None      # the need is a maximum over the atoms: same for every N >= 3
            Ib.add(d, 3 if nd is None else nd, None, None, need=nd)
            Ib.add(d, [16, 1024, 9, 64][j], per([9, 8, 1, 17][j], n) if n <= 70000 else per(4097, n), HOSTILE[N % 8], need=nd)
    Ib.run()

    # ======== ops: F (default 32 KiB), H (far positions), J (read_bytes ladder)
    ocases, ometa = [], []

    def addop(mode, cap, sched, d, ops, hk, fits, tag):
        ocases.append("tr.opsp\t%s\t%d\t%s\t%s\t%s" % (mode, cap, sstr(sched), hexs(d.data), ops))
        ometa.append((d, hk, mode, cap, fits, tag))

    # ---- F: atoms needing 32767 / 32768 / 32769 bytes in the default buffer
    fk = ("unquoted", "unquoted-eof", "atword", "atbracket", "quoted", "quoted-esc-all", "quoted-esc-last", "quoted-bsrun", "comment", "comment-cr", "comment-eof", "quoted-eof", "atbracket-eof")
    cand = []
    for L in range(32760, 32772):
        cand += [d for d in atom_docs(L) if d.label in fk]
    fneed = A.needs(cand)
    got_f = {}
    for d in cand:
        nd = fneed.get(d.data)
        if nd in (32767, 32768, 32769) and (d.label, nd) not in got_f:
            got_f[(d.label, nd)] = d
    for (lab, nd), d in sorted(got_f.items()):
        n = len(d.data)
        for j, s in enumerate((None, per(4096, n), per(32768, n), per(1000, n), per(32767, n))):
            if j < 2 or (j + nd) % 3 == 0:
                addop("new", 0, s, d, "N" if j % 2 == 0 else "R", None, nd <= 32768, "default buffer, need %d" % nd)
        # the same atom through buffer_len(32768): the default must behave like it
        addop("len", 32768, None, d, "N", None, nd <= 32768, "buffer_len(32768), need %d" % nd)
    ctx.count("sizes_default_buffer_atoms", len(got_f))
    for k in (32767, 32768, 32769):
        for n in (k - 1, k, k + 5):
            d = Doc("header %d of %d" % (k, n)).raw(b"H" * n).done()
            addop("new", 0, per(5000, n), d, "b%d" % k, k, None, "read_bytes(%d) on the default buffer" % k)
    # ---- J: read_bytes(k), k on the ladder
    for k in LADDER[1:]:
        for n in (k - 1, k, k + 1, k + 6):
            hd = (b'H"{\\#' * (k // 5 + 1))[:min(k, n)]
            d = Doc("header %d of %d" % (k, n)).raw(hd)
            if n > k:
                d.raw(b"\n" * (n - k - 3) if n - k > 3 else b"")
                if n - k >= 3:
                    d.U(b"a").op(b"=").U(b"b")
                else:
                    d.raw(b" " * (n - k))
            d = d.done()
            n = len(d.data)
            # tokens behind the header: spans are relative to the whole input (the header is not tokenised)
            addop("slice", 0, None, d, "b%d,N" % k, k, True if n >= k else None, "read_bytes(%d), slice" % k)
            for cap in (k - 1, k, k + 1):
                if cap < 1:
                    continue
                sched = [None, per(1, n) if n <= 4200 else per(17, n), per(9, n)][(k + cap) % 3]
                # behind the header there are blanks and `a=b`: any buffer of 8 bytes holds them
                fits = (True if cap >= 8 and cap >= k else None) if n >= k else None
                addop("len", cap, sched, d, "b%d,N" % k, k, fits, "read_bytes(%d), cap %d" % (k, cap))
    # ---- H: position() beyond 2^16 and 2^20
    far = []
    for P in (1 << 16, 1 << 20):
        for bk in ("nl-tab", "space"):
            d = Doc("%s run of %d then tokens" % (bk, P + 5)).U(b"a").op(b"=").U(b"b").raw(blank_run(bk, P + 5)).U(b"c").op(b"=").O().raw(b" ").Q(b"q").raw(b" ").C().raw(b" #x\n ").U(b"d").raw(b"\n\n")
            far.append((d.done(), 64))
        d = Doc("comment of %d then tokens" % (P + 3)).U(b"a").raw(b" #" + word(P + 3) + b"\n").U(b"c").op(b"=").Q(b"q").raw(b" ").U(b"d").raw(b" ")
        far.append((d.done(), P + 64))
        d = Doc("quoted of %d then tokens" % (P + 1)).Q(word(P + 1)).op(b"=").U(b"c").raw(b"\t").U(b"d")
        far.append((d.done(), P + 64))
        d = Doc("%d x %s then EF BB BF" % (P, "{" if P <= (1 << 16) else "newline"))
        if P <= (1 << 16):
            for _ in range(P):
                d.O()
        else:
            d.raw(b"\n" * P)
        d.U(BOM + b"a").raw(b" ").U(b"b")
        far.append((d.done(), 16))
    for d, cap in far:
        n = len(d.data)
        addop("slice", 0, None, d, "N", None, True, "far position, slice")
        addop("len", cap, None, d, "N", None, True, "far position, cap %d" % cap)
        addop("new", 0, per(65536 + 1, n), d, "R", None, cap <= 32768, "far position, default buffer (read)")
    # EF BB BF exactly at a window start, at positions on the ladder: never a byte order mark
    for P in LADDER[1:]:
        d = Doc("%d blanks then EF BB BF at a window start" % P).raw(b" " * P).U(BOM + b"a").raw(b" ").U(b"b").done()
        addop("len", P + 16, [P, 1, 1, 1], d, "N", None, True, "EF BB BF at position %d" % P)
        d = Doc("%d x { then EF BB BF" % P)
        for _ in range(P):
            d.O()
        d = d.U(BOM + b"a").raw(b" ").U(b"b").done()
        addop("len", 8, None, d, "N", None, True, "EF BB BF at position %d" % P)
        addop("slice", 0, None, d, "N", None, True, "EF BB BF at position %d" % P)
    small_i = [k for k in range(len(ocases)) if len(ometa[k][0].data) <= MODEL_SMALL]
    big_i = [k for k in range(len(ocases)) if len(ometa[k][0].data) > MODEL_SMALL]
    for name, ids, model in (("sizes_ops", small_i, False), ("sizes_ops_long", big_i, False)):
        cs = [ocases[k] for k in ids]
        o_impl, _ = ctx.correspond(name, cs, nontrivial=lambda c, i: ("U:" in i or "Q:" in i or "B:" in i or "ERR" in i), model=False)
        ob = len(o_impl) - len(cs)
        for j, k in enumerate(ids):
            d, hk, mode, cap, fits, tag = ometa[k]
            judge_ops(ctx, C07, C07_more.parse_ops_out, d, hk, mode, cap, fits, o_impl[ob + j], cs[j], tag, cs[j].endswith("R"))
    # the results (without the per-call positions) of the short op lists also against the extracted model
    mc = [ocases[k].replace("tr.opsp\t", "tr.ops\t", 1) for k in small_i]
    ctx.correspond("sizes_ops_model", mc, nontrivial=lambda c, i: ("U:" in i or "Q:" in i or "B:" in i))
    ctx.count("sizes_ops_cases", len(ocases))
