// Replay of finding N (audit/C05.md section 6): build against the repository with `opt-level = 0` (cargo dev default),
// run `scratch text 20000`, `scratch textu 20000`, `scratch bin 65000` -> "fatal runtime error: stack overflow".
// With opt-level >= 1 the same runs finish (the refill recursion becomes a loop).
use std::io::Read;
struct OneByte<'a>(&'a [u8]);
impl<'a> Read for OneByte<'a> {
    fn read(&mut self, buf: &mut [u8]) -> std::io::Result<usize> {
        if self.0.is_empty() || buf.is_empty() { return Ok(0); }
        buf[0] = self.0[0];
        self.0 = &self.0[1..];
        Ok(1)
    }
}
fn main() {
    let a: Vec<String> = std::env::args().collect();
    let n: usize = a[2].parse().unwrap();
    if a[1] == "text" {
        let mut d = b"a=\"".to_vec();
        d.extend(std::iter::repeat(b'q').take(n));
        d.push(b'"');
        let mut rd = jomini::text::TokenReader::builder().buffer_len(n + 100).build(OneByte(&d));
        let mut k = 0;
        while let Ok(Some(_)) = rd.next() { k += 1; }
        println!("text tokens={} pos={}", k, rd.position());
    } else if a[1] == "textu" {
        let mut d = b"a=".to_vec();
        d.extend(std::iter::repeat(b'q').take(n));
        let mut rd = jomini::text::TokenReader::builder().buffer_len(n + 100).build(OneByte(&d));
        let mut k = 0;
        while let Ok(Some(_)) = rd.next() { k += 1; }
        println!("textu tokens={} pos={}", k, rd.position());
    } else {
        let m = n.min(65535);
        let mut d = vec![0x84, 0x2d, 1, 0, 0x0f, 0, (m & 255) as u8, (m >> 8) as u8];
        d.extend(std::iter::repeat(b'q').take(m));
        let mut rd = jomini::binary::TokenReader::builder().buffer_len(m + 100).build(OneByte(&d));
        let mut k = 0;
        while let Ok(Some(_)) = rd.next() { k += 1; }
        println!("bin tokens={} pos={}", k, rd.position());
    }
}
