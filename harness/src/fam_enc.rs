//! family enc (C12, wave 4): every *route* to the two decoders of encoding.rs that the leaf kinds
//! `enc.w1252` / `enc.utf8` (fam_leafs.rs, inherent static functions on a fresh Vec) do not take:
//! the `Encoding` trait methods, `impl Encoding for &T` / `Box<T>`, trait objects, `new()` /
//! `Default`, a sub-slice of a larger buffer (any alignment, hostile neighbours, address of the
//! borrowed str), `Scalar`'s `Display` (the other crate-internal caller of decode_windows1252),
//! and the way from a document to `read_str` / a `&str` field.
use crate::util::*;
use jomini::text::ObjectReader;
use jomini::{Encoding, Scalar, TextDeserializer, TextTape, Utf8Encoding, Windows1252Encoding};
use serde::Deserialize;
use std::borrow::Cow;

fn show_cow(c: &Cow<str>) -> String {
    let tag = if matches!(c, Cow::Borrowed(_)) { "B:" } else { "O:" };
    format!("{}{}", tag, hex(c.as_bytes()))
}

/// `@off:len` of a borrowed str relative to `base` (the slice handed to the decoder); an empty
/// str has no meaningful address (`@0:0`); a pointer outside `whole` is `@outside`.
fn show_ptr(c: &Cow<str>, base: &[u8], whole: &[u8]) -> String {
    match c {
        Cow::Owned(_) => String::new(),
        Cow::Borrowed(s) => {
            if s.is_empty() {
                return "@0:0".into();
            }
            let p = s.as_ptr() as usize;
            let w = whole.as_ptr() as usize;
            if p < w || p + s.len() > w + whole.len() {
                return "@outside".into();
            }
            format!("@{}:{}", p as isize - base.as_ptr() as isize, s.len())
        }
    }
}

fn generic<E: Encoding>(e: E, d: &[u8]) -> Cow<str> {
    e.decode(d)
}

fn generic_unsized<E: Encoding + ?Sized>(e: &E, d: &[u8]) -> String {
    show_cow(&e.decode(d))
}

fn via<E>(route: &str, e: E, d: &[u8]) -> Option<String>
where
    E: Encoding + Copy + Clone + Default + std::fmt::Debug + 'static,
{
    let r = match route {
        "trait" => show_cow(&Encoding::decode(&e, d)),
        "default" => show_cow(&Encoding::decode(&E::default(), d)),
        "clone" => {
            let e2 = e;
            let e3 = e2.clone();
            let a = show_cow(&e2.decode(d));
            let b = show_cow(&Encoding::decode(&e3, d));
            if a != b {
                return Some(format!("DIFF:{}|{}", a, b));
            }
            a
        }
        "ref" => show_cow(&Encoding::decode(&&e, d)),
        "refref" => show_cow(&Encoding::decode(&&&e, d)),
        "dyn" => {
            let o: &dyn Encoding = &e;
            show_cow(&o.decode(d))
        }
        "refdyn" => {
            let o: &dyn Encoding = &e;
            show_cow(&Encoding::decode(&o, d)) // impl Encoding for &T with T = dyn Encoding
        }
        "box" => {
            let b: Box<E> = Box::new(e);
            show_cow(&Encoding::decode(&b, d))
        }
        "boxdyn" => {
            let b: Box<dyn Encoding> = Box::new(e);
            show_cow(&Encoding::decode(&b, d)) // impl Encoding for Box<T> with T = dyn Encoding
        }
        "refboxdyn" => {
            let b: Box<dyn Encoding> = Box::new(e);
            show_cow(&generic(&b, d))
        }
        "boxref" => {
            let b: Box<&dyn Encoding> = Box::new(&e);
            show_cow(&generic(b, d))
        }
        "unsized" => {
            let b: Box<dyn Encoding> = Box::new(e);
            generic_unsized::<dyn Encoding>(&*b, d)
        }
        _ => return None,
    };
    Some(r)
}

#[derive(Deserialize)]
struct FBorrow<'a> {
    #[serde(borrow)]
    a: &'a str,
}
#[derive(Deserialize)]
struct FOwned {
    a: String,
}
#[derive(Deserialize)]
struct FCow<'a> {
    #[serde(borrow)]
    a: Cow<'a, str>,
}

fn e2e_reader<'d, 't, E: Encoding + Clone>(r: ObjectReader<'d, 't, E>, data: &[u8], doc: &[u8]) -> Result<String, String> {
    let mut it = r.fields();
    let (k, _op, v) = it.next().ok_or("NO-FIELD")?;
    if k.read_str() != "a" || k.read_scalar().as_bytes() != b"a" {
        return Err("KEY-MISMATCH".into());
    }
    let sc = v.read_scalar().map_err(|_| "NOT-SCALAR")?;
    if sc.as_bytes() != data {
        return Err("SCALAR-MISMATCH".into());
    }
    let c = v.read_str().map_err(|_| "NOT-SCALAR")?;
    let s = v.read_string().map_err(|_| "NOT-SCALAR")?;
    // the scalar starts 3 bytes into the document:  a="
    Ok(format!("R={}{}|S={}", show_cow(&c), show_ptr(&c, &doc[3..], doc), hex(s.as_bytes())))
}

fn e2e_de<'a, 'b, E: Encoding + Clone>(de: &TextDeserializer<'a, 'b, E>, doc: &'a [u8]) -> String {
    let d = match de.deserialize::<FBorrow<'a>>() {
        Ok(x) => {
            let c = Cow::Borrowed(x.a);
            format!("{}{}", hex(x.a.as_bytes()), show_ptr(&c, &doc[3..], doc))
        }
        Err(_) => "ERR".into(),
    };
    let t = match de.deserialize::<FOwned>() {
        Ok(x) => hex(x.a.as_bytes()),
        Err(_) => "ERR".into(),
    };
    let c = match de.deserialize::<FCow<'a>>() {
        Ok(x) => show_cow(&x.a),
        Err(_) => "ERR".into(),
    };
    format!("D={}|T={}|C={}", d, t, c)
}

fn e2e(dec: &str, data: &[u8]) -> String {
    let mut doc = b"a=\"".to_vec();
    doc.extend_from_slice(data);
    doc.push(b'"');
    let doc = &doc[..];
    let tape = match TextTape::from_slice(doc) {
        Ok(t) => t,
        Err(_) => return "PARSE-ERR".into(),
    };
    let rd = match dec {
        "w" => e2e_reader(tape.windows1252_reader(), data, doc),
        _ => e2e_reader(tape.utf8_reader(), data, doc),
    };
    let rd = match rd {
        Ok(s) => s,
        Err(e) => return e,
    };
    // three ways to a deserializer: owned tape (from_*_slice), borrowed tape, caller-supplied encoding (by reference)
    let (d1, d2, d3) = match dec {
        "w" => {
            let a = match TextDeserializer::from_windows1252_slice(doc) {
                Ok(de) => e2e_de(&de, doc),
                Err(_) => "PARSE-ERR".into(),
            };
            let b = e2e_de(&TextDeserializer::from_windows1252_tape(&tape), doc);
            let enc = Windows1252Encoding::new();
            let c = e2e_de(&TextDeserializer::from_encoded_tape(&tape, &enc), doc);
            (a, b, c)
        }
        _ => {
            let a = match TextDeserializer::from_utf8_slice(doc) {
                Ok(de) => e2e_de(&de, doc),
                Err(_) => "PARSE-ERR".into(),
            };
            let b = e2e_de(&TextDeserializer::from_utf8_tape(&tape), doc);
            let enc = Utf8Encoding::new();
            let c = e2e_de(&TextDeserializer::from_encoded_tape(&tape, &enc), doc);
            (a, b, c)
        }
    };
    if d1 != d2 || d1 != d3 {
        return format!("{}|DE-DIFF:{}/{}/{}", rd, d1, d2, d3);
    }
    format!("{}|{}", rd, d1)
}

pub fn dispatch(kind: &str, a: &[&str]) -> Option<String> {
    let r = match (kind, a) {
        ("enc.via", [route, dec, h]) => {
            let d = unhex(h);
            match (*route, *dec) {
                ("static", "w") => show_cow(&Windows1252Encoding::decode(&d)),
                ("static", _) => show_cow(&Utf8Encoding::decode(&d)),
                ("new", "w") => show_cow(&Encoding::decode(&Windows1252Encoding::new(), &d)),
                ("new", _) => show_cow(&Encoding::decode(&Utf8Encoding::new(), &d)),
                (r, "w") => via(r, Windows1252Encoding, &d)?,
                (r, _) => via(r, Utf8Encoding, &d)?,
            }
        }
        ("enc.ctx", [dec, pre, h, post]) => {
            let (pre, d, post) = (unhex(pre), unhex(h), unhex(post));
            let mut buf = pre.clone();
            buf.extend_from_slice(&d);
            buf.extend_from_slice(&post);
            buf.shrink_to_fit();
            let s = &buf[pre.len()..pre.len() + d.len()];
            // both the inherent function and the trait method, on the same slice
            let (c1, c2) = match *dec {
                "w" => (Windows1252Encoding::decode(s), Encoding::decode(&Windows1252Encoding::new(), s)),
                _ => (Utf8Encoding::decode(s), Encoding::decode(&Utf8Encoding::new(), s)),
            };
            let o1 = format!("{}{}", show_cow(&c1), show_ptr(&c1, s, &buf));
            let o2 = format!("{}{}", show_cow(&c2), show_ptr(&c2, s, &buf));
            if o1 != o2 {
                format!("DIFF:{}|{}", o1, o2)
            } else {
                o1
            }
        }
        // >>> s_c12 (wave 6): the slice at a chosen ABSOLUTE address modulo 128 (`al`), hostile bytes before and after; same
        //     output as enc.ctx.  A decoder that walked aligned words / 16, 32, 64-byte blocks (align_to, SIMD) would depend on it.
        ("enc.al", [dec, al, pre, h, post]) => {
            let (al, pre, d, post) = (al.parse::<usize>().ok()? % 128, unhex(pre), unhex(h), unhex(post));
            let mut buf: Vec<u8> = Vec::with_capacity(pre.len() + d.len() + post.len() + 256);
            let want = (al + 128 - pre.len() % 128) % 128; // address of buf[pad] modulo 128
            let pad = (want + 128 - (buf.as_ptr() as usize) % 128) % 128;
            for i in 0..pad {
                buf.push(if i % 2 == 0 { b'\\' } else { 0xff });
            }
            buf.extend_from_slice(&pre);
            buf.extend_from_slice(&d);
            buf.extend_from_slice(&post);
            let lo = pad + pre.len();
            let s = &buf[lo..lo + d.len()];
            if !d.is_empty() && (s.as_ptr() as usize) % 128 != al {
                return Some("MISALIGNED".into());
            }
            let (c1, c2) = match *dec {
                "w" => (Windows1252Encoding::decode(s), Encoding::decode(&Windows1252Encoding::new(), s)),
                _ => (Utf8Encoding::decode(s), Encoding::decode(&Utf8Encoding::new(), s)),
            };
            let o1 = format!("{}{}", show_cow(&c1), show_ptr(&c1, s, &buf));
            let o2 = format!("{}{}", show_cow(&c2), show_ptr(&c2, s, &buf));
            if o1 != o2 {
                format!("DIFF:{}|{}", o1, o2)
            } else {
                o1
            }
        }
        // <<<
        ("enc.display", [h]) => {
            let d = unhex(h);
            let s = Scalar::new(&d);
            let disp = format!("{}", s);
            let dbg = format!("{:?}", s);
            if dbg != format!("Scalar {{ {} }}", disp) {
                format!("DEBUG-DIFF:{}", hex(dbg.as_bytes()))
            } else if s.to_string() != disp {
                "TOSTRING-DIFF".into()
            } else {
                format!("S:{}", hex(disp.as_bytes()))
            }
        }
        ("enc.e2e", [dec, h]) => e2e(dec, &unhex(h)),
        ("enc.cp1252", [b]) => (jomini::verif_hooks::windows_1252(b.parse::<u8>().ok()?) as u32).to_string(),
        _ => return None,
    };
    Some(r)
}
